//! Typed, scope-aware random program generator for naijascript, plus the finite C06 product.
//!
//! `gen_program` builds one program statement by statement.  At every point it knows
//!   * the scope stack: name → run-time type (`Ty`, arrays with guaranteed minimal lengths), the set of
//!     static types the resolver may have inferred for the name (`st`, a bit set — see `Gen::inf`, a
//!     small abstract re-implementation of `check_expr`/`infer_expr_type`), size bounds, ownership;
//!   * the function table: signature, result type, which outer variables a call may write
//!     (numbers/booleans vs. strings/arrays — the latter make the function "heap-impure", rule R1),
//!     output/work estimates, recursion argument;
//!   * the context: current function, loop nesting, multiplicity (how often the statement may execute).
//! Expressions are produced for a requested run-time type as a small AST (`Ex`), validated against the
//! abstract resolver, and printed with minimal parentheses plus explicit `Par` nodes.
//!
//! The main generator deliberately avoids the interpreter's known defect shapes (rules R1–R12 of the
//! task description; each rule is referenced where it is enforced).  `product_cases` does the opposite:
//! it enumerates sink × run-time type × dynamic route completely.
//!
//! Shapes added after seeded faults slipped through (each a weighted option, see `idiom`, `hold_defs`):
//!   * definitions in DEAD code: a forward-planned function may be kept back (`Scope::hold`) until its block
//!     — function body, loop body, branch — has ended with an unconditional `return` / `comot` / `next`, so
//!     that its definition statement is unreachable while the calls before the jump reach it through
//!     hoisting (marker comment `# hoisted-after-jump`); the hand-written idiom `dead_defs` adds the hosts,
//!     dead causes (jump, nested block that jumps, `if` whose branches both jump), call sites and helper
//!     placements the typed generator cannot produce, in particular helpers reachable ONLY through the
//!     hoisted function (what an over-eager "never called" pruning would drop);
//!   * `interp_twice`: one string literal with the same `{name}` placeholder several times, read inside a
//!     function that takes the variable from an enclosing scope and is called under a live same-named
//!     variable (caller local / parameter / block / loop variable, other activations of a recursion);
//!     `str_lit` also repeats a placeholder now and then;
//!   * `long_rows`: strings longer than the largest pool slot (256 bytes) built in a function, returned and
//!     kept as array elements while storage is allocated through other names;
//!   * `effect_idiom` (third round; generators with expected output at the end of this file, also used as C05
//!     templates): `impure_chain` — mutating methods, index assignments and reads whose receiver / target chain
//!     holds index expressions with effects (each evaluated exactly once, left to right); `operand_order` — every
//!     multi-operand construct in which a later operand changes the variable an earlier operand has read;
//!   * `retype_redeclare` (`retype_program`, also the C04 templates): one name `make`-declared several times in
//!     the same block at DIFFERENT literal types with capturing functions defined between the declarations.
#![allow(clippy::too_many_lines, clippy::many_single_char_names)]

use std::sync::atomic::{AtomicBool, Ordering};

use crate::util::Rng;

/// When set, `gen_program` also avoids the shapes that hit the defects repaired by the `fix:` commits
/// (D-02 aliasing, D-03 analysis, D-13 long needles: rules R1–R6, R10, R12).  Off by default: on the
/// repaired tree exactly those shapes are the interesting ones and are produced on purpose.
pub static STRICT: AtomicBool = AtomicBool::new(false);

#[derive(Clone, Copy, Debug, PartialEq, Eq)]
pub enum Bias {
    Mixed,
    Arrays,
    Scoping,
    Strings,
    Control,
    Numbers,
}

#[derive(Clone, Debug)]
pub struct GenOpts {
    pub max_stmts: usize,
    pub errors: bool,
    pub bias: Bias,
}

impl Default for GenOpts {
    fn default() -> Self {
        GenOpts { max_stmts: 40, errors: true, bias: Bias::Mixed }
    }
}

/// One random program text (valid UTF-8). All randomness from `rng`.
pub fn gen_program(rng: &mut Rng, opts: &GenOpts) -> String {
    Gen::new(rng, opts).program()
}

// ------------------------------------------------------------------------------------------------
// Run-time types
// ------------------------------------------------------------------------------------------------

/// Run-time type the generator knows a value has. `Str(true)` = made only of characters whose case
/// mapping our model knows. `Arr(elem, n)` = every such array has at least `n` elements.
#[derive(Clone, Debug, PartialEq)]
enum Ty {
    Num,
    Str(bool),
    Bool,
    Null,
    Arr(Box<Ty>, usize),
    Cmd,
    /// unknown: only type-agnostic uses (shout, typeof, to_string, interpolation, `na null`)
    Any,
    /// element type of `[]`
    Bot,
}

fn arr(e: Ty, n: usize) -> Ty {
    Ty::Arr(Box::new(e), n)
}

/// `a` may be used where `want` is requested.
fn fits(a: &Ty, want: &Ty) -> bool {
    match (a, want) {
        (_, Ty::Any) | (Ty::Bot, _) => true,
        (Ty::Str(sa), Ty::Str(sw)) => *sa || !*sw,
        (Ty::Arr(ea, na), Ty::Arr(ew, nw)) => na >= nw && fits(ea, ew),
        _ => a == want,
    }
}

/// Greatest lower bound of what is known about two values of the same kind.
fn meet(a: &Ty, b: &Ty) -> Ty {
    match (a, b) {
        (Ty::Bot, t) | (t, Ty::Bot) => t.clone(),
        (Ty::Str(x), Ty::Str(y)) => Ty::Str(*x && *y),
        (Ty::Arr(ea, na), Ty::Arr(eb, nb)) => arr(meet(ea, eb), (*na).min(*nb)),
        _ => a.clone(),
    }
}

/// Same type with every guaranteed length set to zero.
fn slack(t: &Ty) -> Ty {
    match t {
        Ty::Arr(e, _) => arr(slack(e), 0),
        _ => t.clone(),
    }
}

fn is_heap(t: &Ty) -> bool {
    matches!(t, Ty::Str(_) | Ty::Arr(..) | Ty::Any | Ty::Cmd)
}

// Static types as the resolver sees them, as a bit set of possibilities.
const N: u16 = 1;
const S: u16 = 2;
const B: u16 = 4;
const U: u16 = 8; // null
const A: u16 = 16;
const C: u16 = 32; // process command
const R: u16 = 64; // process result
const D: u16 = 128; // Dynamic
const X: u16 = 256; // `infer_expr_type` returned None
const ALL_BITS: [u16; 9] = [N, S, B, U, A, C, R, D, X];

fn st_of(t: &Ty) -> u16 {
    match t {
        Ty::Num => N,
        Ty::Str(_) => S,
        Ty::Bool => B,
        Ty::Null => U,
        Ty::Arr(..) => A,
        Ty::Cmd => C,
        Ty::Any | Ty::Bot => D,
    }
}

/// (arity, static result) of method `name` on a receiver of static type `recv` (one bit).
fn meth_sig(recv: u16, name: &str) -> Option<(usize, u16)> {
    Some(match (recv, name) {
        (S, "len" | "to_number") => (0, N),
        (S, "find") => (1, N),
        (S, "to_uppercase" | "to_lowercase" | "trim") => (0, S),
        (S, "slice" | "replace") => (2, S),
        (S, "split") => (1, A),
        (N, "abs" | "sqrt" | "floor" | "ceil" | "round") => (0, N),
        (A, "len") => (0, N),
        (A, "push") => (1, U),
        (A, "pop") => (0, D),
        (A, "reverse") => (0, U),
        (A, "join") => (1, S),
        (C, "arg" | "cwd" | "stdin_text" | "timeout_ms") => (1, U),
        (C, "env") => (2, U),
        (C, "run") => (0, R),
        (C, m) if CMD_FLAGS.contains(&m) => (0, U),
        (R, "success") => (0, B),
        (R, "exit_code" | "stdout" | "stderr") => (0, D),
        _ => return None,
    })
}

const CMD_FLAGS: [&str; 8] = [
    "stdin_inherit",
    "stdin_null",
    "stdout_capture",
    "stdout_inherit",
    "stdout_null",
    "stderr_capture",
    "stderr_inherit",
    "stderr_null",
];

// ------------------------------------------------------------------------------------------------
// Expression AST and printer
// ------------------------------------------------------------------------------------------------

#[derive(Clone, Copy, Debug, PartialEq, Eq)]
enum Op {
    Add,
    Minus,
    Times,
    Divide,
    Mod,
    Na,
    Pass,
    SmallPass,
    And,
    Or,
}

impl Op {
    fn word(self) -> &'static str {
        match self {
            Op::Add => "add",
            Op::Minus => "minus",
            Op::Times => "times",
            Op::Divide => "divide",
            Op::Mod => "mod",
            Op::Na => "na",
            Op::Pass => "pass",
            Op::SmallPass => "small pass",
            Op::And => "and",
            Op::Or => "or",
        }
    }
    /// Left binding power (right is one more: every operator is left associative).
    fn bp(self) -> u8 {
        match self {
            Op::Times | Op::Divide | Op::Mod => 20,
            Op::Add | Op::Minus => 10,
            Op::Na | Op::Pass | Op::SmallPass => 7,
            Op::And => 5,
            Op::Or => 1,
        }
    }
}

#[derive(Clone, Debug)]
enum Ex {
    Num(String),
    /// source text including quotes; names interpolated by it
    Str(String, Vec<String>),
    Bool(bool),
    Null,
    Var(String),
    Arr(Vec<Ex>),
    Idx(Box<Ex>, Box<Ex>),
    Call(String, Vec<Ex>),
    Meth(Box<Ex>, String, Vec<Ex>),
    Not(Box<Ex>),
    Neg(Box<Ex>),
    Bin(Op, Box<Ex>, Box<Ex>),
    /// explicit (redundant or not) parentheses
    Par(Box<Ex>),
}

fn var(n: &str) -> Ex {
    Ex::Var(n.to_string())
}
fn num(n: impl ToString) -> Ex {
    Ex::Num(n.to_string())
}
fn lit(s: &str) -> Ex {
    Ex::Str(format!("\"{s}\""), Vec::new())
}
fn bin(op: Op, l: Ex, r: Ex) -> Ex {
    Ex::Bin(op, Box::new(l), Box::new(r))
}
fn idx(a: Ex, i: Ex) -> Ex {
    Ex::Idx(Box::new(a), Box::new(i))
}
fn meth(r: Ex, name: &str, args: Vec<Ex>) -> Ex {
    Ex::Meth(Box::new(r), name.to_string(), args)
}
fn call(name: &str, args: Vec<Ex>) -> Ex {
    Ex::Call(name.to_string(), args)
}
fn par(e: Ex) -> Ex {
    Ex::Par(Box::new(e))
}

impl Ex {
    /// Text that parses back to this tree when it appears where binding power `ctx` is required.
    fn show(&self, ctx: u8) -> String {
        match self {
            Ex::Num(s) => {
                if ctx >= 40 {
                    format!("({s})") // `3.abs()` does not lex
                } else {
                    s.clone()
                }
            }
            Ex::Str(s, _) => s.clone(),
            Ex::Bool(b) => b.to_string(),
            Ex::Null => "null".to_string(),
            Ex::Var(v) => v.clone(),
            Ex::Arr(es) => format!("[{}]", list(es)),
            Ex::Idx(a, i) => format!("{}[{}]", a.show(40), i.show(0)),
            Ex::Call(f, args) => format!("{f}({})", list(args)),
            Ex::Meth(r, m, args) => format!("{}.{m}({})", r.show(40), list(args)),
            Ex::Not(e) | Ex::Neg(e) => {
                let w = if matches!(self, Ex::Not(_)) { "not" } else { "minus" };
                let t = format!("{w} {}", e.show(30));
                if ctx > 30 { format!("({t})") } else { t }
            }
            Ex::Bin(op, l, r) => {
                let t = format!("{} {} {}", l.show(op.bp()), op.word(), r.show(op.bp() + 1));
                if op.bp() < ctx { format!("({t})") } else { t }
            }
            Ex::Par(e) => format!("({})", e.show(0)),
        }
    }
    fn text(&self) -> String {
        self.show(0)
    }
    fn strip(&self) -> &Ex {
        match self {
            Ex::Par(e) => e.strip(),
            e => e,
        }
    }
    /// Root variable of a `v`, `v[i]`, `v[i][j]` chain.
    fn root(&self) -> Option<&str> {
        match self {
            Ex::Var(v) => Some(v),
            Ex::Idx(a, _) => a.root(),
            _ => None,
        }
    }
    fn walk(&self, f: &mut dyn FnMut(&Ex)) {
        f(self);
        match self {
            Ex::Arr(es) | Ex::Call(_, es) => es.iter().for_each(|e| e.walk(f)),
            Ex::Idx(a, b) | Ex::Bin(_, a, b) => {
                a.walk(f);
                b.walk(f);
            }
            Ex::Meth(r, _, es) => {
                r.walk(f);
                es.iter().for_each(|e| e.walk(f));
            }
            Ex::Not(e) | Ex::Neg(e) | Ex::Par(e) => e.walk(f),
            _ => {}
        }
    }
    /// Names of the variables read (including interpolated ones).
    fn reads(&self) -> Vec<String> {
        let mut out = Vec::new();
        self.walk(&mut |e| match e {
            Ex::Var(v) => out.push(v.clone()),
            Ex::Str(_, vs) => out.extend(vs.iter().cloned()),
            _ => {}
        });
        out
    }
}

fn list(es: &[Ex]) -> String {
    es.iter().map(|e| e.show(0)).collect::<Vec<_>>().join(", ")
}


// ------------------------------------------------------------------------------------------------
// Environment
// ------------------------------------------------------------------------------------------------

const CAP_S: usize = 100; // bound of a string stored in a variable / passed / returned
const ASSUME_S: usize = 60; // what a function body assumes about a captured string it appends to
const HARD_S: usize = 220; // bound of any temporary string
const ECAP: usize = 24; // bound of a string stored in an array
const CAP_A: usize = 30; // elements of an array
const ASSUME_A: usize = 16;
const MAX_OUT: usize = 150;
const MAX_WORK: usize = 5000;

#[derive(Clone, Debug)]
struct Var {
    name: String,
    vid: usize,
    /// what is known now (arrays: guaranteed minimal lengths at this program point)
    ty: Ty,
    /// what holds during the whole life of the variable (captured uses rely on it only)
    floor: Ty,
    /// possible static types in the resolver
    st: u16,
    /// upper bound: bytes of a string, elements of an array
    hi: usize,
    /// loop counter while its loop is being generated: never assigned
    locked: bool,
    /// known whole number in `lo..=hi` (loop counters inside their body)
    whole: Option<(usize, usize)>,
    param: bool,
}

#[derive(Clone, Debug, Default)]
struct Scope {
    vars: Vec<Var>,
    funcs: Vec<usize>,
    /// forward-planned functions still to be defined in this block
    pending: Vec<usize>,
    /// names that must not be newly declared here while `pending` is not empty (R7)
    forbid: Vec<String>,
    /// names that must never be newly declared in this block (the counter of the loop whose body it is)
    reserved: Vec<String>,
    /// function names called since the block began: a later definition of such a name in this
    /// block would capture those calls (functions are hoisted)
    called: Vec<String>,
    /// the functions pending in this block are kept back until the block has ended with an
    /// unconditional `return` / `comot` / `next`: their definition statements are dead code, the
    /// calls made before the jump reach them through hoisting only
    hold: bool,
}

#[derive(Clone, Debug, Default)]
struct Func {
    name: String,
    params: Vec<(String, Ty)>,
    /// `Ty::Null`: no value returned
    ret: Ty2,
    /// captured number/boolean variables a call may assign (vid)
    wnum: Vec<usize>,
    /// captured string/array variables a call may modify: (vid, name, growth per call)
    wheap: Vec<(usize, String, usize)>,
    outs: usize,
    work: usize,
    /// index of the parameter that bounds the recursion (callers pass a small literal)
    rec_param: Option<usize>,
    /// may be called (planned or completely generated)
    callable: bool,
    defined: bool,
    /// forward-planned: number of variables of its block that existed when it was planned (R7)
    snap: Option<usize>,
    /// forward-planned: number of functions that existed when it was planned
    limit: usize,
    /// `(c) -> if c then A else B`: selector function with two result types
    mixed: Option<(Ty, Ty)>,
    /// declared in the env scope with this index
    home: usize,
    /// a helper this (forward-planned, held-back) function calls first thing in its body
    must_call: Option<usize>,
}

/// `Ty` with a `Default`.
#[derive(Clone, Debug)]
struct Ty2(Ty);
impl Default for Ty2 {
    fn default() -> Self {
        Ty2(Ty::Null)
    }
}

/// Effects of the function body being generated (or, with `plan`, the limits it must respect).
#[derive(Clone, Debug, Default)]
struct Fx {
    wnum: Vec<usize>,
    wheap: Vec<(usize, String, usize)>,
    outs: usize,
    work: usize,
    nvars: usize,
    planned: bool,
    max_outs: usize,
}

#[derive(Clone, Debug)]
struct Cx {
    /// env index of the parameter scope of the current function
    fnbase: Option<usize>,
    fn_idx: Option<usize>,
    loops_fn: usize,
    loops_all: usize,
    mult: usize,
    ret: Ty,
    depth: usize,
    fdepth: usize,
    /// no `next` in this loop body (the counter is incremented at the end)
    no_next: bool,
    /// inside the arguments of a heap-impure call: no user calls, none of these names (R1)
    no_calls: bool,
    avoid: Vec<String>,
    /// only functions with a smaller index may be called (bodies of forward-planned functions, R7)
    fn_limit: usize,
    /// env index of the body scope of the innermost loop
    loop_base: usize,
}

struct Gen<'r> {
    rng: &'r mut Rng,
    opts: GenOpts,
    out: String,
    env: Vec<Scope>,
    funcs: Vec<Func>,
    fx: Vec<Fx>,
    cx: Cx,
    next_vid: usize,
    stmts: usize,
    est_out: usize,
    est_work: usize,
    top_vars: usize,
    /// the deliberate runtime error has been emitted
    error_done: bool,
    /// avoid the repaired defect shapes too (see `STRICT`)
    strict: bool,
    /// current indentation level of the emitted text
    indent: usize,
}

const NUM_NAMES: [&str; 6] = ["n", "m", "k", "cnt", "i", "j"];
const COUNTERS: [&str; 4] = ["i", "j", "k", "cnt"];
const STR_NAMES: [&str; 3] = ["s", "t", "msg"]; // any characters
const SAFE_NAMES: [&str; 3] = ["u", "w", "txt"]; // case-mappable characters only
const BOOL_NAMES: [&str; 3] = ["b", "ok", "flag"];
const NULL_NAMES: [&str; 2] = ["z", "nil"];
const CMD_NAMES: [&str; 2] = ["c", "cmd"];
const ARR_NAMES: [&str; 12] = ["a", "xs", "ys", "arr", "lst", "mat", "bs", "grid", "mix", "tab", "names", "tags"];
const FN_NAMES: [&str; 16] = [
    "f", "g", "h", "calc", "fmt", "mk", "show", "pick", "helper", "step", "wrap", "tally", "twist", "emit", "visit",
    "probe",
];

/// The kind of value a name always holds (names are per type, so shadowing never changes the kind).
fn ty_of_name(name: &str) -> Ty {
    match name {
        "s" | "t" | "msg" => Ty::Str(false),
        "u" | "w" | "txt" => Ty::Str(true),
        "b" | "ok" | "flag" => Ty::Bool,
        "z" | "nil" => Ty::Null,
        "c" | "cmd" => Ty::Cmd,
        "a" | "xs" => arr(Ty::Num, 0),
        "ys" | "names" => arr(Ty::Str(false), 0),
        "lst" | "tags" => arr(Ty::Str(true), 0),
        "arr" => arr(Ty::Num, 0),
        "mat" | "tab" => arr(arr(Ty::Num, 0), 0),
        "bs" => arr(Ty::Bool, 0),
        "grid" => arr(arr(Ty::Str(false), 0), 0),
        "mix" => arr(Ty::Any, 0),
        _ => Ty::Num,
    }
}

fn names_for(t: &Ty) -> Vec<&'static str> {
    match t {
        Ty::Num => NUM_NAMES.to_vec(),
        Ty::Str(false) => STR_NAMES.to_vec(),
        Ty::Str(true) => SAFE_NAMES.to_vec(),
        Ty::Bool => BOOL_NAMES.to_vec(),
        Ty::Null => NULL_NAMES.to_vec(),
        Ty::Cmd => CMD_NAMES.to_vec(),
        Ty::Any | Ty::Bot => vec![],
        Ty::Arr(..) => ARR_NAMES.iter().copied().filter(|n| slack(&ty_of_name(n)) == slack(t)).collect(),
    }
}

impl<'r> Gen<'r> {
    fn new(rng: &'r mut Rng, opts: &GenOpts) -> Self {
        Gen {
            rng,
            opts: opts.clone(),
            out: String::new(),
            env: vec![Scope::default()],
            funcs: Vec::new(),
            fx: Vec::new(),
            cx: Cx {
                fnbase: None,
                fn_idx: None,
                loops_fn: 0,
                loops_all: 0,
                mult: 1,
                ret: Ty::Null,
                depth: 0,
                fdepth: 0,
                no_next: false,
                no_calls: false,
                avoid: Vec::new(),
                fn_limit: usize::MAX,
                loop_base: 0,
            },
            next_vid: 0,
            stmts: 0,
            est_out: 0,
            est_work: 0,
            top_vars: 0,
            error_done: false,
            strict: STRICT.load(Ordering::Relaxed),
            indent: 0,
        }
    }

    // ---------- small random helpers ----------
    fn ch(&mut self, num: u64, den: u64) -> bool {
        self.rng.chance(num, den)
    }
    fn below(&mut self, n: usize) -> usize {
        self.rng.below(n.max(1) as u64) as usize
    }
    fn pick<T: Clone>(&mut self, xs: &[T]) -> T {
        xs[self.below(xs.len())].clone()
    }

    // ---------- lookups ----------
    /// Innermost visible variable of that name: (scope index, index in scope).
    fn find(&self, name: &str) -> Option<(usize, usize)> {
        for (si, sc) in self.env.iter().enumerate().rev() {
            if let Some(vi) = sc.vars.iter().rposition(|v| v.name == name) {
                return Some((si, vi));
            }
        }
        None
    }
    fn var(&self, name: &str) -> Option<&Var> {
        self.find(name).map(|(s, v)| &self.env[s].vars[v])
    }
    fn var_mut(&mut self, name: &str) -> Option<&mut Var> {
        self.find(name).map(|(s, v)| &mut self.env[s].vars[v])
    }
    fn by_vid(&mut self, vid: usize) -> Option<&mut Var> {
        self.env.iter_mut().flat_map(|s| s.vars.iter_mut()).find(|v| v.vid == vid)
    }
    /// Is the variable owned by an enclosing function (or the top level) rather than the current one?
    fn captured(&self, name: &str) -> bool {
        match (self.find(name), self.cx.fnbase) {
            (Some((si, _)), Some(base)) => si < base,
            _ => false,
        }
    }
    /// Innermost visible function of that name.
    fn func(&self, name: &str) -> Option<usize> {
        for sc in self.env.iter().rev() {
            if let Some(&fi) = sc.funcs.iter().find(|&&fi| self.funcs[fi].name == name) {
                return Some(fi);
            }
        }
        None
    }
    /// Visible variables (innermost binding per name) whose run-time type fits `want`.
    fn vars_of(&self, want: &Ty) -> Vec<String> {
        let mut seen: Vec<&str> = Vec::new();
        let mut out = Vec::new();
        for sc in self.env.iter().rev() {
            for v in sc.vars.iter().rev() {
                if seen.contains(&v.name.as_str()) {
                    continue;
                }
                seen.push(&v.name);
                if fits(&self.eff_ty(v), want) && !self.cx.avoid.contains(&v.name) {
                    out.push(v.name.clone());
                }
            }
        }
        out
    }
    /// The type to rely on when reading `v` here: captured variables only guarantee their floor.
    fn eff_ty(&self, v: &Var) -> Ty {
        if self.captured(&v.name) { v.floor.clone() } else { v.ty.clone() }
    }
    fn ty_of(&self, name: &str) -> Ty {
        self.var(name).map_or(Ty::Any, |v| self.eff_ty(v))
    }

    // ---------- the abstract resolver ----------
    /// Possible static types of `e`; `ok` is cleared when some possibility would be rejected.
    /// With `pess` (return-type inference happens in another scope, D-09b) a variable may also be
    /// invisible or dynamic.
    fn inf(&self, e: &Ex, pess: bool, ok: &mut bool) -> u16 {
        let each = |s: u16| ALL_BITS.into_iter().filter(move |b| s & b != 0);
        match e {
            Ex::Num(_) => N,
            Ex::Bool(_) => B,
            Ex::Null => U,
            Ex::Str(_, vs) => {
                if vs.iter().any(|v| self.var(v).is_none()) {
                    *ok = false;
                }
                S
            }
            Ex::Var(v) => match self.var(v) {
                Some(x) => x.st | if pess { D | X } else { 0 },
                None => {
                    *ok = false;
                    X
                }
            },
            Ex::Par(e) => self.inf(e, pess, ok),
            Ex::Arr(es) => {
                for e in es {
                    self.inf(e, pess, ok);
                }
                A
            }
            Ex::Idx(a, i) => {
                if self.inf(a, pess, ok) & !(A | D) != 0 || self.inf(i, pess, ok) & !(N | D) != 0 {
                    *ok = false;
                }
                D
            }
            Ex::Not(e) => {
                let s = self.inf(e, pess, ok);
                if s & !(B | U | D) != 0 {
                    *ok = false;
                }
                (if s & (B | U) != 0 { B } else { 0 }) | (if s & !(B | U) != 0 { X } else { 0 })
            }
            Ex::Neg(e) => {
                let s = self.inf(e, pess, ok);
                if s & !(N | D) != 0 {
                    *ok = false;
                }
                (if s & N != 0 { N } else { 0 }) | (if s & !N != 0 { X } else { 0 })
            }
            Ex::Bin(op, l, r) => {
                let (sl, sr) = (self.inf(l, pess, ok), self.inf(r, pess, ok));
                let mut res = 0;
                for a in each(sl) {
                    for b in each(sr) {
                        let (good, t) = bin_rule(*op, a, b);
                        if !good {
                            *ok = false;
                        }
                        res |= t;
                    }
                }
                res
            }
            Ex::Call(f, args) => {
                let sets: Vec<u16> = args.iter().map(|a| self.inf(a, pess, ok)).collect();
                match f.as_str() {
                    "shout" | "typeof" | "to_string" | "read_line" | "command" => {
                        if args.len() != 1 || (f == "command" && sets[0] & !(S | D | X) != 0) {
                            *ok = false;
                        }
                        match f.as_str() {
                            "shout" => U,
                            "command" => C,
                            _ => S,
                        }
                    }
                    _ => match self.func(f) {
                        Some(fi) => {
                            let f = &self.funcs[fi];
                            if f.params.len() != args.len() {
                                *ok = false;
                            }
                            if f.mixed.is_some() {
                                D
                            } else if f.ret.0 == Ty::Null {
                                U
                            } else {
                                st_of(&f.ret.0) | D
                            }
                        }
                        None => {
                            *ok = false;
                            X
                        }
                    },
                }
            }
            Ex::Meth(r, m, args) => {
                let sets: Vec<u16> = args.iter().map(|a| self.inf(a, pess, ok)).collect();
                let sr = self.inf(r, pess, ok);
                let mut res = 0;
                for t in each(sr) {
                    match t {
                        X => res |= X,
                        D => res |= D,
                        B | U => {
                            *ok = false;
                            res |= D;
                        }
                        _ => match meth_sig(t, m) {
                            None => {
                                *ok = false;
                                res |= D;
                            }
                            Some((ar, ret)) => {
                                if ar != args.len() {
                                    *ok = false;
                                } else if (matches!((t, m.as_str()), (A, "join") | (C, "cwd" | "env"))
                                    && sets[0] & !(S | D | X) != 0)
                                    || ((t, m.as_str()) == (C, "timeout_ms") && sets[0] & !(N | D | X) != 0)
                                {
                                    *ok = false;
                                }
                                if t == C && m != "run" && r.strip().root().is_none() {
                                    *ok = false;
                                }
                                res |= ret;
                            }
                        },
                    }
                }
                res
            }
        }
    }

    /// Static types of an accepted expression, `None` if the resolver could reject it.
    fn sty(&self, e: &Ex) -> Option<u16> {
        let mut ok = true;
        let s = self.inf(e, false, &mut ok);
        ok.then_some(s)
    }
    /// Accepted, and usable as an operand (its static type is never `None`).
    fn usable(&self, e: &Ex) -> bool {
        self.sty(e).is_some_and(|s| s & X == 0)
    }
    /// Static type a variable gets from this initialiser.
    fn st_for_var(&self, e: &Ex) -> u16 {
        let s = self.sty(e).unwrap_or(D);
        if s & X != 0 { (s & !X) | D } else { s }
    }
}

/// (accepted, inferred) of `a op b` for single static types, as in `check_expr` / `infer_expr_type`.
fn bin_rule(op: Op, a: u16, b: u16) -> (bool, u16) {
    let none = a == X || b == X;
    match op {
        Op::Add => {
            let good = a & (S | D) != 0 || b & (S | D) != 0 || (a == N && b == N);
            let t = if none {
                X
            } else if a == S || b == S {
                S
            } else if a == N && b == N {
                N
            } else if a == D || b == D {
                if a == N || b == N { N } else { S }
            } else {
                X
            };
            (good, t)
        }
        Op::Minus | Op::Times | Op::Divide | Op::Mod => {
            let good = a & (N | D) != 0 && b & (N | D) != 0;
            (good, if none || !good { X } else { N })
        }
        Op::Na | Op::Pass | Op::SmallPass => {
            let good = (a == b && a & (N | S | B) != 0) || a & (U | D) != 0 || b & (U | D) != 0;
            (good, if none || !good { X } else { B })
        }
        Op::And | Op::Or => {
            let good = (a == B && b == B) || a & (U | D) != 0 || b & (U | D) != 0;
            (good, if none || !good { X } else { B })
        }
    }
}

// ------------------------------------------------------------------------------------------------
// Run-time type and size estimates of generated expressions
// ------------------------------------------------------------------------------------------------

/// Upper bound of the display length of a value of type `t` holding at most `count` elements / bytes.
fn disp(t: &Ty, count: usize) -> usize {
    match t {
        Ty::Num => 24,
        Ty::Bool => 5,
        Ty::Null => 4,
        Ty::Str(_) => count,
        Ty::Cmd | Ty::Any | Ty::Bot => 40,
        Ty::Arr(e, _) => {
            let inner = match **e {
                Ty::Str(_) => ECAP + 2,
                _ => disp(e, 6),
            };
            2 + count * (inner + 2)
        }
    }
}

/// Same kind of value (ignoring lengths and the case-safety flag).
fn kind_eq(a: &Ty, b: &Ty) -> bool {
    match (a, b) {
        (Ty::Bot, _) | (_, Ty::Bot) | (Ty::Str(_), Ty::Str(_)) => true,
        (Ty::Arr(x, _), Ty::Arr(y, _)) => kind_eq(x, y),
        _ => a == b,
    }
}

/// Content of a plain string literal (no escapes, no braces).
fn lit_content(e: &Ex) -> Option<&str> {
    match e {
        Ex::Str(src, vs) if vs.is_empty() && !src.contains(['\\', '{', '}']) => Some(&src[1..src.len() - 1]),
        _ => None,
    }
}

impl Gen<'_> {
    /// Run-time type of a generated expression (the generator only builds well-typed trees).
    fn rt(&self, e: &Ex) -> Ty {
        match e {
            Ex::Num(_) | Ex::Neg(_) => Ty::Num,
            Ex::Str(..) => Ty::Str(false),
            Ex::Bool(_) | Ex::Not(_) => Ty::Bool,
            Ex::Null => Ty::Null,
            Ex::Var(v) => self.ty_of(v),
            Ex::Par(e) => self.rt(e),
            Ex::Arr(es) => {
                let mut el = Ty::Bot;
                for e in es {
                    let t = self.rt(e);
                    el = if el == Ty::Bot || slack(&meet(&el, &t)) == slack(&meet(&t, &el)) && kind_eq(&el, &t) {
                        meet(&el, &t)
                    } else {
                        Ty::Any
                    };
                }
                arr(el, es.len())
            }
            Ex::Idx(a, _) => match self.rt(a) {
                Ty::Arr(e, _) => *e,
                _ => Ty::Any,
            },
            Ex::Bin(op, l, r) => match op {
                Op::Add => {
                    if matches!(self.rt(l), Ty::Str(_)) || matches!(self.rt(r), Ty::Str(_)) {
                        Ty::Str(false)
                    } else {
                        Ty::Num
                    }
                }
                Op::Minus | Op::Times | Op::Divide | Op::Mod => Ty::Num,
                _ => Ty::Bool,
            },
            Ex::Call(f, args) => match f.as_str() {
                "shout" => Ty::Null,
                "typeof" | "to_string" | "read_line" => Ty::Str(false),
                "command" => Ty::Cmd,
                _ => match self.func(f) {
                    Some(fi) => match (&self.funcs[fi].mixed, args.first()) {
                        (Some((a, _)), Some(Ex::Bool(true))) => a.clone(),
                        (Some((_, b)), _) => b.clone(),
                        _ => self.funcs[fi].ret.0.clone(),
                    },
                    None => Ty::Any,
                },
            },
            Ex::Meth(r, m, args) => match m.as_str() {
                "len" | "find" | "to_number" | "abs" | "sqrt" | "floor" | "ceil" | "round" => Ty::Num,
                "slice" | "to_uppercase" | "to_lowercase" | "replace" | "trim" | "join" => Ty::Str(false),
                "split" => {
                    let n = match (lit_content(r), args.first().and_then(lit_content)) {
                        (Some(text), Some(sep)) if !sep.is_empty() => text.split(sep).count(),
                        _ => 1,
                    };
                    arr(Ty::Str(false), n)
                }
                "pop" => match self.rt(r) {
                    Ty::Arr(e, _) => *e,
                    _ => Ty::Any,
                },
                _ => Ty::Null,
            },
        }
    }

    /// Upper bound of the display length (strings: byte length) of the value of `e`.
    fn bound(&self, e: &Ex) -> usize {
        let t = self.rt(e);
        match e {
            Ex::Num(s) => s.len(),
            Ex::Par(e) => self.bound(e),
            Ex::Str(src, vs) => src.len() + vs.iter().map(|v| self.bound(&var(v))).sum::<usize>(),
            Ex::Var(v) => match self.var(v) {
                Some(x) => disp(&t, x.hi),
                None => 40,
            },
            Ex::Arr(es) => 2 + es.iter().map(|e| self.bound(e) + 4).sum::<usize>(),
            _ if !matches!(t, Ty::Str(_) | Ty::Arr(..) | Ty::Any) => disp(&t, 0),
            Ex::Bin(_, l, r) => self.bound(l) + self.bound(r),
            Ex::Idx(..) => disp(&t, ECAP.max(6)),
            Ex::Call(f, args) => match f.as_str() {
                "to_string" => self.bound(&args[0]),
                "typeof" => 15,
                "read_line" => 0,
                _ => disp(&t, if matches!(t, Ty::Str(_)) { CAP_S } else { 12 }),
            },
            Ex::Meth(r, m, args) => {
                let br = self.bound(r);
                match m.as_str() {
                    "to_uppercase" | "to_lowercase" => 2 * br,
                    "replace" => (br + 1) * (self.bound(&args[1]) + 1),
                    "join" => br + self.elems(r) * self.bound(&args[0]),
                    "split" => br + 4 * (br + 1),
                    _ => br,
                }
            }
            _ => 40,
        }
    }
    /// Upper bound of the number of elements of an array expression.
    fn elems(&self, e: &Ex) -> usize {
        match e.strip() {
            Ex::Var(v) => self.var(v).map_or(CAP_A, |x| x.hi),
            Ex::Arr(es) => es.len(),
            Ex::Idx(..) => 6,
            _ => 12,
        }
    }
}

// ------------------------------------------------------------------------------------------------
// Literals
// ------------------------------------------------------------------------------------------------

const NUM_LITS: [&str; 22] = [
    "0", "1", "2", "3", "4", "5", "7", "10", "12", "42", "100", "255", "0.5", "0.25", "1.75", "0.1", "0.3", "3.14159",
    "99.99", "0.000001", "1000000", "123456789012345678901234567890",
];
const ASCII_BITS: [&str; 16] = [
    "abc", "hello", "x", "Naija", "foo bar", "a,b,c", "12", " pad ", "How far", "wetin", "ok!", "a-b", "A1", "Zz", ";",
    "no wahala",
];
const SAFE_MB: [&str; 14] = ["é", "ñ", "ü", "ß", "α", "σ", "я", "É", "Σ", "ς", "Я", "Ñ", "Ü", "Α"];
const OTHER_MB: [&str; 8] = ["世", "🌎", "界", "→", "€", "\u{a0}", "\u{3000}", "日本"];
const BRACE_BITS: [&str; 6] = ["{{", "}}", "{{}}", "{}", "{1}", "} "];
const TO_NUMBER_LITS: [&str; 14] =
    ["12", " 12", "3.5", "abc", "", "1e3", "-4", "+2", ".5", "5.", "inf", "NaN", "1_0", "007"];
const TRIM_LITS: [&str; 8] =
    ["  hi  ", " x", "y ", "\u{a0}nbsp\u{a0}", "\u{3000}wide\u{3000}", "   ", "in side", " \u{a0} mix \u{3000} "];

impl Gen<'_> {
    fn num_lit(&mut self) -> Ex {
        if self.ch(1, 2) {
            num(self.below(10))
        } else {
            let s = self.pick(&NUM_LITS);
            num(s)
        }
    }

    /// A string literal. `safe`: only case-mappable characters; `short`: at most 12 bytes and no
    /// interpolation; `interp`: may interpolate visible variables.
    fn str_lit(&mut self, safe: bool, short: bool, interp: bool) -> Ex {
        let dq = self.ch(3, 4);
        let q = if dq { '"' } else { '\'' };
        let escaped = !short && self.ch(1, 8);
        let mut body = String::new();
        let mut vars: Vec<String> = Vec::new();
        let mut has_esc = false;
        let pieces = if short { self.below(2) + 1 } else { self.below(4) };
        let cap = if short { 12 } else { 36 };
        for _ in 0..pieces {
            let piece: String = match self.below(12) {
                0..=4 => self.pick(&ASCII_BITS).to_string(),
                5 | 6 => self.pick(&SAFE_MB).to_string(),
                7 if !safe => self.pick(&OTHER_MB).to_string(),
                8 if !short => self.pick(&BRACE_BITS).to_string(),
                9 if escaped => {
                    has_esc = true;
                    let e = self.pick(&["\\\\", "\\n", "\\t", "\\q"]);
                    if e == "\\q" { format!("\\{q}") } else { e.to_string() }
                }
                9 => (if dq { "it's" } else { "say \"hi\"" }).to_string(),
                10 | 11 if interp && !short => {
                    // an interpolation (or, in an escaped string, text that only looks like one)
                    let cands: Vec<String> = self
                        .vars_of(&Ty::Any)
                        .into_iter()
                        .filter(|v| {
                            let t = self.ty_of(v);
                            self.bound(&var(v)) <= 60
                                && t != Ty::Cmd
                                && (!safe || matches!(t, Ty::Num | Ty::Bool | Ty::Null | Ty::Str(true)))
                        })
                        .collect();
                    if cands.is_empty() {
                        "-".to_string()
                    } else {
                        // now and then the variable this literal already interpolates: one string, the same
                        // placeholder twice (bindings are recorded per segment)
                        let again = vars.last().filter(|v| cands.contains(*v)).cloned();
                        let v = match again {
                            Some(v) if self.ch(1, 3) => v,
                            _ => self.pick(&cands),
                        };
                        if !escaped {
                            vars.push(v.clone());
                        }
                        if self.ch(1, 4) { format!("{{ {v} }}") } else { format!("{{{v}}}") }
                    }
                }
                _ => self.pick(&["a", "b", "-", " ", "q"]).to_string(),
            };
            if body.len() + piece.len() <= cap {
                body.push_str(&piece);
            }
        }
        if escaped && !has_esc {
            body.push_str("\\t"); // an escape anywhere switches interpolation off
        }
        if !short && self.ch(1, 14) {
            body.push_str(self.pick(&[" {", "{ 1", "{"])); // unclosed brace: only at the very end
        }
        Ex::Str(format!("{q}{body}{q}"), vars)
    }

    fn literal(&mut self, t: &Ty, d: usize) -> Ex {
        match t {
            Ty::Num => self.num_lit(),
            Ty::Str(safe) => self.str_lit(*safe, false, d > 0),
            Ty::Bool => Ex::Bool(self.ch(1, 2)),
            Ty::Null => Ex::Null,
            Ty::Cmd => call("command", vec![lit("echo")]),
            Ty::Any | Ty::Bot => {
                let t = self.any_ty();
                self.literal(&t, d)
            }
            Ty::Arr(e, n) => {
                let k = if *n == 0 && self.ch(1, 6) { 0 } else { n + self.below(3) + usize::from(*n == 0) };
                let mut es = Vec::new();
                for _ in 0..k {
                    es.push(self.elem(e, d.saturating_sub(1)));
                }
                Ex::Arr(es)
            }
        }
    }
    /// An array element / pushed value: strings stay short.
    fn elem(&mut self, e: &Ty, d: usize) -> Ex {
        let x = self.expr(e, d);
        if self.bound(&x) > ECAP && matches!(self.rt(&x), Ty::Str(_) | Ty::Any) {
            match e {
                Ty::Str(s) => self.str_lit(*s, true, false),
                _ => self.num_lit(),
            }
        } else {
            x
        }
    }
    fn any_ty(&mut self) -> Ty {
        match self.below(7) {
            0 | 1 => Ty::Num,
            2 => Ty::Str(false),
            3 => Ty::Bool,
            4 => Ty::Null,
            5 => arr(Ty::Num, 0),
            _ => arr(Ty::Str(false), 0),
        }
    }
    /// Random type for a new variable / parameter / result.
    fn some_ty(&mut self) -> Ty {
        let w: [u64; 6] = match self.opts.bias {
            Bias::Arrays => [3, 2, 1, 0, 8, 0],
            Bias::Strings => [2, 9, 1, 1, 2, 0],
            Bias::Numbers => [9, 1, 2, 0, 2, 0],
            Bias::Control => [6, 2, 4, 1, 2, 0],
            _ => [5, 4, 2, 1, 4, 0],
        };
        let mut r = self.rng.below(w.iter().sum());
        let mut k = 0;
        while r >= w[k] {
            r -= w[k];
            k += 1;
        }
        match k {
            0 => Ty::Num,
            1 => Ty::Str(self.ch(1, 2)),
            2 => Ty::Bool,
            3 => Ty::Null,
            _ => {
                let n = self.pick(&ARR_NAMES);
                match ty_of_name(n) {
                    Ty::Arr(e, _) => {
                        let inner = match *e {
                            Ty::Arr(ee, _) => arr(*ee, self.below(3)),
                            t => t,
                        };
                        arr(inner, self.below(4))
                    }
                    t => t,
                }
            }
        }
    }
}

// ------------------------------------------------------------------------------------------------
// Expressions by requested run-time type
// ------------------------------------------------------------------------------------------------

impl Gen<'_> {
    /// A literal or a variable of the type.
    fn atom(&mut self, t: &Ty) -> Ex {
        let vs = self.vars_of(t);
        if !vs.is_empty() && *t != Ty::Any && self.ch(3, 5) {
            return var(&self.pick(&vs));
        }
        match t {
            Ty::Arr(e, n) => {
                let k = n + self.below(2);
                let mut es = Vec::new();
                for _ in 0..k {
                    es.push(self.elem(e, 0));
                }
                Ex::Arr(es)
            }
            _ => self.literal(t, 0),
        }
    }

    fn expr(&mut self, t: &Ty, d: usize) -> Ex {
        match t {
            Ty::Num => self.num_expr(d),
            Ty::Str(safe) => self.str_expr(*safe, d),
            Ty::Bool => self.bool_expr(d),
            Ty::Null => {
                let vs = self.vars_of(&Ty::Null);
                if !vs.is_empty() && self.ch(1, 2) { var(&self.pick(&vs)) } else { Ex::Null }
            }
            Ty::Arr(..) => self.arr_expr(t, d),
            Ty::Cmd => self.atom(t),
            Ty::Any | Ty::Bot => {
                let t = self.any_ty();
                self.expr(&t, d)
            }
        }
    }

    /// Needle of `find` / `replace`: at most 12 bytes when strict (R10, D-13), else sometimes longer.
    fn needle(&mut self, safe: bool) -> Ex {
        if !self.strict && self.ch(1, 5) {
            let vs = self.vars_of(&Ty::Str(safe));
            if !vs.is_empty() && self.ch(1, 2) {
                return var(&self.pick(&vs)); // any length, often longer than the haystack
            }
            return self.str_lit(safe, false, false);
        }
        self.str_lit(safe, true, false)
    }

    /// Wrap in redundant parentheses now and then.
    fn maybe_par(&mut self, e: Ex) -> Ex {
        if self.ch(1, 6) { par(e) } else { e }
    }
    fn checked(&mut self, e: Ex, t: &Ty) -> Ex {
        if self.usable(&e) && self.bound(&e) <= HARD_S { e } else { self.atom(t) }
    }

    /// A number that is certainly not zero (divisors).
    fn nonzero(&mut self) -> Ex {
        match self.below(5) {
            0 => Ex::Neg(Box::new(num(self.below(5) + 1))),
            1 => par(bin(Op::Minus, num(0), num(self.below(7) + 1))),
            2 => num(self.pick(&["0.5", "0.25", "3", "7", "0.1"])),
            _ => num(self.below(9) + 1),
        }
    }

    /// In-bounds index expression for an array known to hold at least `len` (> 0) elements.
    fn index_for(&mut self, len: usize) -> Ex {
        let counters: Vec<(String, usize, usize)> = self
            .vars_of(&Ty::Num)
            .into_iter()
            .filter_map(|n| self.var(&n).and_then(|v| v.whole.map(|(lo, hi)| (n.clone(), lo, hi))))
            .collect();
        if !counters.is_empty() && self.ch(1, 2) {
            let (n, lo, hi) = self.pick(&counters);
            return if hi < len {
                var(&n)
            } else if lo >= 1 && hi - 1 < len && self.ch(1, 2) {
                bin(Op::Minus, var(&n), num(1))
            } else {
                bin(Op::Mod, var(&n), num(len))
            };
        }
        num(self.below(len))
    }

    /// `v[i]`, `v[i][j]`: an element read of a visible array variable whose elements fit `want`.
    fn elem_read(&mut self, want: &Ty) -> Option<Ex> {
        let mut cands: Vec<Ex> = Vec::new();
        for v in self.vars_of(&arr(Ty::Any, 1)) {
            if let Ty::Arr(e, n) = self.ty_of(&v) {
                if fits(&e, want) {
                    let i = self.index_for(n);
                    cands.push(idx(var(&v), i));
                } else if let Ty::Arr(ee, nn) = &*e
                    && *nn > 0
                    && fits(ee, want)
                {
                    let (i, j) = (self.index_for(n), self.index_for(*nn));
                    cands.push(idx(idx(var(&v), i), j));
                }
            }
        }
        if cands.is_empty() { None } else { Some(self.pick(&cands)) }
    }

    /// A call (inside an expression) of a visible function whose result fits `want`.
    fn call_expr(&mut self, want: &Ty, d: usize) -> Option<Ex> {
        if self.cx.no_calls {
            return None;
        }
        let mut cands = Vec::new();
        for fi in self.visible_funcs() {
            let f = &self.funcs[fi];
            let fit = match &f.mixed {
                Some((a, b)) => fits(a, want) || fits(b, want),
                None => f.ret.0 != Ty::Null && fits(&f.ret.0, want),
            };
            // R1: heap-impure calls stay out of expressions when strict
            if fit && (f.wheap.is_empty() || !self.strict) && self.can_call(fi) {
                cands.push(fi);
            }
        }
        if cands.is_empty() {
            return None;
        }
        let fi = self.pick(&cands);
        self.call_of(fi, d, Some(want))
    }

    fn num_expr(&mut self, d: usize) -> Ex {
        if d == 0 || self.ch(1, 4) {
            return self.atom(&Ty::Num);
        }
        let e = match self.below(16) {
            0..=3 => {
                let op = self.pick(&[Op::Add, Op::Add, Op::Minus, Op::Times]);
                let (l, r) = (self.num_expr(d - 1), self.num_expr(d - 1));
                bin(op, l, r)
            }
            4 => {
                let (l, r) = (self.num_expr(d - 1), self.nonzero());
                bin(Op::Divide, l, r)
            }
            5 => {
                let l = if self.ch(1, 2) { Ex::Neg(Box::new(num(self.below(20)))) } else { self.num_expr(d - 1) };
                let r = self.nonzero();
                bin(Op::Mod, l, r)
            }
            6 => {
                let x = self.num_expr(d - 1);
                let neg = Ex::Neg(Box::new(x.clone()));
                if self.usable(&neg) { neg } else { par(bin(Op::Minus, num(0), x)) }
            }
            7 | 8 => {
                let x = self.num_expr(d - 1);
                let x = if matches!(x, Ex::Var(_)) { x } else { par(x) };
                meth(x, self.pick(&["abs", "sqrt", "floor", "ceil", "round"]), vec![])
            }
            9 => match self.below(3) {
                0 => meth(lit(self.pick(&TO_NUMBER_LITS)), "to_number", vec![]),
                1 => {
                    let s = self.str_expr(false, d - 1);
                    let n = self.needle(false);
                    meth(s, "find", vec![n])
                }
                _ => {
                    let s = self.str_expr(false, d - 1);
                    meth(s, "len", vec![])
                }
            },
            10 => {
                let vs = self.vars_of(&arr(Ty::Any, 0));
                if vs.is_empty() { self.num_lit() } else { meth(var(&self.pick(&vs)), "len", vec![]) }
            }
            11 | 12 => self.elem_read(&Ty::Num).unwrap_or_else(|| num(1)),
            13 | 14 => self.call_expr(&Ty::Num, d - 1).unwrap_or_else(|| num(2)),
            _ => par(self.num_expr(d - 1)),
        };
        let e = self.maybe_par(e);
        self.checked(e, &Ty::Num)
    }

    fn str_expr(&mut self, safe: bool, d: usize) -> Ex {
        let t = Ty::Str(safe);
        if d == 0 || self.ch(1, 4) {
            return self.atom(&t);
        }
        let e = match self.below(18) {
            0..=2 => {
                let l = self.str_expr(safe, d - 1);
                let r = if self.ch(1, 3) { self.num_expr(d - 1) } else { self.str_expr(safe, d - 1) };
                if self.ch(1, 5) { bin(Op::Add, r, l) } else { bin(Op::Add, l, r) }
            }
            3 | 4 => self.str_lit(safe, false, true),
            5 => {
                let s = self.str_expr(safe, d - 1);
                let a = if self.ch(1, 5) { Ex::Neg(Box::new(num(self.below(4)))) } else { num(self.below(4)) };
                let b = if self.ch(1, 5) { Ex::Neg(Box::new(num(1))) } else { num(self.below(9)) };
                meth(s, "slice", vec![a, b])
            }
            6 | 7 => {
                let s = self.str_expr(true, d - 1);
                meth(s, self.pick(&["to_uppercase", "to_lowercase"]), vec![])
            }
            8 => {
                let s = self.str_expr(safe, d - 1);
                let (a, b) = (self.needle(safe), self.str_lit(safe, true, false));
                meth(s, "replace", vec![a, b])
            }
            9 => {
                let s = if safe || self.ch(1, 2) { self.str_expr(safe, d - 1) } else { lit(self.pick(&TRIM_LITS)) };
                meth(s, "trim", vec![])
            }
            10 => {
                let want = if safe { arr(Ty::Num, 0) } else { arr(Ty::Any, 0) };
                let vs: Vec<String> = self
                    .vars_of(&want)
                    .into_iter()
                    .filter(|v| !matches!(self.ty_of(v), Ty::Arr(e, _) if matches!(*e, Ty::Arr(..)) && safe))
                    .collect();
                if vs.is_empty() {
                    self.str_lit(safe, false, false)
                } else {
                    let sep = self.str_lit(true, true, false);
                    meth(var(&self.pick(&vs)), "join", vec![sep])
                }
            }
            11 => {
                let t = if safe { self.pick(&[Ty::Num, Ty::Bool, Ty::Null, Ty::Str(true)]) } else { Ty::Any };
                let x = self.expr(&t, d - 1);
                call("to_string", vec![x])
            }
            12 if !safe && self.ch(1, 12) => call("read_line", vec![lit(self.pick(&["", "? ", "name: "]))]),
            12 => {
                let x = self.expr(&Ty::Any, d - 1);
                call("typeof", vec![x])
            }
            13 | 14 => self.elem_read(&t).unwrap_or_else(|| lit("e")),
            15 | 16 => self.call_expr(&t, d - 1).unwrap_or_else(|| lit("c")),
            _ => par(self.str_expr(safe, d - 1)),
        };
        let e = self.maybe_par(e);
        self.checked(e, &t)
    }

    fn bool_expr(&mut self, d: usize) -> Ex {
        if d == 0 || self.ch(1, 5) {
            return self.atom(&Ty::Bool);
        }
        let e = match self.below(16) {
            0..=3 => {
                let op = self.pick(&[Op::Na, Op::Pass, Op::SmallPass]);
                let (l, r) = (self.num_expr(d - 1), self.num_expr(d - 1));
                bin(op, l, r)
            }
            4 => bin(Op::Na, bin(Op::Add, num("0.1"), num("0.2")), num(self.pick(&["0.3", "0.30000000001"]))),
            5 | 6 => {
                let op = self.pick(&[Op::Na, Op::Na, Op::Pass, Op::SmallPass]);
                let (l, r) = (self.str_expr(false, d - 1), self.str_expr(false, d - 1));
                bin(op, l, r)
            }
            7 => {
                let op = self.pick(&[Op::Na, Op::Pass, Op::SmallPass]);
                let (l, r) = (self.bool_expr(d - 1), self.bool_expr(d - 1));
                bin(op, par(l), par(r))
            }
            8 => {
                let x = self.expr(&Ty::Any, d - 1);
                if self.ch(1, 2) { bin(Op::Na, x, Ex::Null) } else { bin(Op::Na, Ex::Null, x) }
            }
            9 => {
                let x = if self.ch(1, 6) { Ex::Null } else { self.bool_expr(d - 1) };
                let n = Ex::Not(Box::new(x.clone()));
                if self.usable(&n) { n } else { par(bin(Op::Na, x, Ex::Bool(false))) }
            }
            10..=12 => {
                let op = self.pick(&[Op::And, Op::Or]);
                let l = if self.ch(1, 8) { self.expr(&Ty::Null, 0) } else { self.bool_expr(d - 1) };
                let r = match self.call_expr(&Ty::Bool, d - 1) {
                    Some(c) if self.ch(1, 2) => c, // short circuit with side effects on the right
                    _ => self.bool_expr(d - 1),
                };
                bin(op, l, r)
            }
            13 => self.call_expr(&Ty::Bool, d - 1).unwrap_or(Ex::Bool(true)),
            14 => self.elem_read(&Ty::Bool).unwrap_or(Ex::Bool(false)),
            _ => {
                let vs = self.vars_of(&arr(Ty::Any, 0));
                if vs.is_empty() {
                    Ex::Bool(true)
                } else {
                    bin(Op::Pass, meth(var(&self.pick(&vs)), "len", vec![]), num(self.below(3)))
                }
            }
        };
        let e = self.maybe_par(e);
        self.checked(e, &Ty::Bool)
    }

    /// Condition of `if`/`jasi`-free contexts: a boolean, sometimes null-valued.
    fn cond(&mut self, d: usize) -> Ex {
        match self.below(14) {
            0 => self.expr(&Ty::Null, 0),
            1 => Ex::Not(Box::new(self.expr(&Ty::Null, 0))),
            _ => {
                let e = self.bool_expr(d);
                // `not <dynamic>` infers no type: fine at the top of a condition only
                if self.ch(1, 10) && self.sty(&Ex::Not(Box::new(e.clone()))).is_some() {
                    Ex::Not(Box::new(e))
                } else {
                    e
                }
            }
        }
    }

    fn arr_expr(&mut self, t: &Ty, d: usize) -> Ex {
        let Ty::Arr(e, n) = t else { unreachable!() };
        let e = match self.below(8) {
            0 | 1 => self.atom(t),
            2 | 3 => self.call_expr(t, d.saturating_sub(1)).unwrap_or_else(|| self.literal(t, d)),
            4 if matches!(**e, Ty::Str(false) | Ty::Any) && *n <= 3 => {
                let (text, sep) = self.pick(&[("a,b,c", ","), ("one two  three", " "), ("x--y--z", "--"), ("k=v;k2=v2;", ";")]);
                meth(lit(text), "split", vec![lit(sep)])
            }
            5 => self.elem_read(t).unwrap_or_else(|| self.literal(t, d)),
            _ => self.literal(t, d),
        };
        if self.usable(&e) && fits(&self.rt(&e), t) { e } else { self.literal(t, 0) }
    }
}

// ------------------------------------------------------------------------------------------------
// Emission, scopes, declarations, effects
// ------------------------------------------------------------------------------------------------

impl Gen<'_> {
    /// Write one statement (or statement part) in the current layout.
    fn line(&mut self, text: &str) {
        if self.out.ends_with('\n') || self.out.is_empty() {
            self.out.push_str(&"    ".repeat(self.indent));
        }
        self.out.push_str(text);
        match self.below(12) {
            0 => self.out.push_str("  "), // next statement on the same line
            1 => {
                let c = self.pick(&["# ok", "# make x get {x}", "#", "# 'quote\" end"]);
                self.out.push_str(&format!("  {c}\n"));
            }
            _ => self.out.push('\n'),
        }
    }
    /// A statement was emitted: bookkeeping of size and work.
    fn count(&mut self) {
        self.stmts += 1;
        let m = self.cx.mult;
        match self.fx.last_mut() {
            Some(fx) => fx.work += m,
            None => self.est_work += m,
        }
    }
    fn open(&mut self, head: &str) {
        if !self.out.ends_with('\n') && !self.out.is_empty() {
            self.out.push('\n');
        }
        self.out.push_str(&"    ".repeat(self.indent));
        self.out.push_str(head);
        let sep = if self.ch(1, 10) { " " } else { "\n" };
        self.out.push_str(sep);
        self.indent += 1;
    }
    fn close(&mut self) {
        self.indent -= 1;
        if !self.out.ends_with('\n') {
            self.out.push(' ');
        } else {
            self.out.push_str(&"    ".repeat(self.indent));
        }
        self.out.push_str("end\n");
    }

    fn can_out(&self, k: usize) -> bool {
        let m = self.cx.mult * k;
        match self.fx.last() {
            Some(fx) => fx.outs + m <= fx.max_outs,
            None => self.est_out + m <= MAX_OUT,
        }
    }
    fn note_out(&mut self, k: usize) {
        let m = self.cx.mult * k;
        match self.fx.last_mut() {
            Some(fx) => fx.outs += m,
            None => self.est_out += m,
        }
    }
    fn work_left(&self) -> usize {
        match self.fx.last() {
            Some(fx) => 150usize.saturating_sub(fx.work),
            None => MAX_WORK.saturating_sub(self.est_work),
        }
    }
    fn nvars(&self) -> usize {
        self.fx.last().map_or(self.top_vars, |fx| fx.nvars)
    }

    /// `shout(e)` if the output budget allows.
    fn shout(&mut self, e: Ex) -> bool {
        // printing builds no string; only a string operand has to respect the size bound
        if !self.can_out(1) || (matches!(self.rt(&e), Ty::Str(_)) && self.bound(&e) > HARD_S) {
            return false;
        }
        self.note_out(1);
        self.line(&format!("shout({})", e.text()));
        self.count();
        true
    }

    fn scope_of_vid(&self, vid: usize) -> Option<usize> {
        self.env.iter().position(|s| s.vars.iter().any(|v| v.vid == vid))
    }
    fn vid_captured(&self, vid: usize) -> bool {
        match (self.scope_of_vid(vid), self.cx.fnbase) {
            (Some(si), Some(base)) => si < base,
            _ => false,
        }
    }

    /// May the current code assign / mutate this variable?
    fn writable(&self, name: &str) -> bool {
        let Some(v) = self.var(name) else { return false };
        if v.locked || v.ty == Ty::Cmd || self.cx.avoid.contains(&v.name) {
            return false;
        }
        if self.captured(name) {
            // captured parameters stay untouched; a planned function only writes what it announced
            if v.param {
                return false;
            }
            let fx = self.fx.last().expect("captured implies function");
            if fx.planned && !fx.wnum.contains(&v.vid) && !fx.wheap.iter().any(|w| w.0 == v.vid) {
                return false;
            }
        }
        true
    }
    /// Record that the current function body writes the (captured) variable.
    fn note_write(&mut self, name: &str, growth: usize) {
        if !self.captured(name) {
            return;
        }
        let (vid, heap) = {
            let v = self.var(name).unwrap();
            (v.vid, is_heap(&v.ty))
        };
        let fx = self.fx.last_mut().unwrap();
        if heap {
            match fx.wheap.iter_mut().find(|w| w.0 == vid) {
                Some(w) => {
                    if !fx.planned {
                        w.2 += growth;
                    }
                }
                None => fx.wheap.push((vid, name.to_string(), growth)),
            }
        } else if !fx.wnum.contains(&vid) {
            fx.wnum.push(vid);
        }
    }

    /// Declare `make name get e` (a new variable, or the same one again in this block).
    fn declare(&mut self, name: &str, ty: Ty, e: &Ex) {
        let st = self.st_for_var(e);
        let hi = match ty {
            Ty::Str(_) => self.bound(e),
            Ty::Arr(..) => self.elems(e),
            _ => 0,
        };
        self.line(&format!("make {name} get {}", e.text()));
        self.count();
        let cur = self.env.len() - 1;
        if let Some(v) = self.env[cur].vars.iter_mut().find(|v| v.name == name) {
            v.ty = ty;
            v.st = st;
            v.hi = hi;
            return;
        }
        let floor = if self.ch(1, 3) { lower(&ty) } else { ty.clone() };
        let vid = self.next_vid;
        self.next_vid += 1;
        self.env[cur].vars.push(Var {
            name: name.to_string(),
            vid,
            ty,
            floor,
            st,
            hi,
            locked: false,
            whole: None,
            param: false,
        });
        match self.fx.last_mut() {
            Some(fx) => fx.nvars += 1,
            None => self.top_vars += 1,
        }
    }

    /// A name for a new declaration of type `t` in the current block; `fresh`: not yet in this block.
    fn name_for(&mut self, t: &Ty, fresh: bool) -> Option<String> {
        let cur = self.env.last().unwrap();
        let mut cands = Vec::new();
        for n in names_for(t) {
            match cur.vars.iter().find(|v| v.name == n) {
                Some(v) => {
                    if !fresh && !v.locked && fits(t, &v.floor) {
                        cands.push(n);
                    }
                }
                None => {
                    let blocked = (!cur.pending.is_empty() && cur.forbid.iter().any(|f| f == n))
                        || cur.reserved.iter().any(|f| f == n);
                    if !blocked && self.nvars() < 18 {
                        cands.push(n);
                    }
                }
            }
        }
        if cands.is_empty() { None } else { Some(self.pick(&cands).to_string()) }
    }

    fn push_scope(&mut self) {
        self.env.push(Scope::default());
    }
    /// Leave a block that may or may not have executed: keep only what holds on both paths.
    fn pop_scope_join(&mut self, before: &[Scope]) {
        self.flush_pending();
        self.env.pop();
        for (sc, old) in self.env.iter_mut().zip(before) {
            for (v, o) in sc.vars.iter_mut().zip(&old.vars) {
                v.ty = meet(&v.ty, &o.ty);
                v.hi = v.hi.max(o.hi);
                v.floor = o.floor.clone();
                v.locked = o.locked;
                v.whole = o.whole;
            }
        }
    }

    fn visible_funcs(&self) -> Vec<usize> {
        let mut seen: Vec<&str> = Vec::new();
        let mut out = Vec::new();
        for sc in self.env.iter().rev() {
            for &fi in &sc.funcs {
                let n = self.funcs[fi].name.as_str();
                if !seen.contains(&n) {
                    seen.push(n);
                    out.push(fi);
                }
            }
        }
        out
    }

    fn can_call(&self, fi: usize) -> bool {
        let f = &self.funcs[fi];
        // a body only calls finished functions (or ones planned inside it): no unbounded recursion
        let outer_plan = !f.defined && self.cx.fnbase.is_some_and(|b| f.home < b);
        if !f.callable || fi >= self.cx.fn_limit || outer_plan {
            return false;
        }
        let m = self.cx.mult;
        match self.fx.last() {
            Some(fx) => {
                if fx.outs + m * f.outs > fx.max_outs || fx.work + m * (f.work + 1) > 150 {
                    return false;
                }
                if fx.planned
                    && (f.wheap.iter().any(|w| w.2 > 0 && self.vid_captured(w.0))
                        || f.wnum.iter().any(|v| self.vid_captured(*v) && !fx.wnum.contains(v))
                        || f.wheap.iter().any(|w| self.vid_captured(w.0) && !fx.wheap.iter().any(|x| x.0 == w.0)))
                {
                    return false;
                }
            }
            None => {
                if self.est_out + m * f.outs > MAX_OUT || self.est_work + m * (f.work + 1) > MAX_WORK {
                    return false;
                }
            }
        }
        for (vid, _, g) in &f.wheap {
            let Some(v) = self.env.iter().flat_map(|s| s.vars.iter()).find(|v| v.vid == *vid) else {
                return false;
            };
            let assume = if matches!(v.ty, Ty::Str(_)) { ASSUME_S } else { ASSUME_A };
            if v.locked || v.hi + (m - 1) * g > assume {
                return false;
            }
        }
        true
    }

    /// Build `f(args)`, accounting for its effects. `want`: the type needed from a selector function.
    fn call_of(&mut self, fi: usize, d: usize, want: Option<&Ty>) -> Option<Ex> {
        if !self.can_call(fi) {
            return None;
        }
        let f = self.funcs[fi].clone();
        let saved = (self.cx.no_calls, self.cx.avoid.clone());
        if !f.wheap.is_empty() && self.strict {
            self.cx.no_calls = true; // R1: arguments of a heap-impure call stay trivial
            self.cx.avoid.extend(f.wheap.iter().map(|w| w.1.clone()));
        }
        let mut args = Vec::new();
        for (k, (_, pty)) in f.params.iter().enumerate() {
            let a = if f.rec_param == Some(k) {
                num(self.below(6))
            } else if let (Some((a, b)), 0) = (&f.mixed, k) {
                let first = match want {
                    Some(w) => fits(a, w) && (!fits(b, w) || self.ch(1, 2)),
                    None => self.ch(1, 2),
                };
                Ex::Bool(first)
            } else {
                let x = self.expr(pty, d);
                let too_big = match pty {
                    Ty::Str(_) => self.bound(&x) > CAP_S,
                    Ty::Arr(..) => self.elems(&x) > ASSUME_A,
                    _ => false,
                };
                if too_big { self.literal(pty, 0) } else { x }
            };
            args.push(a);
        }
        (self.cx.no_calls, self.cx.avoid) = saved;
        for sc in &mut self.env {
            if !sc.called.contains(&f.name) {
                sc.called.push(f.name.clone());
            }
        }
        self.apply_call(fi);
        Some(call(&f.name, args))
    }

    fn apply_call(&mut self, fi: usize) {
        let f = self.funcs[fi].clone();
        let m = self.cx.mult;
        match self.fx.last_mut() {
            Some(fx) => {
                fx.outs += m * f.outs;
                fx.work += m * f.work;
            }
            None => {
                self.est_out += m * f.outs;
                self.est_work += m * f.work;
            }
        }
        for vid in f.wnum {
            if self.vid_captured(vid) {
                let fx = self.fx.last_mut().unwrap();
                if !fx.wnum.contains(&vid) {
                    fx.wnum.push(vid);
                }
            }
        }
        for (vid, name, g) in f.wheap {
            if let Some(v) = self.by_vid(vid) {
                v.hi += m * g;
                if matches!(v.ty, Ty::Str(_)) && g == 0 {
                    v.hi = v.hi.max(ASSUME_S); // may have been replaced by something that long
                }
            }
            if self.vid_captured(vid) {
                let fx = self.fx.last_mut().unwrap();
                match fx.wheap.iter_mut().find(|w| w.0 == vid) {
                    Some(w) => {
                        if !fx.planned {
                            w.2 += m * g;
                        }
                    }
                    None => fx.wheap.push((vid, name, m * g)),
                }
            }
        }
    }
}

/// The same array type with every guaranteed length one smaller (allows a `pop`).
fn lower(t: &Ty) -> Ty {
    match t {
        Ty::Arr(e, n) => arr(lower(e), n.saturating_sub(1)),
        _ => t.clone(),
    }
}

// ------------------------------------------------------------------------------------------------
// Statements
// ------------------------------------------------------------------------------------------------

/// Change the guaranteed length at nesting `depth` of an array type.
fn with_min(t: &Ty, depth: usize, f: &dyn Fn(usize) -> usize) -> Ty {
    match t {
        Ty::Arr(e, n) if depth == 0 => arr((**e).clone(), f(*n)),
        Ty::Arr(e, n) => arr(with_min(e, depth - 1, f), *n),
        _ => t.clone(),
    }
}
fn min_at(t: &Ty, depth: usize) -> usize {
    match t {
        Ty::Arr(_, n) if depth == 0 => *n,
        Ty::Arr(e, _) => min_at(e, depth - 1),
        _ => 0,
    }
}
fn elem_at(t: &Ty, depth: usize) -> Ty {
    match t {
        Ty::Arr(e, _) if depth == 0 => (**e).clone(),
        Ty::Arr(e, _) => elem_at(e, depth - 1),
        _ => Ty::Any,
    }
}

impl Gen<'_> {
    fn left(&self) -> usize {
        self.opts.max_stmts.min(56).saturating_sub(self.stmts)
    }

    /// `k` statements of the current block, then the definitions still owed to it.
    fn block_body(&mut self, k: usize) {
        for _ in 0..k {
            if self.left() == 0 {
                break;
            }
            self.stmt();
        }
        if !self.env.last().unwrap().hold {
            self.flush_pending();
        }
    }

    /// Decide whether the block just opened ends with an unconditional jump followed by the definitions of
    /// the functions planned in it (dead definition statements, reached through hoisting only). Plans one
    /// function right away so that there usually is something to define. `num`/`den`: how often.
    fn hold_defs(&mut self, num: u64, den: u64) -> bool {
        let often = match self.opts.bias {
            Bias::Control | Bias::Scoping => self.ch(2 * num, den),
            _ => self.ch(num, den),
        };
        if !often || self.left() < 5 || self.cx.depth >= 4 || self.cx.fdepth >= 3 {
            return false;
        }
        self.env.last_mut().unwrap().hold = true;
        // half of the time with a small helper defined here, in live code, that the held-back function calls:
        // unless something else happens to call it too, it is reachable only through the hoisted function
        let helper = if self.ch(1, 2) { self.tiny_helper() } else { None };
        let planned = self.funcs.len();
        if self.plan_forward() && planned < self.funcs.len() {
            self.funcs[planned].must_call = helper;
        }
        true
    }
    /// `do leaf(n) start return n add 1 end`, tracked like any other finished function.
    fn tiny_helper(&mut self) -> Option<usize> {
        let name = self.fn_name(&["leaf", "unit", "base", "aux"])?;
        let p = self.pick(&["n", "m", "k"]).to_string();
        let fi = self.add_fn(Func {
            name: name.clone(),
            params: vec![(p.clone(), Ty::Num)],
            ret: Ty2(Ty::Num),
            work: 2,
            callable: true,
            defined: true,
            ..Func::default()
        });
        self.line(&format!("do {name}({p}) start return {p} add 1 end"));
        self.count();
        Some(fi)
    }
    /// The held-back definitions of the current block, now that it has ended with a jump.
    fn release_defs(&mut self) {
        self.env.last_mut().unwrap().hold = false;
        if self.env.last().unwrap().pending.is_empty() {
            return;
        }
        if !self.out.ends_with('\n') {
            self.out.push('\n');
        }
        self.out.push_str(&"    ".repeat(self.indent));
        self.out.push_str("# hoisted-after-jump\n");
        if self.ch(1, 4) && self.can_out(1) {
            self.line("shout(\"never\")"); // a dead statement among the dead definitions
        }
        self.flush_pending();
    }
    fn holding(&self) -> bool {
        let sc = self.env.last().unwrap();
        sc.hold && !sc.pending.is_empty()
    }

    fn stmt(&mut self) {
        if !self.env.last().unwrap().pending.is_empty() && !self.env.last().unwrap().hold && self.ch(1, 4) {
            self.define_pending();
            return;
        }
        let w: [u64; 11] = match self.opts.bias {
            // decl assign idx arrm shout if loop block fn call idiom
            Bias::Arrays => [14, 6, 16, 18, 12, 7, 7, 1, 6, 9, 7],
            Bias::Scoping => [18, 12, 3, 4, 12, 7, 6, 6, 18, 16, 10],
            Bias::Strings => [20, 16, 4, 5, 18, 7, 7, 1, 7, 10, 7],
            Bias::Control => [12, 12, 4, 5, 12, 18, 16, 3, 6, 9, 6],
            Bias::Numbers => [18, 16, 4, 4, 16, 9, 8, 1, 8, 12, 4],
            Bias::Mixed => [16, 12, 6, 8, 14, 9, 8, 2, 9, 12, 7],
        };
        let mut r = self.rng.below(w.iter().sum());
        let mut kind = 0;
        while r >= w[kind] {
            r -= w[kind];
            kind += 1;
        }
        let room = self.cx.depth < 4 && self.left() >= 3;
        let done = match kind {
            0 => self.decl(),
            1 => self.assign(),
            2 => self.index_assign(),
            3 => self.array_method(),
            4 => {
                let t = if self.ch(1, 3) { Ty::Any } else { self.some_ty() };
                let e = self.expr(&t, 3);
                self.shout(e)
            }
            5 if room => self.if_stmt(),
            6 if room => self.loop_stmt(),
            7 if room => self.block_stmt(),
            8 if room && self.cx.fdepth < 3 => self.fn_stmt(),
            9 => self.call_stmt(),
            10 if room => self.idiom(),
            _ => false,
        };
        if !done && !self.decl() {
            let e = self.num_expr(2);
            if !self.shout(e) {
                // budget exhausted: a cheap statement that prints nothing
                let e = self.num_expr(1);
                self.line(&format!("typeof({})", e.text()));
                self.count();
            }
        }
    }

    fn decl(&mut self) -> bool {
        let t = self.some_ty();
        let fresh = self.ch(2, 3);
        let Some(name) = self.name_for(&t, fresh) else { return false };
        let base = ty_of_name(&name);
        // strings take their case-safety from the name; arrays their lengths from the value
        let want = match (&t, &base) {
            (Ty::Arr(..), _) => t.clone(),
            _ => base.clone(),
        };
        let mut e = self.expr(&want, 3);
        let same = self.env.last().unwrap().vars.iter().any(|v| v.name == name);
        if matches!(e.strip(), Ex::Var(v) if *v == name) && same && is_heap(&want) && (self.strict || self.ch(1, 2)) {
            e = self.literal(&want, 0); // R4: `make s get s` on the same variable
        }
        self.decl_as(&name, &want, e)
    }
    /// `make name get e` after the last sanity checks (static type, size).
    fn decl_as(&mut self, name: &str, want: &Ty, mut e: Ex) -> bool {
        let too_big = match want {
            Ty::Str(_) => self.bound(&e) > CAP_S,
            Ty::Arr(..) => self.elems(&e) > ASSUME_A,
            _ => false,
        };
        if too_big || self.st_for_var(&e) & !(st_of(want) | D) != 0 {
            e = self.literal(want, 0);
        }
        let ty = match want {
            Ty::Arr(..) => {
                let r = self.rt(&e);
                if fits(&r, want) && kind_eq(&r, want) { meet(&r, &r) } else { want.clone() }
            }
            _ => want.clone(),
        };
        // a re-declaration keeps what captured uses rely on
        if let Some(v) = self.env.last().unwrap().vars.iter().find(|v| v.name == name)
            && !fits(&ty, &v.floor)
        {
            return false;
        }
        let ty = match (&ty, want) {
            (Ty::Arr(e, n), Ty::Arr(we, _)) if **e == Ty::Bot => arr((**we).clone(), *n),
            _ => ty,
        };
        self.declare(name, ty, &e);
        true
    }

    /// Variables the current code may assign, of a type fitting `want`.
    fn targets(&self, want: &Ty) -> Vec<String> {
        self.vars_of(want).into_iter().filter(|n| self.writable(n)).collect()
    }

    fn assign(&mut self) -> bool {
        let t = self.some_ty();
        let ts: Vec<String> = self.targets(&slack(&t)).into_iter().filter(|n| kind_eq(&slack(&self.ty_of(n)), &slack(&t))).collect();
        if ts.is_empty() {
            return false;
        }
        let name = self.pick(&ts);
        let v = self.var(&name).unwrap().clone();
        let captured = self.captured(&name);
        let (si, _) = self.find(&name).unwrap();
        let outer_in_loop = self.cx.loops_fn > 0 && si < self.cx.loop_base;
        let m = self.cx.mult;
        let want = match &v.ty {
            Ty::Arr(..) => v.floor.clone(),
            t => t.clone(),
        };
        // R2: a captured variable is read by the function that assigns it (self-referential update);
        // strings that outlive a loop iteration only grow by a bounded suffix.
        let self_ref = (captured && (self.strict || self.ch(3, 4))) || (outer_in_loop && is_heap(&v.ty)) || self.ch(1, 4);
        let e = if self_ref {
            match &v.ty {
                Ty::Num => {
                    let op = self.pick(&[Op::Add, Op::Add, Op::Minus, Op::Times]);
                    let r = if op == Op::Times { num(self.below(3) + 1) } else { self.num_expr(1) };
                    bin(op, var(&name), r)
                }
                Ty::Bool => {
                    let r = self.bool_expr(1);
                    bin(self.pick(&[Op::And, Op::Or]), var(&name), r)
                }
                Ty::Str(safe) => {
                    let r = if self.ch(1, 4) { self.num_lit() } else { self.str_lit(*safe, true, false) };
                    let grow = self.bound(&r) * m;
                    let cap = if captured { CAP_S } else { CAP_S.min(HARD_S) };
                    if v.hi + grow > cap {
                        return false;
                    }
                    if captured {
                        let fx = self.fx.last().unwrap();
                        if fx.planned && fx.wheap.iter().find(|w| w.0 == v.vid).is_none_or(|w| w.2 < grow) {
                            return false;
                        }
                    }
                    if self.ch(1, 5) { bin(Op::Add, r, var(&name)) } else { bin(Op::Add, var(&name), r) }
                }
                _ => return false,
            }
        } else {
            let e = self.expr(&want, 3);
            if outer_in_loop && matches!(v.ty, Ty::Str(_)) {
                // no hidden growth through other long-lived strings
                let reads = e.reads();
                if reads.iter().any(|r| self.find(r).is_some_and(|(s, _)| s < self.cx.loop_base) && is_heap(&self.ty_of(r))) {
                    return false;
                }
            }
            e
        };
        let e = if matches!(e.strip(), Ex::Var(x) if *x == name) && is_heap(&v.ty) && (self.strict || self.ch(1, 2)) {
            match v.ty {
                Ty::Str(_) => bin(Op::Add, e, lit("")), // R4: never `s get s`
                _ => self.literal(&want, 0),
            }
        } else {
            e
        };
        if !self.usable(&e) {
            return false;
        }
        let growth = match &v.ty {
            Ty::Str(_) => {
                let b = self.bound(&e);
                if b > CAP_S || (captured && !self_ref && b > ASSUME_S) {
                    return false;
                }
                let g = if self_ref { (b.saturating_sub(v.hi)) * m } else { 0 };
                self.var_mut(&name).unwrap().hi = if self_ref { v.hi + g } else { b.max(if captured { v.hi } else { 0 }) };
                g
            }
            Ty::Arr(..) => {
                let r = self.rt(&e);
                if !fits(&r, &v.floor) || self.elems(&e) > ASSUME_A || captured {
                    return false;
                }
                let x = self.var_mut(&name).unwrap();
                x.ty = if kind_eq(&r, &v.ty) && !matches!(&r, Ty::Arr(e, _) if **e == Ty::Bot) { r } else { v.floor.clone() };
                x.hi = x.hi.max(12);
                0
            }
            _ => 0,
        };
        self.note_write(&name, growth);
        self.line(&format!("{name} get {}", e.text()));
        self.count();
        true
    }

    /// `v[i]` / `v[i][j]` chain into a mutable array variable: (text, nesting depth reached).
    fn slot(&mut self, want_inner_array: bool) -> Option<(Ex, String, usize)> {
        let mut cands = Vec::new();
        for n in self.targets(&arr(Ty::Any, 0)) {
            let v = self.var(&n).unwrap();
            if v.param && (self.cx.loops_fn > 0 && self.strict) {
                continue; // R5
            }
            let t = if self.captured(&n) { v.floor.clone() } else { v.ty.clone() };
            cands.push((n, t));
        }
        if cands.is_empty() {
            return None;
        }
        let (n, t) = self.pick(&cands);
        let mut e = var(&n);
        let mut depth = 0;
        // descend while there is a guaranteed element that is itself an array
        while min_at(&t, depth) > 0 && matches!(elem_at(&t, depth), Ty::Arr(..)) && (want_inner_array || self.ch(1, 2)) {
            let i = self.index_for(min_at(&t, depth));
            e = idx(e, i);
            depth += 1;
            if want_inner_array && self.ch(1, 2) {
                break;
            }
        }
        Some((e, n, depth))
    }

    fn index_assign(&mut self) -> bool {
        let Some((base, name, depth)) = self.slot(false) else { return false };
        let t = self.ty_of(&name);
        let n = min_at(&t, depth);
        if n == 0 {
            return false;
        }
        let el = elem_at(&t, depth);
        let i = self.index_for(n);
        let val = self.elem(&el, 2);
        if !fits(&self.rt(&val), &el) {
            return false;
        }
        let target = idx(base, i);
        if !self.usable(&target) {
            return false;
        }
        self.note_write(&name, 0);
        self.line(&format!("{} get {}", target.text(), val.text()));
        self.count();
        true
    }

    /// `a.push(v)`, `a.pop()`, `a.reverse()`, also through index chains (`m[1].push(2)`).
    fn array_method(&mut self) -> bool {
        let chain = self.ch(1, 3);
        let Some((recv, name, depth)) = self.slot(chain) else { return false };
        let v = self.var(&name).unwrap().clone();
        let captured = self.captured(&name);
        let cur = if captured { v.floor.clone() } else { v.ty.clone() };
        let m = self.cx.mult;
        match self.below(5) {
            0 | 1 => {
                if (depth == 0 && v.hi + m > if captured { CAP_A } else { ASSUME_A + 8 }) || (depth > 0 && m > 4) {
                    return false;
                }
                if captured {
                    let fx = self.fx.last().unwrap();
                    if fx.planned && fx.wheap.iter().find(|w| w.0 == v.vid).is_none_or(|w| w.2 < m) {
                        return false;
                    }
                }
                let el = elem_at(&cur, depth);
                let val = self.elem(&el, 2);
                if !fits(&self.rt(&val), &el) {
                    return false;
                }
                if depth == 0 {
                    let x = self.var_mut(&name).unwrap();
                    x.hi += m;
                    x.ty = with_min(&x.ty, 0, &|n| n + 1);
                }
                self.note_write(&name, if depth == 0 { m } else { 0 });
                self.line(&format!("{}.push({})", recv.text(), val.text()));
            }
            2 | 3 => {
                // only while more elements are guaranteed than the variable's floor promises
                if min_at(&v.ty, depth) <= min_at(&v.floor, depth) || min_at(&v.ty, depth) == 0 {
                    return false;
                }
                let el = elem_at(&v.ty, depth);
                self.var_mut(&name).unwrap().ty = with_min(&v.ty, depth, &|n| n - 1);
                self.note_write(&name, 0);
                let pop = meth(recv, "pop", vec![]);
                match self.below(3) {
                    0 => self.line(&pop.text()),
                    1 if self.can_out(1) => {
                        self.note_out(1);
                        self.line(&format!("shout({})", pop.text()));
                    }
                    _ => {
                        // a popped value is statically dynamic: bind it under a name of its type
                        match self.name_for(&slack(&el), false) {
                            Some(n2) if n2 != name && !matches!(el, Ty::Any | Ty::Bot) => {
                                let ty = match (&el, ty_of_name(&n2)) {
                                    (Ty::Str(_), t) => t,
                                    _ => el.clone(),
                                };
                                if !fits(&el, &ty) {
                                    self.line(&pop.text());
                                } else {
                                    self.declare(&n2, ty, &pop);
                                    if let Some(x) = self.var_mut(&n2) {
                                        x.hi = ECAP.max(6);
                                    }
                                    return true;
                                }
                            }
                            _ => self.line(&pop.text()),
                        }
                    }
                }
            }
            _ => {
                self.note_write(&name, 0);
                self.line(&format!("{}.reverse()", recv.text()));
            }
        }
        self.count();
        true
    }

    fn if_stmt(&mut self) -> bool {
        let c = self.cond(2);
        self.open(&format!("if to say ({}) start", c.text()));
        self.count();
        let branches = if self.ch(1, 3) { 2 } else { 1 };
        for b in 0..branches {
            if b == 1 {
                self.open("if not so start");
            }
            let before = self.env.clone();
            self.push_scope();
            self.cx.depth += 1;
            let can_jump = self.cx.loops_fn > 0 || self.cx.fn_idx.is_some();
            let held = can_jump && self.hold_defs(1, 12);
            let k = 1 + self.below(3);
            self.block_body(k);
            if held && self.holding() {
                self.jump();
            } else {
                self.terminator();
            }
            if held {
                self.release_defs();
            }
            self.cx.depth -= 1;
            self.pop_scope_join(&before);
            self.close();
        }
        true
    }

    /// An unconditional `comot` / `next` / `return` (one of those possible here).
    fn jump(&mut self) {
        if self.cx.loops_fn > 0 && (self.cx.fn_idx.is_none() || self.ch(1, 2)) {
            let w = if self.cx.no_next || self.ch(1, 2) { "comot" } else { "next" };
            self.line(w);
            self.count();
        } else {
            self.ret_followed();
        }
    }
    /// A `return` that other statements follow: `return` alone would take the next statement as its
    /// expression (only `end` ends a bare `return`).
    fn ret_followed(&mut self) {
        if self.cx.ret == Ty::Null {
            self.line("return null");
            self.count();
        } else {
            self.ret_stmt();
        }
    }

    /// `comot` / `next` / `return` as the last statement of a conditional block.
    fn terminator(&mut self) {
        if self.cx.loops_fn > 0 && self.ch(2, 5) {
            let w = if self.cx.no_next || self.ch(2, 5) { "comot" } else { "next" };
            self.line(w);
            self.count();
        } else if self.cx.fn_idx.is_some() && self.ch(1, 4) {
            self.ret_stmt();
        }
    }

    fn block_stmt(&mut self) -> bool {
        self.open("start");
        self.count();
        self.push_scope();
        self.cx.depth += 1;
        let k = 1 + self.below(4);
        self.block_body(k);
        self.cx.depth -= 1;
        self.env.pop();
        self.close();
        true
    }

    fn loop_stmt(&mut self) -> bool {
        let k = if self.cx.mult > 1 { 1 + self.below(4) } else { 1 + self.below(8) };
        if self.cx.loops_all >= 3 || self.work_left() < self.cx.mult * k * 6 {
            return false;
        }
        // a counter of its own: a fresh declaration in this block (wrapped in a block if need be)
        let free = |g: &Self| -> Vec<&'static str> {
            let cur = g.env.last().unwrap();
            COUNTERS
                .iter()
                .copied()
                .filter(|n| {
                    !cur.vars.iter().any(|v| v.name == *n)
                        && !cur.reserved.iter().any(|f| f == n)
                        && !(!cur.pending.is_empty() && cur.forbid.iter().any(|f| f == n))
                })
                .collect()
        };
        let wrapped = free(self).is_empty() || self.nvars() >= 18 || self.ch(1, 8);
        if wrapped {
            self.open("start");
            self.count();
            self.push_scope();
        }
        let names = free(self);
        let c = self.pick(&names).to_string();
        let (down, first) = (self.ch(1, 4), self.ch(1, 2));
        let saved_cx = self.cx.clone();
        self.declare(&c, Ty::Num, &num(if down { k } else { 0 }));
        let before = self.env.clone();
        let cond = match (down, self.below(2)) {
            (false, 0) => bin(Op::SmallPass, var(&c), num(k)),
            (false, _) => bin(Op::Pass, num(k), var(&c)),
            (true, 0) => bin(Op::Pass, var(&c), num(0)),
            (true, _) => Ex::Not(Box::new(par(bin(Op::SmallPass, var(&c), num(1))))),
        };
        self.open(&format!("jasi ({}) start", cond.text()));
        self.count();
        self.push_scope();
        self.cx.loops_fn += 1;
        self.cx.loops_all += 1;
        self.cx.mult *= k;
        self.cx.depth += 1;
        self.cx.no_next = !first;
        self.cx.loop_base = self.env.len() - 1;
        // a shadowing `make <counter>` in the body would capture the step statement at its end
        self.env.last_mut().unwrap().reserved.push(c.clone());
        for v in self.env.iter_mut().flat_map(|s| s.vars.iter_mut()) {
            v.floor = v.ty.clone(); // what holds at loop entry must hold at every iteration start
        }
        let step = format!("{c} get {c} {} 1", if down { "minus" } else { "add" });
        let in_body = |first: bool| match (down, first) {
            (false, true) => (1, k),
            (false, false) | (true, true) => (0, k - 1),
            (true, false) => (1, k),
        };
        {
            let v = self.var_mut(&c).unwrap();
            v.locked = true;
            v.whole = Some(in_body(first));
        }
        if first {
            self.line(&step);
            self.count();
        }
        let n = 1 + self.below(4);
        let held = self.hold_defs(1, 10);
        if self.ch(1, 3) && self.left() >= 3 {
            self.if_stmt(); // a conditional `comot` / `next` / `return` at a random iteration
        }
        self.block_body(n);
        if !first {
            self.line(&step);
            self.count();
        }
        if held {
            if self.holding() {
                // the body ends with a jump of its own; what the block still owes comes after it
                let w = if self.ch(1, 2) { "next" } else { "comot" };
                self.line(w);
                self.count();
            }
            self.release_defs();
        }
        self.pop_scope_join(&before);
        self.cx = saved_cx;
        self.close();
        if wrapped {
            self.flush_pending();
            self.env.pop();
            self.close();
        }
        true
    }
}

// ------------------------------------------------------------------------------------------------
// Functions
// ------------------------------------------------------------------------------------------------

impl Gen<'_> {
    /// A function name that may be defined in the current block.
    fn fn_name(&mut self, pool: &[&str]) -> Option<String> {
        let cur = self.env.last().unwrap();
        let ok: Vec<&str> = pool
            .iter()
            .copied()
            .filter(|n| !cur.funcs.iter().any(|&fi| self.funcs[fi].name == *n) && !cur.called.iter().any(|c| c == n))
            .collect();
        if ok.is_empty() { None } else { Some(self.pick(&ok).to_string()) }
    }

    /// Parameters with distinct names taken from the per-type pools.
    fn params(&mut self, n: usize) -> Vec<(String, Ty)> {
        let mut ps: Vec<(String, Ty)> = Vec::new();
        for _ in 0..n {
            let t = self.some_ty();
            let names: Vec<&str> = names_for(&t).into_iter().filter(|n| !ps.iter().any(|p| p.0 == *n)).collect();
            if names.is_empty() {
                continue;
            }
            let name = self.pick(&names);
            let t = match (&t, ty_of_name(name)) {
                (Ty::Arr(..), _) => t.clone(),
                (_, base) => base,
            };
            ps.push((name.to_string(), t));
        }
        ps
    }

    /// A hand-written definition (not tracked any further) occupies its name in this block.
    fn reserve_fn(&mut self, name: &str) {
        self.add_fn(Func { name: name.to_string(), ..Func::default() });
    }

    fn add_fn(&mut self, f: Func) -> usize {
        let fi = self.funcs.len();
        let cur = self.env.len() - 1;
        self.funcs.push(Func { home: cur, ..f });
        self.env[cur].funcs.push(fi);
        fi
    }

    /// Emit `do name(params) start <body> end`; `body` fills the function's block.
    fn define(&mut self, fi: usize, body: &mut dyn FnMut(&mut Self)) {
        let f = self.funcs[fi].clone();
        let planned = f.callable;
        let ps: Vec<&str> = f.params.iter().map(|p| p.0.as_str()).collect();
        self.open(&format!("do {}({}) start", f.name, ps.join(", ")));
        self.count();
        let (saved_env, saved_cx) = (self.env.clone(), self.cx.clone());
        if let Some(n) = f.snap {
            self.env.last_mut().unwrap().vars.truncate(n); // R7: as if defined where it was planned
        }
        for v in self.env.iter_mut().flat_map(|s| s.vars.iter_mut()) {
            v.ty = v.floor.clone(); // a call may come at any later time
            match v.ty {
                Ty::Str(_) => v.hi = ASSUME_S,
                Ty::Arr(..) => v.hi = ASSUME_A,
                _ => {}
            }
        }
        self.env.push(Scope::default()); // the parameter scope
        for (name, ty) in &f.params {
            let vid = self.next_vid;
            self.next_vid += 1;
            let hi = if matches!(ty, Ty::Str(_)) { CAP_S } else { ASSUME_A };
            self.env.last_mut().unwrap().vars.push(Var {
                name: name.clone(),
                vid,
                ty: ty.clone(),
                floor: slack(ty),
                st: D,
                hi,
                locked: false,
                whole: None,
                param: true,
            });
        }
        self.cx = Cx {
            fnbase: Some(self.env.len() - 1),
            fn_idx: Some(fi),
            loops_fn: 0,
            loops_all: saved_cx.loops_all,
            mult: 1,
            ret: f.ret.0.clone(),
            depth: saved_cx.depth + 1,
            fdepth: saved_cx.fdepth + 1,
            no_next: false,
            no_calls: false,
            avoid: Vec::new(),
            fn_limit: if planned { f.limit } else { usize::MAX },
            loop_base: 0,
        };
        self.push_scope();
        self.fx.push(Fx {
            wnum: if planned { f.wnum.clone() } else { Vec::new() },
            wheap: if planned { f.wheap.clone() } else { Vec::new() },
            planned,
            max_outs: if planned { f.outs } else { 4 },
            nvars: f.params.len(),
            ..Fx::default()
        });
        body(self);
        self.flush_pending();
        let fx = self.fx.pop().unwrap();
        // calls made inside the body also pin the names of the enclosing blocks
        let called: Vec<Vec<String>> = self.env.iter().map(|s| s.called.clone()).collect();
        self.env = saved_env;
        for (sc, c) in self.env.iter_mut().zip(called) {
            sc.called = c;
        }
        self.cx = saved_cx;
        self.close();
        let f = &mut self.funcs[fi];
        if !planned {
            f.wnum = fx.wnum;
            f.wheap = fx.wheap;
            f.outs = fx.outs;
        }
        f.work = f.work.max(fx.work + 2);
        f.defined = true;
        f.callable = true;
    }

    /// R3: a returned string is a fresh one, not an alias of a local, a parameter or an element.
    fn fresh(&self, e: Ex) -> Ex {
        match e {
            Ex::Par(x) => par(self.fresh(*x)),
            Ex::Arr(es) => Ex::Arr(es.into_iter().map(|x| self.fresh(x)).collect()),
            Ex::Var(_) | Ex::Idx(..) if matches!(self.rt(&e), Ty::Str(_)) => bin(Op::Add, e, lit("")),
            other => other,
        }
    }

    fn ret_stmt(&mut self) {
        let t = self.cx.ret.clone();
        if t == Ty::Null {
            let w = if self.ch(1, 3) { "return null" } else { "return" };
            self.line(w);
            self.count();
            return;
        }
        let mut e = self.expr(&t, 2);
        let too_big = match t {
            Ty::Str(_) => self.bound(&e) > CAP_S,
            Ty::Arr(..) => self.elems(&e) > 12,
            _ => false,
        };
        if too_big || !fits(&self.rt(&e), &t) {
            e = self.literal(&t, 0);
        }
        if self.strict || self.ch(1, 2) {
            e = self.fresh(e);
        }
        // The result type is inferred in the enclosing scope (D-09b), where `p add q` of two dynamic
        // values counts as a string: bind such a value to a local first.
        let mut ok = true;
        if self.inf(&e, true, &mut ok) & !(st_of(&t) | D | X) != 0 {
            match self.name_for(&slack(&t), false) {
                Some(n) if self.decl_as(&n, &t, e.clone()) => e = var(&n),
                _ => e = self.literal(&t, 0),
            }
        }
        self.line(&format!("return {}", e.text()));
        self.count();
    }

    /// Body of an ordinary function: a few statements and the final `return`.
    fn plain_body(&mut self) {
        let f = self.funcs[self.cx.fn_idx.unwrap()].clone();
        if let Some(h) = f.must_call
            && self.can_call(h)
        {
            self.call_stmt_of(h);
        }
        if self.ch(1, 3) && self.can_out(1) {
            // make the call visible in the output (short-circuit and evaluation-order tests)
            let mut text = f.name.clone();
            let mut vars = Vec::new();
            for (p, t) in &f.params {
                if !matches!(t, Ty::Cmd) && disp(t, ASSUME_A.min(6)) <= 60 {
                    text.push_str(&format!(" {{{p}}}"));
                    vars.push(p.clone());
                }
            }
            self.shout(Ex::Str(format!("\"{text}\""), vars));
        }
        if self.ch(1, 4) && self.left() >= 4 {
            self.loop_stmt(); // loops inside functions: `return` / `comot` / `next` in a callee's loop
        }
        let held = self.hold_defs(1, 6);
        let k = 1 + self.below(4);
        self.block_body(k);
        if held && self.holding() {
            self.ret_followed();
        } else if self.cx.ret != Ty::Null {
            self.ret_stmt();
        }
        if held {
            self.release_defs(); // after the final `return`
        }
    }

    fn fn_stmt(&mut self) -> bool {
        match self.below(20) {
            0..=8 => self.plain_fn(),
            9..=11 => self.rec_fn(),
            12 | 13 => self.mutual_fns(),
            14..=16 => self.plan_forward(),
            17 => self.selector_fn(),
            _ => self.bump_fn(),
        }
    }

    fn ret_ty(&mut self) -> Ty {
        if self.ch(3, 10) {
            return Ty::Null;
        }
        match self.some_ty() {
            Ty::Null => Ty::Num,
            Ty::Arr(e, n) => arr(*e, n.min(2)),
            t => t,
        }
    }

    fn plain_fn(&mut self) -> bool {
        let Some(name) = self.fn_name(&FN_NAMES) else { return false };
        let n = self.below(4);
        let params = self.params(n);
        let ret = Ty2(self.ret_ty());
        let fi = self.add_fn(Func { name, params, ret, ..Func::default() });
        self.define(fi, &mut |g| g.plain_body());
        self.call_soon(fi);
        true
    }

    /// Usually use a new function right away.
    fn call_soon(&mut self, fi: usize) {
        if self.ch(4, 5) {
            self.call_stmt_of(fi);
        }
    }

    /// `do bump() start n get n add 1 return n end`: used inside arithmetic (evaluation order).
    fn bump_fn(&mut self) -> bool {
        let Some(name) = self.fn_name(&["bump", "inc", "tick"]) else { return false };
        let ts: Vec<String> = self.targets(&Ty::Num);
        if ts.is_empty() {
            return false;
        }
        let v = self.pick(&ts);
        let fi = self.add_fn(Func { name, ret: Ty2(Ty::Num), ..Func::default() });
        self.define(fi, &mut |g| {
            g.note_write(&v, 0);
            g.line(&format!("{v} get {v} add 1"));
            g.count();
            g.line(&format!("return {v}"));
            g.count();
        });
        if self.can_call(fi) && self.find(&v).is_some() {
            self.apply_call(fi);
            let c = call(&self.funcs[fi].name.clone(), vec![]);
            let e = if self.ch(1, 2) { bin(Op::Add, var(&v), c) } else { bin(Op::Add, c, var(&v)) };
            if self.usable(&e) {
                self.shout(e);
            }
        }
        true
    }

    /// `do sel(b) start if to say (b) start return A end return B end`: one name, two result types.
    fn selector_fn(&mut self) -> bool {
        let Some(name) = self.fn_name(&["sel", "either", "choose"]) else { return false };
        let pairs = [
            (Ty::Num, Ty::Str(true)),
            (Ty::Num, Ty::Null),
            (Ty::Str(true), arr(Ty::Num, 1)),
            (Ty::Bool, Ty::Null),
            (arr(Ty::Num, 1), Ty::Num),
        ];
        let (a, b) = self.pick(&pairs);
        let p = self.pick(&BOOL_NAMES).to_string();
        let (la, lb) = (self.literal(&a, 0), self.literal(&b, 0));
        let (a2, b2) = (self.rt(&la), self.rt(&lb));
        let (a, b) = (if fits(&a2, &a) { a2 } else { a }, if fits(&b2, &b) { b2 } else { b });
        let fi = self.add_fn(Func {
            name,
            params: vec![(p.clone(), Ty::Bool)],
            ret: Ty2(Ty::Any),
            mixed: Some((a, b)),
            ..Func::default()
        });
        self.define(fi, &mut |g| {
            g.open(&format!("if to say ({p}) start"));
            g.count();
            g.line(&format!("return {}", la.text()));
            g.count();
            g.close();
            g.line(&format!("return {}", lb.text()));
            g.count();
        });
        self.call_soon(fi);
        true
    }

    /// Self-recursive functions with an explicit decreasing argument (callers pass 0..=5).
    fn rec_fn(&mut self) -> bool {
        let Some(name) = self.fn_name(&["fact", "sum_to", "rep", "build", "fib", "down", "walk"]) else {
            return false;
        };
        let p = self.pick(&["n", "m", "k"]).to_string();
        let rec = |d: &str| call(&name, vec![bin(Op::Minus, var(&p), num(d))]);
        let say = self.ch(1, 3);
        // (result type, base value, recursive result, calls per level)
        let (ret, base, step, fan): (Ty, Ex, Ex, usize) = match name.as_str() {
            "fact" => (Ty::Num, num(1), bin(Op::Times, var(&p), rec("1")), 1),
            "sum_to" => (Ty::Num, num(0), bin(Op::Add, rec("1"), var(&p)), 1),
            "rep" => {
                let piece = self.str_lit(true, true, false);
                (Ty::Str(true), lit(""), bin(Op::Add, piece, rec("1")), 1)
            }
            "fib" => (Ty::Num, var(&p), bin(Op::Add, rec("1"), rec("2")), 3),
            "build" => (arr(Ty::Num, 0), Ex::Arr(vec![]), Ex::Null, 1),
            _ => (Ty::Null, Ex::Null, Ex::Null, 1),
        };
        let outs = if say || ret == Ty::Null { if fan > 1 { 26 } else { 7 } } else { 0 };
        if !self.can_out(outs) {
            return false;
        }
        let fi = self.add_fn(Func {
            name: name.clone(),
            params: vec![(p.clone(), Ty::Num)],
            ret: Ty2(ret.clone()),
            rec_param: Some(0),
            ..Func::default()
        });
        let limit = if name == "fib" { 2 } else { 1 };
        self.define(fi, &mut |g| {
            if ret == Ty::Null {
                // countdown: `if (n pass 0) start shout(n) down(n minus 1) end`
                g.open(&format!("if to say ({p} pass 0) start"));
                g.count();
                let first = g.ch(1, 2);
                if first {
                    g.line(&format!("shout({p})"));
                }
                g.line(&rec("1").text());
                if !first {
                    g.line(&format!("shout({p})"));
                }
                g.close();
                return;
            }
            g.open(&format!("if to say ({p} small pass {limit}) start"));
            g.count();
            g.line(&format!("return {}", base.text()));
            g.count();
            g.close();
            if say {
                g.line(&format!("shout(\"{name} {{{p}}}\")"));
                g.count();
            }
            if name == "build" {
                let r = g.pick(&["a", "xs", "arr"]);
                g.line(&format!("make {r} get {}", rec("1").text()));
                g.line(&format!("{r}.push({p})"));
                g.line(&format!("return {r}"));
            } else {
                g.line(&format!("return {}", step.text()));
            }
            g.count();
        });
        let f = &mut self.funcs[fi];
        f.outs = outs;
        f.work = if fan > 1 { 120 } else { 40 };
        self.call_soon(fi);
        true
    }

    /// Two functions calling each other, planned together so that either may be called first.
    fn mutual_fns(&mut self) -> bool {
        let pairs = [("ev", "od"), ("ping", "pong"), ("tick2", "tock2"), ("left", "right")];
        let (a, b) = self.pick(&pairs);
        let (Some(_), Some(_)) = (self.fn_name(&[a]), self.fn_name(&[b])) else { return false };
        let p = self.pick(&["n", "m", "k"]).to_string();
        let ret = self.pick(&[Ty::Bool, Ty::Num, Ty::Str(true), Ty::Null]);
        let say = ret == Ty::Null || self.ch(1, 3);
        let outs = if say { 7 } else { 0 };
        if !self.can_out(outs) {
            return false;
        }
        let snap = Some(self.env.last().unwrap().vars.len());
        let limit = self.funcs.len();
        let mut ids = Vec::new();
        for name in [a, b] {
            ids.push(self.add_fn(Func {
                name: name.to_string(),
                params: vec![(p.clone(), Ty::Num)],
                ret: Ty2(ret.clone()),
                rec_param: Some(0),
                callable: true,
                outs,
                work: 40,
                snap,
                limit,
                ..Func::default()
            }));
        }
        self.note_forbidden();
        for (k, &fi) in ids.iter().enumerate() {
            let (me, other) = if k == 0 { (a, b) } else { (b, a) };
            let next = call(other, vec![bin(Op::Minus, var(&p), num(1))]);
            let base = match ret {
                Ty::Bool => Ex::Bool(k == 0),
                Ty::Num => num(k),
                _ => lit(""),
            };
            let step = match ret {
                Ty::Num => bin(Op::Add, num(1), next.clone()),
                Ty::Str(_) => bin(Op::Add, lit(&me[..1]), next.clone()),
                _ => next.clone(),
            };
            let ret2 = ret.clone();
            let p2 = p.clone();
            self.define(fi, &mut |g| {
                if ret2 == Ty::Null {
                    g.open(&format!("if to say ({p2} pass 0) start"));
                    g.count();
                    g.line(&format!("shout(\"{me} {{{p2}}}\")"));
                    g.line(&next.text());
                    g.close();
                    return;
                }
                g.open(&format!("if to say ({p2} small pass 1) start"));
                g.count();
                g.line(&format!("return {}", base.text()));
                g.close();
                if say {
                    g.line(&format!("shout(\"{me} {{{p2}}}\")"));
                }
                g.line(&format!("return {}", step.text()));
                g.count();
            });
            // a call or another statement between the two definitions (the second is still only planned)
            if k == 0 && self.left() > 0 {
                if self.ch(1, 2) {
                    let which = ids[self.below(2)];
                    self.call_stmt_of(which);
                } else {
                    self.stmt();
                }
            }
        }
        let which = ids[self.below(2)];
        self.call_soon(which);
        true
    }

    /// Names visible from enclosing blocks must not be re-declared in this block while a planned
    /// function is still undefined: its body would bind to the later declaration (R7).
    fn note_forbidden(&mut self) {
        let cur = self.env.len() - 1;
        let outer: Vec<String> =
            self.env[..cur].iter().flat_map(|s| s.vars.iter().map(|v| v.name.clone())).collect();
        let sc = &mut self.env[cur];
        for n in outer {
            if !sc.vars.iter().any(|v| v.name == n) && !sc.forbid.contains(&n) {
                sc.forbid.push(n);
            }
        }
    }

    /// Plan a function (signature, effects), call it, define it later in the same block.
    fn plan_forward(&mut self) -> bool {
        let Some(name) = self.fn_name(&FN_NAMES) else { return false };
        if self.left() < 4 {
            return false;
        }
        let n = self.below(3);
        let params = self.params(n);
        let ret = Ty2(self.ret_ty());
        let mut wnum = Vec::new();
        let mut wheap = Vec::new();
        if self.ch(1, 2) {
            for t in [Ty::Num, Ty::Str(false), arr(Ty::Any, 0)] {
                let ts = self.targets(&t);
                if ts.is_empty() || self.ch(1, 2) {
                    continue;
                }
                let n = self.pick(&ts);
                let v = self.var(&n).unwrap().clone();
                match v.ty {
                    Ty::Num => wnum.push(v.vid),
                    Ty::Str(_) => wheap.push((v.vid, v.name, 8)),
                    Ty::Arr(..) => wheap.push((v.vid, v.name, 1)),
                    _ => {}
                }
            }
        }
        let snap = Some(self.env.last().unwrap().vars.len());
        let limit = self.funcs.len();
        let outs = self.below(3);
        let fi = self.add_fn(Func {
            name,
            params,
            ret,
            wnum,
            wheap,
            outs,
            work: 60,
            callable: true,
            snap,
            limit,
            ..Func::default()
        });
        self.env.last_mut().unwrap().pending.push(fi);
        self.note_forbidden();
        self.call_stmt_of(fi);
        true
    }

    fn define_pending(&mut self) {
        let cur = self.env.len() - 1;
        if self.env[cur].pending.is_empty() {
            return;
        }
        let fi = self.env[cur].pending.remove(0);
        self.define(fi, &mut |g| g.plain_body());
        if self.env[cur].pending.is_empty() {
            self.env[cur].forbid.clear();
        }
    }
    fn flush_pending(&mut self) {
        while !self.env.last().unwrap().pending.is_empty() {
            self.define_pending();
        }
    }

    fn call_stmt(&mut self) -> bool {
        let fs: Vec<usize> = self.visible_funcs().into_iter().filter(|&fi| self.can_call(fi)).collect();
        if fs.is_empty() {
            return false;
        }
        let fi = self.pick(&fs);
        self.call_stmt_of(fi)
    }

    /// A statement whose whole point is one call of `fi` (the isolated positions of R1).
    fn call_stmt_of(&mut self, fi: usize) -> bool {
        let Some(c) = self.call_of(fi, 2, None) else { return false };
        let f = self.funcs[fi].clone();
        let rty = self.rt(&c);
        let written: Vec<&String> = f.wheap.iter().map(|w| &w.1).collect();
        let arg_var = match &c {
            Ex::Call(_, args) => args.iter().find_map(|a| match a {
                Ex::Var(v) if matches!(self.ty_of(v), Ty::Arr(..)) => Some(v.clone()),
                _ => None,
            }),
            _ => None,
        };
        let mut done = false;
        if !matches!(rty, Ty::Null | Ty::Any | Ty::Bot | Ty::Cmd) {
            match self.below(4) {
                0 => done = self.shout(c.clone()),
                1 => {
                    if let Some(n) = self.name_for(&slack(&rty), false)
                        && !(self.strict && written.contains(&&n))
                        && fits(&rty, &ty_of_name(&n))
                    {
                        let want = if matches!(rty, Ty::Arr(..)) { rty.clone() } else { ty_of_name(&n) };
                        let st = self.st_for_var(&c);
                        if st & !(st_of(&want) | D) == 0 {
                            self.declare(&n, want.clone(), &c);
                            if let Some(v) = self.var_mut(&n) {
                                v.hi = if matches!(want, Ty::Str(_)) { CAP_S } else { 12 };
                            }
                            done = true;
                        }
                    }
                }
                2 => {
                    let ts: Vec<String> = self
                        .targets(&slack(&rty))
                        .into_iter()
                        .filter(|n| {
                            let v = self.var(n).unwrap();
                            !self.captured(n)
                                && kind_eq(&v.ty, &rty)
                                && fits(&rty, &v.floor)
                                && fits(&rty, &ty_of_name(n))
                                && !(self.strict && written.contains(&n))
                                && !(self.cx.loops_fn > 0 && matches!(rty, Ty::Str(_)))
                        })
                        .collect();
                    if !ts.is_empty() {
                        let n = self.pick(&ts);
                        let v = self.var_mut(&n).unwrap();
                        match rty {
                            Ty::Str(_) => v.hi = CAP_S,
                            Ty::Arr(..) => {
                                v.ty = rty.clone();
                                v.hi = v.hi.max(12);
                            }
                            _ => {}
                        }
                        self.line(&format!("{n} get {}", c.text()));
                        self.count();
                        done = true;
                    }
                }
                _ => {}
            }
        }
        if !done {
            self.line(&c.text());
            self.count();
        }
        if let Some(v) = arg_var
            && self.ch(1, 2)
        {
            self.shout(var(&v)); // the caller's array is unchanged by whatever the callee did to its copy
        }
        true
    }
}

// ------------------------------------------------------------------------------------------------
// Idioms, deliberate runtime errors, the program
// ------------------------------------------------------------------------------------------------

impl Gen<'_> {
    fn idiom(&mut self) -> bool {
        // the two scoping shapes: always under the scoping bias half of the time, else now and then
        // definitions in dead code (after `return` / `comot` / `next`), reached through hoisting
        let dead = match self.opts.bias {
            Bias::Control => self.ch(2, 5),
            Bias::Scoping | Bias::Mixed => self.ch(1, 4),
            _ => self.ch(1, 6),
        };
        if dead {
            return self.dead_defs();
        }
        // effect order: impure index expressions in receiver / target chains; later operands that change the
        // variable an earlier operand has read
        let effects = match self.opts.bias {
            Bias::Arrays => self.ch(1, 4),
            Bias::Mixed => self.ch(1, 6),
            Bias::Scoping | Bias::Control => self.ch(1, 9),
            _ => self.ch(1, 12),
        };
        if effects {
            return self.effect_idiom();
        }
        // the same name declared again in the same block at ANOTHER literal type, capturing functions in between
        let retype = match self.opts.bias {
            Bias::Scoping => self.ch(1, 4),
            Bias::Mixed => self.ch(1, 8),
            _ => self.ch(1, 14),
        };
        if retype {
            return self.retype_redeclare();
        }
        // long strings (around and above the largest pool slot) built in functions, returned and kept in arrays
        let long = match self.opts.bias {
            Bias::Arrays => self.ch(1, 4),
            Bias::Strings => self.ch(1, 5),
            Bias::Scoping | Bias::Control | Bias::Numbers => self.ch(1, 12),
            Bias::Mixed => self.ch(1, 7),
        };
        if long {
            return self.long_rows();
        }
        let scoping = match self.opts.bias {
            Bias::Scoping => self.ch(2, 3),
            Bias::Arrays => self.ch(1, 4),
            _ => self.ch(1, 5),
        };
        if scoping {
            return match self.below(5) {
                0 | 1 => self.shadowed_capture(),
                2 | 3 => self.fn_shadow(),
                _ => self.interp_twice(),
            };
        }
        match self.below(7) {
            0 | 1 => self.copy_write_read(),
            2 => self.drain_loop(),
            3 => self.param_mutation(),
            4 => self.number_table(),
            5 if !self.strict => self.alias_shapes(),
            _ => self.string_table(),
        }
    }

    /// C04 x C05: functions read and mutate a CAPTURED array through index chains (`x[i].push/pop/
    /// reverse`, `x[i][j] get v`, reads) while a function on the call chain holds an unrelated local or
    /// parameter of THE SAME NAME and mutates it the same way. A block of its own with hand-written
    /// names: nothing escapes it, the generator tracks none of it.
    fn shadowed_capture(&mut self) -> bool {
        if !self.can_out(8) || self.cx.depth >= 4 {
            return false;
        }
        let x = self.pick(&ARR_NAMES).to_string();
        let by_param = self.ch(1, 3);
        let via_mid = self.ch(1, 2);
        let (i, j) = (self.below(2), self.below(2));
        let v1 = self.below(90) + 1;
        let s1 = self.pick(&["p", "qq", "ü"]);
        self.open("start");
        self.push_scope();
        self.line(&format!("make {x} get [[1, 2], [\"a\", \"b\", 3]]"));
        self.line(&format!("do grow(v) start {x}[{i}].push(v) end"));
        self.line(&format!("do take() start return {x}[{}].pop() end", 1 - i));
        self.line(&format!("do flip() start {x}[{i}].reverse() end"));
        self.line(&format!("do put(v) start {x}[{i}][{j}] get v end"));
        self.line(&format!("do peek() start return {x}[{j}][0] end"));
        self.line(&format!("do whole() start return {x} end"));
        let steps = ["grow(@)", "shout(take())", "flip()", "put(@)", "shout(peek())", "shout(whole())"];
        let mine = [
            format!("{x}[{j}].push(@)"),
            format!("shout({x}[{}].pop())", 1 - j),
            format!("{x}[{j}].reverse()"),
            format!("{x}[{j}][0] get @"),
            format!("{x}.push([@])"),
        ];
        let mut outs = 0;
        let seq = |g: &mut Self, n: usize, outs: &mut usize, popped: &mut bool, took: &mut bool| {
            for _ in 0..n {
                let val = if g.ch(1, 2) { format!("{}", g.below(90)) } else { format!("\"{}\"", g.pick(&["p", "qq", "ü"])) };
                let t = if g.ch(3, 5) {
                    let k = g.below(steps.len());
                    if k == 1 {
                        if *took {
                            continue;
                        }
                        *took = true;
                    }
                    steps[k].to_string()
                } else {
                    let k = g.below(mine.len());
                    if k == 1 {
                        if *popped {
                            continue;
                        }
                        *popped = true;
                    }
                    mine[k].clone()
                };
                if t.starts_with("shout(") {
                    if *outs >= 5 {
                        continue;
                    }
                    *outs += 1;
                }
                g.line(&t.replace('@', &val));
            }
        };
        let mut took = false;
        if via_mid {
            self.open("do mid() start");
            self.line(&format!("make {x} get [[{v1}], [\"{s1}\", 0, 1]]"));
            let mut popped = false;
            let n = 2 + self.below(3);
            seq(self, n, &mut outs, &mut popped, &mut took);
            self.line(&format!("return {x}"));
            self.close();
        }
        if by_param {
            self.open(&format!("do caller({x}) start"));
        } else {
            self.open("do caller() start");
            self.line(&format!("make {x} get [[\"l\", \"m\"], [7, 8, 9]]"));
        }
        let mut popped = false;
        let n = 2 + self.below(4);
        seq(self, n, &mut outs, &mut popped, &mut took);
        if via_mid {
            self.line("shout(mid())");
        }
        let n = 1 + self.below(3);
        seq(self, n, &mut outs, &mut popped, &mut took);
        self.line(&format!("shout({x})"));
        self.close();
        if by_param {
            self.line("caller([[\"l\", \"m\"], [7, 8, 9]])");
        } else {
            self.line("caller()");
        }
        self.line(&format!("shout({x})"));
        self.env.pop();
        self.close();
        self.note_out(outs + 3);
        self.stmts += 12;
        let m = self.cx.mult * 40;
        match self.fx.last_mut() {
            Some(fx) => fx.work += m,
            None => self.est_work += m,
        }
        true
    }

    /// C04: a call is bound to the function of the innermost LEXICALLY enclosing block that defines the
    /// name. `user` calls the outer `h`; its caller defines another `h` in its own body (and in a nested
    /// block / loop body), live and more recent on the dynamic stack while `user` runs.
    fn fn_shadow(&mut self) -> bool {
        if !self.can_out(8) || self.cx.depth >= 4 {
            return false;
        }
        let h = self.pick(&["helper", "calc", "pick", "step"]).to_string();
        let with_param = self.ch(1, 2);
        let (p, a) = if with_param { ("q", "4") } else { ("", "") };
        let (r1, r2, r3) = (self.below(9) + 1, self.below(9) + 11, self.below(9) + 21);
        let plus = if with_param { " add q" } else { "" };
        self.open("start");
        self.push_scope();
        self.line(&format!("do {h}({p}) start return {r1}{plus} end"));
        // one, two or three call SITES of the same callee in one function (seed C06-d1: a binding table that
        // keeps one entry per (caller, callee) pair; the later sites then fall back to by-name lookup)
        match self.below(4) {
            0 => self.line(&format!("do user({p}) start return {h}({p}) end")),
            1 => self.line(&format!("do user({p}) start return {h}({p}) add {h}({p}) times 2 end")),
            2 => self.line(&format!("do user({p}) start make a get {h}({p}) make b get {h}({p}) return a add b add {h}({p}) end")),
            _ => self.line(&format!("do user({p}) start if to say ({h}({p}) pass 0) start return {h}({p}) end return 0 minus {h}({p}) end")),
        }
        if self.ch(1, 2) {
            self.line(&format!("do relay({p}) start return user({p}) add 100 end"));
        } else {
            self.line(&format!("do relay({p}) start return user({p}) end"));
        }
        self.open("do host() start");
        // the host's private function of the same name takes one parameter MORE in a third of the cases: a call
        // that reaches it by name instead of by binding has the wrong number of arguments
        let wider = self.ch(1, 3);
        let (hp, ha) = if wider {
            (if with_param { "q, z".to_string() } else { "z".to_string() }, if with_param { "4, 9".to_string() } else { "9".to_string() })
        } else {
            (p.to_string(), a.to_string())
        };
        self.line(&format!("do {h}({hp}) start return {r2}{plus} end"));
        self.line(&format!("shout({h}({ha}))"));
        self.line(&format!("shout(user({a}))"));
        let mut outs = 2;
        match self.below(3) {
            0 => {
                self.open("start");
                self.line(&format!("do {h}({p}) start return {r3}{plus} end"));
                self.line(&format!("shout({h}({a}))"));
                self.line(&format!("shout(relay({a}))"));
                self.close();
                outs += 2;
            }
            1 => {
                self.line("make once get true");
                self.open("jasi (once) start");
                self.line("once get false");
                self.line(&format!("do {h}({p}) start return {r3}{plus} end"));
                self.line(&format!("shout(relay({a}))"));
                self.close();
                outs += 1;
            }
            _ => {}
        }
        self.line(&format!("return relay({a})"));
        self.close();
        self.line("shout(host())");
        self.line(&format!("shout({h}({a}))"));
        self.env.pop();
        self.close();
        self.note_out(outs + 2);
        self.stmts += 10;
        let m = self.cx.mult * 30;
        match self.fx.last_mut() {
            Some(fx) => fx.work += m,
            None => self.est_work += m,
        }
        true
    }


    /// Emit hand-written lines: `>` opens a block with the rest as its head, `<` closes one.
    fn emit_lines(&mut self, lines: &[String]) {
        for l in lines {
            if let Some(head) = l.strip_prefix('>') {
                self.open(head);
            } else if l == "<" {
                self.close();
            } else {
                self.line(l);
            }
        }
    }

    /// C06 / C03 / C04: a function whose DEFINITION STATEMENT is dead code — it follows an unconditional
    /// `return` / `comot` / `next` of its block (directly, after a nested block that jumps, or after an
    /// `if` whose two branches jump) — is still hoisted when the block is entered and is called before
    /// the jump: directly, from a nested block / branch / loop, inside an expression, through another
    /// hoisted function defined in the same dead code, or through a function defined before the jump.
    /// Its helpers are called from nowhere else: they are reachable only through the hoisted function.
    /// Hosts: a function body, a loop body, a loop inside a function, each also with the whole thing one
    /// block or branch deeper. A block of its own with hand-written names; the generator tracks none of it.
    fn dead_defs(&mut self) -> bool {
        if !self.can_out(24) || self.cx.depth >= 4 || self.cx.loops_all >= 3 {
            return false;
        }
        let late = self.pick(&["late", "inner", "tail", "after"]).to_string();
        let aid = self.pick(&["aid", "helper", "util", "leaf"]).to_string();
        let tot = self.pick(&["tot", "n", "cnt", "acc"]).to_string();
        // 0 function body, 1 `jasi (true)` body, 2 counted loop body, 3 counted loop inside a function
        let host = self.below(4);
        // 0 directly in the host block, 1 in a plain block inside it, 2 in a branch inside it
        let nest = self.pick(&[0, 0, 1, 2]);
        // 0 the jump itself, 1 a nested block that jumps, 2 an `if` whose two branches jump
        let cause = self.pick(&[0, 0, 0, 1, 2]);
        // where the helper lives: 0 before the host, 1 after the host (live, forward), 2 in the enclosing
        // function before the jump, 3 in the same dead code as the hoisted function
        let mut aid_at = self.pick(&[0, 0, 0, 1, 1, 2, 2, 3]);
        if aid_at == 2 && !(host == 0 || host == 3) {
            aid_at = 0;
        }
        let chain = self.ch(1, 3); // hoisted -> via -> helper
        let shadowed = self.ch(1, 3); // an outer function of the same name as the hoisted one
        let also_live = self.ch(1, 6); // the helper is called from live code too
        let jumps: &[&str] = match host {
            0 => &["return"],
            1 => &["comot"],
            2 => &["comot", "next"],
            _ => &["return", "comot", "next"],
        };
        // `followed`: other statements follow in the same block (a bare `return` would swallow the next one)
        let jump_text = |g: &mut Self, followed: bool| -> String {
            let j = g.pick(jumps);
            if j == "return" {
                match g.below(4) {
                    0 if !followed => "return".to_string(),
                    0 => "return null".to_string(),
                    _ => format!("return {}", g.below(9)),
                }
            } else {
                j.to_string()
            }
        };
        let mid = if chain { "via" } else { aid.as_str() }.to_string();
        let aid_def: Vec<String> = vec![
            format!(">do {aid}(q) start"),
            format!("{tot} get {tot} add q"),
            format!("shout(\"{aid} {{q}}\")"),
            "return q add 1".to_string(),
            "<".to_string(),
        ];
        let via_def = format!("do via(q) start return {aid}(q) add 10 end");
        // the hoisted function
        let mut late_def: Vec<String> = vec![format!(">do {late}(q) start")];
        match self.below(6) {
            0 => late_def.push(format!("{mid}(q)")),
            1 => late_def.push(format!("return {mid}(q)")),
            2 => {
                late_def.push(format!("shout(\"{late} {{q}} {{q}}\")"));
                late_def.push(format!("return {mid}(q) add 1"));
            }
            3 => {
                late_def.push(format!(">if to say (q pass 0) start"));
                late_def.push(format!("return {late}(q minus 1)"));
                late_def.push("<".to_string());
                late_def.push(format!("return {mid}(q)"));
            }
            4 => {
                late_def.push(format!("do deep(r) start return {mid}(r) end"));
                late_def.push("return deep(q)".to_string());
            }
            _ => {
                late_def.push(format!(">if to say (q small pass 100) start"));
                late_def.push(format!("{mid}(q)"));
                late_def.push("<".to_string());
            }
        }
        late_def.push("<".to_string());
        // calls made before the jump
        let mut calls: Vec<String> = Vec::new();
        let mut dead: Vec<String> = Vec::new(); // what follows the jump
        let mut pre: Vec<String> = Vec::new(); // definitions before the jump, in the same block
        let ncalls = 1 + self.below(2);
        let mut relay = false;
        for _ in 0..ncalls {
            let a = self.below(3);
            match self.below(8) {
                0 | 1 => calls.push(format!("{late}({a})")),
                2 => calls.extend([">start".to_string(), format!("{late}({a})"), "<".to_string()]),
                3 => calls.extend([format!(">if to say ({a} small pass 5) start"), format!("shout({late}({a}))"), "<".to_string()]),
                4 => {
                    relay = true;
                    calls.push(format!("shout(relay({a}))"));
                }
                5 => {
                    if pre.is_empty() {
                        pre.push(format!("do before(q) start return {late}(q) end"));
                    }
                    calls.push(format!("shout(before({a}))"));
                }
                6 => calls.extend([format!("make r get {late}({a})"), "shout(r)".to_string()]),
                _ => calls.extend([
                    "make j get 0".to_string(),
                    ">jasi (j small pass 2) start".to_string(),
                    "j get j add 1".to_string(),
                    format!("{late}(j)"),
                    "<".to_string(),
                ]),
            }
        }
        let relay_def = format!("do relay(q) start return {late}(q) end");
        if relay && self.ch(1, 2) {
            dead.push(relay_def.clone());
        }
        if self.ch(1, 4) {
            dead.push("shout(\"dead\")".to_string());
        }
        dead.extend(late_def);
        if relay && !dead.contains(&relay_def) {
            dead.push(relay_def);
        }
        if aid_at == 3 {
            if chain {
                dead.push(via_def.clone());
            }
            dead.extend(aid_def.clone());
        }
        if self.ch(1, 4) {
            dead.push(format!("do never() start return {mid}(0) end"));
        }
        // the jump
        let mut jump: Vec<String> = Vec::new();
        match cause {
            0 => jump.push(jump_text(self, true)),
            1 => {
                jump.push(">start".to_string());
                if self.ch(1, 2) {
                    jump.push("shout(\"out\")".to_string());
                }
                jump.push(jump_text(self, false));
                jump.push("<".to_string());
            }
            _ => {
                jump.push(format!(">if to say ({tot} small pass 3) start"));
                jump.push(jump_text(self, false));
                jump.push("<".to_string());
                jump.push(">if not so start".to_string());
                jump.push(jump_text(self, false));
                jump.push("<".to_string());
            }
        }
        // assemble
        let mut t: Vec<String> = vec![">start".to_string(), format!("make {tot} get 0")];
        if shadowed {
            t.push(format!("do {late}(q) start return 0 minus 1 end"));
        }
        if aid_at == 0 {
            t.extend(aid_def.clone());
            if chain {
                t.push(via_def.clone());
            }
        }
        match host {
            0 => t.push(">do outer(p) start".to_string()),
            1 => t.push(">jasi (true) start".to_string()),
            2 => t.extend(["make i get 0".to_string(), ">jasi (i small pass 2) start".to_string(), "i get i add 1".to_string()]),
            _ => t.extend([
                ">do outer(p) start".to_string(),
                "make i get 0".to_string(),
                ">jasi (i small pass p) start".to_string(),
                "i get i add 1".to_string(),
            ]),
        }
        if aid_at == 2 {
            // live, in the enclosing function (host 3: in its loop body, hoisted once per iteration)
            t.extend(aid_def.clone());
            if chain {
                t.push(via_def.clone());
            }
        }
        match nest {
            1 => t.push(">start".to_string()),
            2 => t.push(">if to say (true) start".to_string()),
            _ => {}
        }
        t.extend(pre);
        t.extend(calls);
        t.extend(jump);
        t.extend(dead);
        if nest != 0 {
            t.push("<".to_string());
            if self.ch(1, 2) {
                t.push("shout(\"past\")".to_string());
            }
        }
        if host == 1 {
            t.push("comot".to_string()); // whatever happened above, the loop ends here
        }
        t.push("<".to_string()); // loop body / function body
        match host {
            0 => t.push(self.pick(&["shout(outer(1))", "outer(1)", "make r get outer(2)"]).to_string()),
            3 => {
                t.push("return i".to_string());
                t.push("<".to_string());
                t.push(self.pick(&["shout(outer(2))", "outer(1)", "shout(outer(1))"]).to_string());
            }
            _ => {}
        }
        if aid_at == 1 {
            t.extend(aid_def.clone());
            if chain {
                t.push(via_def.clone());
            }
        }
        if also_live && aid_at != 3 && aid_at != 2 {
            t.push(format!("{aid}(7)"));
        }
        if shadowed {
            t.push(format!("shout({late}(3))"));
        }
        t.push(format!("shout({tot})"));
        t.push("<".to_string());
        self.push_scope();
        self.emit_lines(&t);
        self.env.pop();
        self.note_out(24);
        self.stmts += 12;
        let m = self.cx.mult * 60;
        match self.fx.last_mut() {
            Some(fx) => fx.work += m,
            None => self.est_work += m,
        }
        true
    }


    /// C05 / C02: strings LONGER than the largest pool slot (256 bytes; lengths 250..340 and now and then ~1000)
    /// are built at run time inside a function (loop concatenation, doubling + `slice`, `join`, upper-casing),
    /// RETURNED, and kept as array elements (push, index assignment, array literal, nested array, through a
    /// variable, through a function that stores its parameter in a captured array, in a copy of the array);
    /// then storage is allocated through other names (numbers pushed to another array, more long strings built
    /// and dropped) and each kept element is compared with the same text built in place, measured and (one
    /// time in three) printed. Every element keeps its value until it is itself overwritten. A block of its own
    /// with hand-written names; the generator tracks none of it.
    fn long_rows(&mut self) -> bool {
        if !self.can_out(14) || self.cx.depth >= 4 || self.cx.loops_all >= 2 || self.cx.mult > 4 {
            return false;
        }
        let piece = self.pick(&[" 0123456789", "x", "ab", "Naija "]);
        let how = self.below(4);
        // the argument that makes the result 250..340 bytes long (sometimes short, sometimes ~1000)
        let len = match self.below(10) {
            0 => 40 + self.below(100),
            1 => 900 + self.below(200),
            _ => self.pick(&[250, 255, 256, 257, 258, 264, 300, 336]),
        };
        let len = if len > 400 && piece.len() < 6 && how != 1 { 300 } else { len };
        let n = match how {
            1 => len,
            2 => (len / (piece.len() + 1)).max(1),
            _ => len.saturating_sub(4).div_ceil(piece.len()),
        };
        let mut t: Vec<String> = vec![">start".to_string()];
        let build = |acc: &str, head: &str, count: &str| -> Vec<String> {
            vec![
                format!("make {acc} get {head}"),
                "make k get 0".to_string(),
                format!(">jasi (k small pass {count}) start"),
                format!("{acc} get {acc} add \"{piece}\""),
                "k get k add 1".to_string(),
                "<".to_string(),
            ]
        };
        t.push(">do line(i, n) start".to_string());
        match how {
            0 => {
                t.extend(build("t", "\"row{i}:\"", "n"));
                t.push("return t".to_string());
            }
            1 => {
                t.push("make t get \"d{i}.\"".to_string());
                t.push(">jasi (t.len() small pass n) start".to_string());
                t.push("t get t add t".to_string());
                t.push("<".to_string());
                t.push("return t.slice(0, n)".to_string());
            }
            2 => {
                t.push("make parts get [\"j{i}\"]".to_string());
                t.push("make k get 0".to_string());
                t.push(">jasi (k small pass n) start".to_string());
                t.push(format!("parts.push(\"{piece}\")"));
                t.push("k get k add 1".to_string());
                t.push("<".to_string());
                t.push("return parts.join(\"/\")".to_string());
            }
            _ => {
                t.extend(build("t", "\"row{i}:\"", "n"));
                t.push("return t.to_uppercase()".to_string());
            }
        }
        t.push("<".to_string());
        // the same text without a call: `want` for row i
        let want = |i: usize| -> Vec<String> {
            let mut w = Vec::new();
            match how {
                0 | 3 => {
                    w.extend(build("want", &format!("\"row{i}:\""), &n.to_string()));
                    if how == 3 {
                        w.push("want get want.to_uppercase()".to_string());
                    }
                }
                1 => {
                    w.push(format!("make want get \"d{i}.\""));
                    w.push(format!(">jasi (want.len() small pass {n}) start"));
                    w.push("want get want add want".to_string());
                    w.push("<".to_string());
                    w.push(format!("want get want.slice(0, {n})"));
                }
                _ => {
                    w.push(format!("make want get \"j{i}\""));
                    w.push("make k get 0".to_string());
                    w.push(format!(">jasi (k small pass {n}) start"));
                    w.push(format!("want get want add \"/{piece}\""));
                    w.push("k get k add 1".to_string());
                    w.push("<".to_string());
                }
            }
            w
        };
        t.push("make rows get []".to_string());
        t.push("make nums get []".to_string());
        // places that hold the result of line(i, n): (expression, i)
        let mut places: Vec<(String, usize)> = Vec::new();
        let stores = 1 + self.below(3);
        let mut nrows = 0;
        for i in 0..stores {
            let call = format!("line({i}, {n})");
            match self.below(8) {
                0 | 1 => {
                    t.push(format!("rows.push({call})"));
                    places.push((format!("rows[{nrows}]"), i));
                    nrows += 1;
                }
                2 => {
                    t.push("rows.push(\"\")".to_string());
                    t.push(format!("rows[{nrows}] get {call}"));
                    places.push((format!("rows[{nrows}]"), i));
                    nrows += 1;
                }
                3 if i == 0 => {
                    t.push(format!("rows get [{call}, \"mid\"]"));
                    places.push(("rows[0]".to_string(), i));
                    nrows = 2;
                }
                4 => {
                    t.push(format!("make s{i} get {call}"));
                    t.push(format!("rows.push(s{i})"));
                    places.push((format!("s{i}"), i));
                    places.push((format!("rows[{nrows}]"), i));
                    nrows += 1;
                }
                5 => {
                    t.push(format!("make grid{i} get [[1], []]"));
                    t.push(format!("grid{i}[1].push({call})"));
                    places.push((format!("grid{i}[1][0]"), i));
                }
                6 => {
                    t.push(format!("do keep{i}(v) start rows.push(v) end"));
                    t.push(format!("keep{i}({call})"));
                    places.push((format!("rows[{nrows}]"), i));
                    nrows += 1;
                }
                _ => {
                    t.push(format!("rows.push({call})"));
                    t.push(format!("make kept{i} get rows"));
                    places.push((format!("rows[{nrows}]"), i));
                    places.push((format!("kept{i}[{nrows}]"), i));
                    nrows += 1;
                }
            }
            if self.ch(1, 2) {
                // allocations through another name
                let k = 20 + self.below(30);
                t.push("make c get 0".to_string());
                t.push(format!(">jasi (c small pass {k}) start"));
                t.push("nums.push(c)".to_string());
                t.push("c get c add 1".to_string());
                t.push("<".to_string());
            }
        }
        if self.ch(1, 2) {
            t.push(format!("make junk get line(9, {n})"));
            t.push("nums.push(junk.len())".to_string());
        }
        t.push("nums.push([nums.len(), [1, 2]])".to_string());
        let print = self.ch(1, 3);
        let mut outs = 1;
        let mut last = usize::MAX;
        for (place, i) in places.iter().take(4) {
            if *i != last {
                t.extend(want(*i));
                last = *i;
            }
            t.push(format!("shout({place} na want)"));
            t.push(format!("shout({place}.len())"));
            outs += 2;
            if print {
                t.push(format!("shout({place})"));
                outs += 1;
            }
        }
        t.push("shout(rows.len() add nums.len())".to_string());
        t.push("<".to_string());
        self.push_scope();
        self.emit_lines(&t);
        self.env.pop();
        self.note_out(outs);
        self.stmts += 12;
        let m = self.cx.mult * (200 + 4 * n.min(1100));
        match self.fx.last_mut() {
            Some(fx) => fx.work += m,
            None => self.est_work += m,
        }
        true
    }

    /// C04: ONE string literal with the same `{name}` placeholder several times, evaluated inside a
    /// function that takes the variable from an enclosing scope (block variable, local or parameter of an
    /// enclosing function), called — directly, through other functions, from a recursion — by code whose own
    /// live scope holds a same-named variable (local, parameter, block or loop variable) that is read too.
    /// Every placeholder denotes the lexically enclosing variable. Hand-written names, a block of its own.
    fn interp_twice(&mut self) -> bool {
        if !self.can_out(12) || self.cx.depth >= 4 || self.cx.loops_all >= 3 {
            return false;
        }
        let x = self.pick(&["who", "tag", "n", "s", "msg", "k", "w", "flag"]).to_string();
        let vals: [&str; 4] = match self.below(3) {
            0 => ["\"G\"", "\"C\"", "\"M\"", "\"B\""],
            1 => ["1", "2", "3", "4"],
            _ => ["\"out\"", "7", "true", "[1]"],
        };
        let tmpl = self.pick(&[
            "{@} and {@}",
            "{@}{@}",
            "<{@}|{@}|{@}>",
            "{ @ } + {@}",
            "{@}-{o}-{@}",
            "{o}:{@}:{o}:{@}",
            "{@} {{@}} {@}",
        ]);
        let text = format!("\"{}\"", tmpl.replace('@', &x).replace("{o}", "{v}"));
        // how the function uses the string (v is its parameter)
        let body: Vec<String> = match self.below(6) {
            0 => vec![format!("shout({text})")],
            1 => vec![format!("return {text}")],
            2 => vec![format!("make t get {text}"), "shout(t)".to_string(), "return t".to_string()],
            3 => vec![format!("shout({text}.len())"), format!("return {text} add \"!\"")],
            4 => vec![">if to say (v na v) start".to_string(), format!("return {text}"), "<".to_string(), "return \"\"".to_string()],
            _ => vec![format!("shout([{text}, {x}])"), format!("return \"{{{x}}}\" add {text}")],
        };
        let mut show: Vec<String> = vec![">do show(v) start".to_string()];
        show.extend(body);
        show.push("<".to_string());
        // 0 block variable, 1 parameter of an enclosing function, 2 local of an enclosing function
        let src = self.below(3);
        // the code that holds the same-named variable and (transitively) calls show
        let path = self.below(7);
        let mut user: Vec<String> = Vec::new();
        let mut go: Vec<String> = Vec::new();
        let callee = if self.ch(1, 3) {
            user.push("do relay(v) start return show(v) end".to_string());
            "relay"
        } else {
            "show"
        };
        match path {
            0 => {
                user.extend([
                    ">do caller() start".to_string(),
                    format!("make {x} get {}", vals[1]),
                    format!("shout({x})"),
                    format!("shout({callee}(1))"),
                    format!("shout({x})"),
                    "<".to_string(),
                ]);
                go.push("caller()".to_string());
            }
            1 => {
                user.extend([
                    format!(">do caller({x}) start"),
                    format!("shout({x})"),
                    format!("shout({callee}({x}))"),
                    "<".to_string(),
                ]);
                go.push(format!("caller({})", vals[1]));
            }
            2 => {
                // every activation of walk has its own variable of that name
                user.extend([
                    ">do walk(d) start".to_string(),
                    format!("make {x} get d"),
                    ">if to say (d pass 0) start".to_string(),
                    "walk(d minus 1)".to_string(),
                    "<".to_string(),
                    format!("shout(\"{{{x}}}: \" add to_string({callee}(d)))"),
                    "<".to_string(),
                ]);
                go.push("walk(1)".to_string());
            }
            3 => {
                // a block variable of the caller
                user.extend([
                    ">do caller() start".to_string(),
                    ">start".to_string(),
                    format!("make {x} get {}", vals[1]),
                    format!("shout({x})"),
                    format!("shout({callee}(2))"),
                    "<".to_string(),
                    "<".to_string(),
                ]);
                go.push("caller()".to_string());
            }
            4 => {
                // no function in between: a nested block shadows the name and calls
                go.extend([
                    ">start".to_string(),
                    format!("make {x} get {}", vals[1]),
                    format!("shout({x})"),
                    format!("shout({callee}(3))"),
                    "<".to_string(),
                ]);
            }
            5 => {
                // a loop-body variable, two iterations
                go.extend([
                    "make i get 0".to_string(),
                    ">jasi (i small pass 2) start".to_string(),
                    "i get i add 1".to_string(),
                    format!("make {x} get i"),
                    format!("shout({callee}({x}))"),
                    "<".to_string(),
                ]);
            }
            _ => {
                // two functions deep, each with a variable of that name
                user.extend([
                    ">do mid() start".to_string(),
                    format!("make {x} get {}", vals[2]),
                    format!("shout({callee}({x}))"),
                    format!("return {x}"),
                    "<".to_string(),
                    ">do caller() start".to_string(),
                    format!("make {x} get {}", vals[1]),
                    "shout(mid())".to_string(),
                    format!("shout({x})"),
                    "<".to_string(),
                ]);
                go.push("caller()".to_string());
            }
        }
        let mut t: Vec<String> = vec![">start".to_string()];
        match src {
            0 => {
                t.push(format!("make {x} get {}", vals[0]));
                t.extend(show);
                t.extend(user);
                t.extend(go);
                t.push(format!("shout({x})"));
            }
            _ => {
                // show (and its users) nested in a function that owns the variable
                if src == 1 {
                    t.push(format!(">do owner({x}) start"));
                } else {
                    t.push(">do owner() start".to_string());
                    t.push(format!("make {x} get {}", vals[0]));
                }
                t.extend(show);
                t.extend(user);
                t.extend(go);
                t.push(format!("return {x}"));
                t.push("<".to_string());
                // the outer caller of owner has a variable of that name as well
                t.push(format!("make {x} get {}", vals[3]));
                t.push(if src == 1 { format!("shout(owner({}))", vals[0]) } else { "shout(owner())".to_string() });
                t.push(format!("shout({x})"));
            }
        }
        t.push("<".to_string());
        self.push_scope();
        self.emit_lines(&t);
        self.env.pop();
        self.note_out(12);
        self.stmts += 10;
        let m = self.cx.mult * 40;
        match self.fx.last_mut() {
            Some(fx) => fx.work += m,
            None => self.est_work += m,
        }
        true
    }

    /// C05 / C01: `impure_chain` or `operand_order` (see the end of this file) as a block of its own; the expected
    /// output computed there is not used here — the evaluator model is the reference of the `run` streams.
    fn effect_idiom(&mut self) -> bool {
        if !self.can_out(40) || self.cx.depth >= 4 || self.cx.loops_all >= 2 || self.cx.mult > 3 {
            return false;
        }
        let (lines, exp) = if self.ch(1, 2) { impure_chain(self.rng) } else { operand_order(self.rng) };
        let mut t: Vec<String> = vec![">start".to_string()];
        t.extend(lines);
        t.push("<".to_string());
        self.push_scope();
        self.emit_lines(&t);
        self.env.pop();
        self.note_out(exp.len());
        self.stmts += 12;
        let m = self.cx.mult * 120;
        match self.fx.last_mut() {
            Some(fx) => fx.work += m,
            None => self.est_work += m,
        }
        true
    }

    /// C04: `make x get <literal of type A>` .. `make x get <literal of type B>` IN THE SAME BLOCK re-binds the same
    /// variable whatever the two types are (number -> string -> bool -> array -> null, also the same type twice and a
    /// dynamic initialiser as controls). Functions DEFINED BETWEEN two declarations use the name — plain read,
    /// `{x}` placeholders (once, twice), `typeof`, `x get ..` writes, a read in a function nested in another one —
    /// and are called after the later declarations: they see, and write, the variable as it is then. Hosts: a
    /// block, a function body, a loop body, an if branch.
    fn retype_redeclare(&mut self) -> bool {
        if !self.can_out(30) || self.cx.depth >= 4 || self.cx.loops_all >= 2 || self.cx.mult > 3 {
            return false;
        }
        let (lines, exp) = retype_program(self.rng);
        let mut all: Vec<String> = vec![">start".to_string()];
        all.extend(lines);
        all.push("<".to_string());
        self.push_scope();
        self.emit_lines(&all);
        self.env.pop();
        self.note_out(exp.len());
        self.stmts += 10;
        let m = self.cx.mult * 60;
        match self.fx.last_mut() {
            Some(fx) => fx.work += m,
            None => self.est_work += m,
        }
        true
    }

    /// `make b get a  b[0][1] get 9  shout(a) shout(b)`: copies are independent at every depth.
    fn copy_write_read(&mut self) -> bool {
        let nested = self.ch(1, 2);
        let want = if nested { arr(arr(Ty::Num, 2), 2) } else { arr(self.pick(&[Ty::Num, Ty::Str(false)]), 2) };
        let srcs: Vec<String> = self.vars_of(&want).into_iter().filter(|n| !self.captured(n)).collect();
        let src = if srcs.is_empty() || self.ch(1, 3) {
            let Some(n) = self.name_for(&slack(&want), true) else { return false };
            let e = self.literal(&want, 1);
            if !self.decl_as(&n, &want, e) {
                return false;
            }
            n
        } else {
            self.pick(&srcs)
        };
        let Some(dst) = self.name_for(&slack(&want), false) else { return false };
        if dst == src {
            return false;
        }
        let ty = self.ty_of(&src);
        if !self.decl_as(&dst, &ty, var(&src)) {
            return false;
        }
        let (i, j) = (self.below(2), self.below(2));
        if nested {
            let v = self.num_lit();
            self.line(&format!("{dst}[{i}][{j}] get {}", v.text()));
            if self.ch(1, 2) {
                let x = self.below(9);
                self.line(&format!("{dst}[{}].push({x})", 1 - i));
            }
        } else {
            let el = elem_at(&want, 0);
            let v = self.elem(&el, 1);
            self.line(&format!("{dst}[{i}] get {}", v.text()));
            if self.ch(1, 2) {
                self.line(&format!("{src}.reverse()"));
            }
        }
        self.count();
        self.shout(var(&src));
        self.shout(var(&dst));
        true
    }

    /// `jasi (xs.len() pass 0) start shout(xs.pop()) end` on an array of its own.
    fn drain_loop(&mut self) -> bool {
        let el = self.pick(&[Ty::Num, Ty::Str(false), Ty::Bool]);
        let n = 1 + self.below(4);
        if !self.can_out(n) || self.cx.loops_all >= 3 {
            return false;
        }
        self.open("start");
        self.count();
        self.push_scope();
        let t = arr(el, n);
        let name = self.name_for(&slack(&t), true);
        if let Some(name) = name {
            let mut es = Vec::new();
            for _ in 0..n {
                es.push(self.elem(&elem_at(&t, 0), 1));
            }
            self.declare(&name, t, &Ex::Arr(es));
            self.open(&format!("jasi ({name}.len() pass 0) start"));
            self.count();
            self.note_out(n);
            self.line(&format!("shout({name}.pop())"));
            self.close();
            self.line(&format!("shout({name}.len())"));
            self.note_out(1);
        }
        self.env.pop();
        self.close();
        true
    }

    /// The callee mutates its parameter array; the caller's array stays as it was.
    fn param_mutation(&mut self) -> bool {
        let Some(fname) = self.fn_name(&["poke", "grow", "flip"]) else { return false };
        let el = self.pick(&[Ty::Num, Ty::Str(false)]);
        let t = arr(el.clone(), 1);
        let pn = self.pick(&names_for(&slack(&t))).to_string();
        let in_loop = !self.strict && self.ch(1, 2);
        let fi = self.add_fn(Func { name: fname, params: vec![(pn.clone(), t.clone())], ret: Ty2(Ty::Num), ..Func::default() });
        let v1 = self.elem(&el, 0);
        let v2 = self.elem(&el, 0);
        self.define(fi, &mut |g| {
            if in_loop {
                // R5 relaxed: the parameter grows inside a loop of the callee
                g.line("make i get 0");
                g.open("jasi (i small pass 3) start");
                g.line(&format!("{pn}.push({})", v1.text()));
                g.line("i get i add 1");
                g.close();
            } else {
                g.line(&format!("{pn}.push({})", v1.text()));
            }
            g.line(&format!("{pn}[0] get {}", v2.text()));
            if g.ch(1, 2) {
                g.line(&format!("{pn}.reverse()"));
            }
            if g.can_out(1) && g.ch(1, 2) {
                g.note_out(1);
                g.line(&format!("shout({pn})"));
            }
            g.line(&format!("return {pn}.len()"));
            g.count();
        });
        let args: Vec<String> = self.vars_of(&t).into_iter().filter(|n| self.var(n).is_some_and(|v| v.hi <= 8)).collect();
        let a = if args.is_empty() { self.literal(&t, 0) } else { var(&self.pick(&args)) };
        if self.can_call(fi) {
            self.apply_call(fi);
            let name = self.funcs[fi].name.clone();
            self.shout(call(&name, vec![a.clone()]));
            if matches!(a, Ex::Var(_)) {
                self.shout(a);
            }
        }
        true
    }

    fn number_table(&mut self) -> bool {
        let e = match self.below(6) {
            0 => meth(lit(self.pick(&TO_NUMBER_LITS)), "to_number", vec![]),
            1 => bin(Op::Mod, Ex::Neg(Box::new(num(7))), num(self.pick(&["3", "2.5"]))),
            2 => bin(Op::Mod, num(7), par(bin(Op::Minus, num(0), num(3)))),
            3 => bin(Op::Divide, num(self.below(9) + 1), num(self.pick(&["3", "7", "0.1", "8"]))),
            4 => bin(Op::Na, bin(Op::Times, num("0.1"), num(3)), num("0.3")),
            _ => meth(par(bin(Op::Minus, num(0), num(self.pick(&["2.5", "0.5", "16", "1.5"])))), self.pick(&["abs", "sqrt", "floor", "ceil", "round"]), vec![]),
        };
        self.shout(e)
    }

    fn string_table(&mut self) -> bool {
        let e = match self.below(6) {
            0 => meth(lit(self.pick(&TRIM_LITS)), "trim", vec![]),
            1 => meth(lit(self.pick(&["straße", "ΑΣΣΑΣ ασσας", "Ñañdü Über", "яЯ éÉ", "σς Σ", "MiXeD 123"])), self.pick(&["to_uppercase", "to_lowercase"]), vec![]),
            2 => meth(lit("héllo würld 世界 🌎!"), "slice", vec![num(self.below(8)), num(self.below(16))]),
            3 => {
                let long = !self.strict && self.ch(1, 2); // needles of 17..40 bytes (D-13 is repaired)
                let needle = if long { self.pick(&["würld 世界 🌎 and more", "0123456789abcdefg", "aaaaaaaaaaaaaaaaaaaaaaaaab"]) } else { self.pick(&["wü", "🌎", "", "zz", "世界"]) };
                let hay = if long { "say héllo würld 世界 🌎 and more, 0123456789abcdefgh aaaaaaaaaaaaaaaaaaaaaaaaaaaaab" } else { "héllo würld 世界 🌎" };
                if self.ch(1, 2) { meth(lit(hay), "find", vec![lit(needle)]) } else { meth(lit(hay), "replace", vec![lit(needle), lit(self.pick(&["", "-", "ñ"]))]) }
            }
            4 => meth(meth(lit(self.pick(&["a,b,,c", ",", "", "no sep"])), "split", vec![lit(",")]), "join", vec![lit("|")]),
            _ => call("typeof", vec![self.pick(&[Ex::Null, num(1), lit(""), Ex::Bool(true), Ex::Arr(vec![]), call("command", vec![lit("echo")])])]),
        };
        self.shout(e)
    }

    /// Shapes that used to hit the aliasing defects (D-02) and the liveness defect (D-03b): only
    /// produced when not `strict`.
    fn alias_shapes(&mut self) -> bool {
        let Some(s) = self.name_for(&Ty::Str(false), true) else { return false };
        let (Some(f), Some(id)) = (self.fn_name(&["clobber", "reset"]), self.fn_name(&["id", "same"])) else {
            return false;
        };
        if !self.can_out(4) {
            return false;
        }
        self.reserve_fn(&f);
        self.reserve_fn(&id);
        // first value and replacement of different pool size classes (8/9, 128/129, 160/161 bytes)
        let sizes = [3usize, 7, 8, 40, 127, 128, 159, 160];
        let (la, mut lb) = (self.pick(&sizes), self.pick(&sizes));
        if la + lb > 195 {
            lb = self.pick(&[3, 7, 8]); // R11: even concatenated, nothing much longer than 200 bytes
        }
        let (va, vb) = ("a".repeat(la), "z".repeat(lb));
        let arr_name = self.name_for(&arr(Ty::Str(false), 0), true);
        match (self.below(9), arr_name) {
            (6..=8, Some(a)) => {
                // the same through an array: the callee writes the captured array it also receives
                self.line(&format!("make {a} get [\"{va}\" add \"b\", \"c\"]"));
                self.line(&format!("do {f}(p) start {a}[0] get \"{vb}\" add \"y\"  p.push(\"new\")  return p[0] end"));
                self.line(&format!("shout({f}({a}))  shout({a}[0] add {f}({a}))"));
                self.line(&format!("shout({a})"));
                self.stmts += 5;
                self.note_out(3);
                return true;
            }
            _ => {}
        }
        self.line(&format!("make {s} get \"{va}\" add \"b\""));
        self.line(&format!("do {f}(b) start if to say (b) start {s} get \"{vb}\" add \"y\" end return \"!\" end"));
        self.line(&format!("do {id}(t) start return t end"));
        self.stmts += 3;
        match self.below(6) {
            0 => self.line(&format!("shout({s} add {f}(true))")),
            1 => self.line(&format!("shout([{s}, {f}(true), {s}])")),
            2 => self.line(&format!("shout({s} na {f}(true))")),
            3 => self.line(&format!("{s} get {s}  shout({s})")),
            4 => self.line(&format!("{s} get {id}({s})  shout({id}({s} add \"cd\"))")),
            _ => self.line(&format!("{s} get \"one\" add \"1\"  {f}(false)  shout({s})")),
        }
        self.line(&format!("shout({s})"));
        self.note_out(3);
        self.stmts += 2;
        // the generator does not track these hand-written names any further
        true
    }

    /// Process commands: built, configured, printed, passed around; never run (except as the final error).
    fn cmd_idiom(&mut self) {
        let Some(c) = self.name_for(&Ty::Cmd, true) else { return };
        let prog = self.pick(&["echo", "/bin/true", "ls"]);
        self.declare(&c, Ty::Cmd, &call("command", vec![lit(prog)]));
        let n = 2 + self.below(4);
        for _ in 0..n {
            let m = match self.below(8) {
                0 => format!("arg({})", self.expr(&Ty::Any, 1).text()),
                1 => format!("arg({})", self.str_lit(false, true, false).text()),
                2 => format!("env(\"K{}\", {})", self.below(3), self.expr(&Ty::Any, 1).text()),
                3 => "cwd(\"/tmp\")".to_string(),
                4 => format!("stdin_text({})", self.str_lit(false, false, false).text()),
                5 => format!("timeout_ms({})", 100 * (1 + self.below(9))),
                _ => format!("{}()", self.pick(&CMD_FLAGS)),
            };
            self.line(&format!("{c}.{m}"));
            self.count();
        }
        self.shout(var(&c));
        self.shout(call("typeof", vec![var(&c)]));
        if self.ch(1, 2)
            && let Some(f) = self.fn_name(&["show", "probe"])
        {
            let p = self.pick(&CMD_NAMES);
            self.reserve_fn(&f);
            self.line(&format!("do {f}({p}) start {p}.arg(\"extra\") shout({p}) end"));
            self.line(&format!("{f}({c})  shout({c})"));
            self.note_out(3);
            self.stmts += 3;
        }
        if !self.strict
            && self.ch(1, 2)
            && let Some(f) = self.fn_name(&["mk", "mkcmd"])
            && let Some(k) = self.name_for(&Ty::Cmd, true)
        {
            // R6 relaxed: a command returned from a function
            self.reserve_fn(&f);
            self.line(&format!("do {f}() start make {c} get command(\"echo\") {c}.arg(\"in\") return {c} end"));
            self.line(&format!("make {k} get {f}()  {k}.arg(\"out\")  shout({k})"));
            self.note_out(1);
            self.stmts += 4;
        }
    }

    /// One statement (sequence) that ends the run with a runtime error.
    fn error_stmt(&mut self) {
        self.error_done = true;
        let arrs: Vec<String> = self.vars_of(&arr(Ty::Any, 0)).into_iter().filter(|n| !self.captured(n)).collect();
        let a = if arrs.is_empty() || self.ch(1, 3) {
            match self.name_for(&arr(Ty::Num, 0), true) {
                Some(n) => {
                    self.declare(&n, arr(Ty::Num, 3), &Ex::Arr(vec![num(1), num(2), num(3)]));
                    n
                }
                None => return,
            }
        } else {
            self.pick(&arrs)
        };
        let hi = self.var(&a).map_or(3, |v| v.hi);
        // every spelling of zero (seed C01-c2: a classifier that compares the lexeme with "0")
        let zero = self.pick(&["0", "0.0", "00", "0.00", "000.0", "(2 minus 2)", "0 times 5", "\"\".len()", "[].len()", "(0.0)", "minus 0", "0.5 minus 0.5"]);
        let fname = self.fn_name(&["bad", "oops", "fail"]);
        if let Some(f) = &fname {
            self.reserve_fn(f);
        }
        let wrong = |g: &mut Self, call_text: &str| {
            // R12: a failing method call sits in `shout(..)` / a statement, when strict
            match g.below(if g.strict { 2 } else { 3 }) {
                0 => format!("shout({call_text})"),
                1 => call_text.to_string(),
                _ => format!("make {} get {call_text}", g.pick(&["n", "m", "k"])),
            }
        };
        let kind = self.below(12);
        let tag = match kind {
            0 | 1 => "div_zero",
            2 | 4 => "oob_read",
            3 | 5 => "oob_write",
            6 | 7 => "non_whole_index",
            8 | 9 | 11 => "method_type_mismatch",
            _ => "string_index",
        };
        let text = match kind {
            // one in three: the failing expression is written across two lines and ends LEFT of where it starts
            // (the report of the error has to render a multi-line span; seed C06-e1)
            0 => {
                let nl = if self.ch(1, 3) { "\n" } else { " " };
                format!("shout({} divide{nl}{zero})", self.num_expr(1).text())
            }
            // a store nobody reads whose initialiser traps: literal operands (the analysis can type them), a
            // computed dividend, or behind an unused call — the plan must keep all of them
            1 => {
                let v = self.pick(&["n", "m", "k"]);
                let op = self.pick(&["mod", "divide"]);
                let lit = self.pick(&["1", "7", "2.5", "0", "100"]);
                match (self.below(4), &fname) {
                    (0, _) => format!("make {v} get {lit} {op} {zero}"),
                    (1, Some(f)) => format!("do {f}() start return {lit} {op} {zero} end\nmake {v} get {f}()"),
                    (2, _) => format!("make {v} get 0\n{v} get {lit} {op} {zero}\n{v} get 1"),
                    _ => format!("make {v} get {} {op} {zero}", self.num_expr(1).text()),
                }
            }
            2 => format!("shout({a}[{}])", hi + self.below(3)),
            3 => format!("{a}[{}] get 1", hi + 1 + self.below(50)),
            4 => format!("shout({a}[minus 1])"),
            5 => format!("{a}[0 minus {}] get 0", 1 + self.below(3)),
            6 => format!("shout({a}[{}])", self.pick(&["1.5", "0.5 add 0.25", "0.1", "7 divide 2"])),
            7 => format!("{a}[2.5] get 1"),
            8 | 9 => match fname {
                Some(f) => {
                    let p = self.pick(&["p", "q", "v"]);
                    let (m, arg) = self.pick(&[
                        ("sqrt()", "\"str\""),
                        ("len()", "null"),
                        ("trim()", "7"),
                        ("find(\"a\")", "3.5"),
                        ("sqrt()", "[1, 2]"),
                        ("to_uppercase()", "null"),
                        ("push(1)", "\"s\""),
                        ("pop()", "5"),
                        ("reverse()", "null"),
                        ("abs()", "[]"),
                        ("join(\",\")", "\"ab\""),
                    ]);
                    let body = wrong(self, &format!("{p}.{m}"));
                    format!("do {f}({p}) start {body} shout(\"after\") end\n{f}({arg})")
                }
                None => format!("shout(1 divide {zero})"),
            },
            10 => match fname {
                Some(f) => {
                    let p = self.pick(&["p", "q"]);
                    format!("do {f}({a}, {p}) start shout({a}[{p}]) end\n{f}([1, 2], \"x\")")
                }
                None => format!("shout({a}[99])"),
            },
            _ => {
                // an element / popped value that is not what the method wants
                let m = self.pick(&["nosuch()", "run()", "success()"]);
                let t = wrong(self, &format!("{a}[0].{m}"));
                // written as text: a re-declared number now has the static type of the method call
                for n in ["n", "m", "k"] {
                    if t.starts_with(&format!("make {n} "))
                        && let Some(v) = self.env.last_mut().unwrap().vars.iter_mut().find(|v| v.name == n)
                    {
                        v.st = D;
                    }
                }
                if matches!(self.ty_of(&a), Ty::Arr(e, n) if n > 0 && !matches!(*e, Ty::Bool | Ty::Any | Ty::Bot)) {
                    t
                } else {
                    format!("shout(1 mod {zero})")
                }
            }
        };
        // sometimes only reached on a path taken at run time
        let text = match self.below(5) {
            0 => format!("if to say (1 small pass 2) start\n    {text}\nend"),
            1 if self.cx.loops_all == 0 => {
                format!("make j get 0\njasi (j small pass 4) start\n    j get j add 1\n    if to say (j na 3) start {text} end\nend")
            }
            _ => text,
        };
        if !self.out.ends_with('\n') {
            self.out.push('\n');
        }
        self.out.push_str(&format!("# err:{tag}\n{text}\n"));
        self.stmts += 2;
    }

    fn program(mut self) -> String {
        let max = self.opts.max_stmts.clamp(3, 56);
        // sizes spread over the whole range, most programs in the upper half
        let total = if self.ch(1, 4) { 3 + self.below(max / 2) } else { max / 2 + self.below(max / 2 + 1) };
        self.opts.max_stmts = total;
        let err_at = if self.opts.errors && self.ch(1, 5) { Some(total * (50 + self.below(45)) / 100) } else { None };
        let cmd_at = if self.ch(3, 100) { Some(self.below(total)) } else { None };
        if self.ch(1, 10) {
            self.out.push_str("# generated program\n");
        }
        while self.stmts < total {
            if err_at.is_some_and(|n| self.stmts >= n) && !self.error_done {
                self.error_stmt();
            }
            if cmd_at.is_some_and(|n| self.stmts >= n) && self.env[0].vars.iter().all(|v| v.ty != Ty::Cmd) {
                self.cmd_idiom();
                if self.opts.errors && self.ch(1, 4) && !self.error_done && err_at.is_none() {
                    // the only way a program runs a process: denied by the host policy
                    let c = self.env[0].vars.iter().find(|v| v.ty == Ty::Cmd).map(|v| v.name.clone());
                    if let Some(c) = c {
                        self.out.push_str("# err:process_denied\n");
                        self.line(&format!("shout({c}.run().success())"));
                        self.error_done = true;
                    }
                }
            }
            self.stmt();
        }
        self.flush_pending();
        if self.ch(1, 2) {
            self.out.push_str("shout(\"done\")\n");
        }
        self.out
    }
}

// ------------------------------------------------------------------------------------------------
// Feature detection (cheap, textual) for the evidence counters
// ------------------------------------------------------------------------------------------------

#[derive(Clone, Debug, PartialEq)]
enum Tok {
    Id(String),
    Str(String),
    Num,
    P(char),
}

fn tokens(src: &str) -> Vec<Tok> {
    let b: Vec<char> = src.chars().collect();
    let mut out = Vec::new();
    let mut i = 0;
    while i < b.len() {
        let c = b[i];
        if c == '#' {
            while i < b.len() && b[i] != '\n' && b[i] != '\r' {
                i += 1;
            }
        } else if c == '"' || c == '\'' {
            let mut s = String::new();
            i += 1;
            while i < b.len() && b[i] != c && b[i] != '\n' {
                if b[i] == '\\' && i + 1 < b.len() {
                    s.push('\\');
                    i += 1;
                }
                s.push(b[i]);
                i += 1;
            }
            i += 1;
            out.push(Tok::Str(s));
        } else if c.is_ascii_alphabetic() || c == '_' {
            let st = i;
            while i < b.len() && (b[i].is_ascii_alphanumeric() || b[i] == '_') {
                i += 1;
            }
            out.push(Tok::Id(b[st..i].iter().collect()));
        } else if c.is_ascii_digit() {
            while i < b.len() && (b[i].is_ascii_digit() || (b[i] == '.' && i + 1 < b.len() && b[i + 1].is_ascii_digit())) {
                i += 1;
            }
            out.push(Tok::Num);
        } else {
            if !c.is_whitespace() {
                out.push(Tok::P(c));
            }
            i += 1;
        }
    }
    out
}

const METHOD_FEATURES: [&str; 37] = [
    "len", "slice", "to_uppercase", "to_lowercase", "find", "replace", "trim", "to_number", "split", "abs", "sqrt",
    "floor", "ceil", "round", "push", "pop", "reverse", "join", "arg", "cwd", "env", "stdin_text", "stdin_inherit",
    "stdin_null", "stdout_capture", "stdout_inherit", "stdout_null", "stderr_capture", "stderr_inherit", "stderr_null",
    "timeout_ms", "run", "success", "exit_code", "stdout", "stderr", "nosuch",
];
const ERROR_FEATURES: [&str; 8] = [
    "err:div_zero",
    "err:oob_read",
    "err:oob_write",
    "err:non_whole_index",
    "err:method_type_mismatch",
    "err:string_index",
    "err:process_denied",
    "err:other",
];

/// Names of the constructs a program text contains (statement and expression forms, scoping shapes,
/// builtins `shout typeof ..`, methods `.len ..`, deliberate error markers `err:..`).
pub fn features(src: &str) -> Vec<&'static str> {
    let t = tokens(src);
    let mut f: Vec<&'static str> = Vec::new();
    let mut add = |n: &'static str| {
        if !f.contains(&n) {
            f.push(n);
        }
    };
    let id = |k: usize| match t.get(k) {
        Some(Tok::Id(s)) => s.as_str(),
        _ => "",
    };
    let is = |k: usize, c: char| t.get(k) == Some(&Tok::P(c));
    // block structure: every `start` opens a frame; a frame knows whether it is a function body / loop
    struct Frame {
        func: Option<String>,
        is_loop: bool,
        locals: Vec<String>,
    }
    let mut stack: Vec<Frame> = vec![Frame { func: None, is_loop: false, locals: Vec::new() }];
    let mut pending: Option<Frame> = None;
    let mut defs: Vec<(String, usize)> = Vec::new(); // function name, token index of `do`
    let mut calls: Vec<(String, usize, Vec<String>)> = Vec::new(); // callee, index, enclosing functions
    for k in 0..t.len() {
        match &t[k] {
            Tok::Str(s) => {
                if !s.is_ascii() {
                    add("multibyte_string");
                }
                if s.is_empty() {
                    add("empty_string");
                }
                if s.contains('\\') {
                    add("string_escape");
                } else if s.contains('{') {
                    let mut rest = s.as_str();
                    while let Some(p) = rest.find('{') {
                        let after = &rest[p + 1..];
                        let name: String = after.trim_start().chars().take_while(|c| c.is_ascii_alphanumeric() || *c == '_').collect();
                        let tail = after.trim_start()[name.len()..].trim_start();
                        if !name.is_empty() && !name.starts_with(|c: char| c.is_ascii_digit()) && tail.starts_with('}') && !after.starts_with('{') {
                            add("interpolation");
                        }
                        rest = after.strip_prefix('{').unwrap_or(after);
                    }
                    if s.contains("{{") || s.contains("}}") {
                        add("brace_escape");
                    }
                }
            }
            Tok::Id(w) => match w.as_str() {
                "jasi" => {
                    add("loop");
                    pending = Some(Frame { func: None, is_loop: true, locals: Vec::new() });
                }
                "comot" => add("comot"),
                "next" => add("next"),
                "if" if id(k + 1) == "to" => add("if"),
                "if" if id(k + 1) == "not" => add("else"),
                "do" => {
                    add("function");
                    let name = id(k + 1).to_string();
                    if stack.iter().any(|fr| fr.func.is_some()) {
                        add("nested_function");
                    }
                    if stack.len() > 1 && stack.iter().all(|fr| fr.func.is_none()) {
                        add("function_in_block");
                    }
                    if stack.iter().any(|fr| fr.is_loop) {
                        add("function_in_loop");
                    }
                    let mut params = Vec::new();
                    let mut j = k + 3;
                    while j < t.len() && !is(j, ')') {
                        if let Tok::Id(p) = &t[j] {
                            params.push(p.clone());
                        }
                        j += 1;
                    }
                    defs.push((name.clone(), k));
                    pending = Some(Frame { func: Some(name), is_loop: false, locals: params });
                }
                "start" => {
                    let fr = pending.take().unwrap_or_else(|| {
                        if k == 0 || !is(k - 1, ')') && id(k.wrapping_sub(1)) != "so" {
                            add("block");
                        }
                        Frame { func: None, is_loop: false, locals: Vec::new() }
                    });
                    stack.push(fr);
                }
                "end" => {
                    if stack.len() > 1 {
                        stack.pop();
                    }
                }
                "return" => {
                    add("return");
                    let in_fn = stack.iter().rposition(|fr| fr.func.is_some());
                    if in_fn.is_some_and(|p| stack[p..].iter().any(|fr| fr.is_loop)) {
                        add("return_in_loop");
                    }
                }
                "make" => {
                    add("make");
                    let name = id(k + 1).to_string();
                    if stack.iter().any(|fr| fr.locals.contains(&name)) && !stack.last().unwrap().locals.contains(&name) {
                        add("shadowing");
                    }
                    stack.last_mut().unwrap().locals.push(name);
                }
                "add" | "minus" | "times" | "divide" | "mod" | "na" | "pass" | "and" | "or" | "not" | "true" | "false"
                | "null" | "small" => add(match w.as_str() {
                    "add" => "op_add",
                    "minus" => "op_minus",
                    "times" => "op_times",
                    "divide" => "op_divide",
                    "mod" => "op_mod",
                    "na" => "op_na",
                    "pass" => "op_pass",
                    "small" => "op_small_pass",
                    "and" => "op_and",
                    "or" => "op_or",
                    "not" => "op_not",
                    "null" => "null",
                    _ => "bool",
                }),
                "get" => {
                    // target: `x get`, `x[..] get`, `x[..][..] get`
                    let mut j = k;
                    let mut depth = 0;
                    while j > 0 && is(j - 1, ']') {
                        let mut nest = 0;
                        while j > 0 {
                            j -= 1;
                            if is(j, ']') {
                                nest += 1;
                            } else if is(j, '[') {
                                nest -= 1;
                                if nest == 0 {
                                    break;
                                }
                            }
                        }
                        depth += 1;
                    }
                    if j > 0 {
                        let name = id(j - 1).to_string();
                        if depth == 1 {
                            add("index_assign");
                        } else if depth > 1 {
                            add("array_nested_write");
                        }
                        if !(j >= 2 && id(j - 2) == "make") {
                            if depth == 0 {
                                add("assign");
                            }
                            // captured: not declared inside the innermost enclosing function
                            if let Some(p) = stack.iter().rposition(|fr| fr.func.is_some())
                                && !stack[p..].iter().any(|fr| fr.locals.contains(&name))
                                && !name.is_empty()
                            {
                                add("captured_write");
                            }
                        }
                    }
                }
                name if is(k + 1, '(') && (k == 0 || !is(k - 1, '.')) && id(k.wrapping_sub(1)) != "do" => {
                    match name {
                        "shout" => add("shout"),
                        "typeof" => add("typeof"),
                        "to_string" => add("to_string"),
                        "read_line" => add("read_line"),
                        "command" => add("command"),
                        "say" | "so" | "to" => {}
                        _ => {
                            add("call");
                            let encl: Vec<String> = stack.iter().filter_map(|fr| fr.func.clone()).collect();
                            if encl.iter().any(|e| e == name) {
                                add("recursion");
                            }
                            calls.push((name.to_string(), k, encl));
                        }
                    }
                }
                name if k > 0 && is(k - 1, '.') && is(k + 1, '(') => {
                    if let Some(m) = METHOD_FEATURES.iter().find(|m| **m == name) {
                        add(m);
                    }
                    if k >= 2 && is(k - 2, ']') && matches!(name, "push" | "pop" | "reverse") {
                        add("mutation_through_index_chain");
                    }
                    if matches!(name, "push" | "pop" | "reverse")
                        && let Some(p) = stack.iter().rposition(|fr| fr.func.is_some())
                    {
                        let mut j = k - 1;
                        while j > 0 && !matches!(&t[j - 1], Tok::Id(_)) || (j > 0 && is(j, ']')) {
                            j -= 1;
                        }
                        let root = id(j.saturating_sub(1)).to_string();
                        if k >= 2 && matches!(&t[k - 2], Tok::Id(_)) && !stack[p..].iter().any(|fr| fr.locals.contains(&root)) {
                            add("captured_write");
                        }
                    }
                }
                _ => {}
            },
            Tok::P('[') => {
                if k > 0 && (matches!(&t[k - 1], Tok::Id(_)) && !matches!(id(k - 1), "get" | "return" | "add" | "na" | "and" | "or" | "not" | "pass" | "minus" | "times" | "divide" | "mod") || is(k - 1, ']') || is(k - 1, ')')) {
                    add("index");
                } else {
                    add("array_literal");
                    if is(k + 1, '[') {
                        add("nested_array_literal");
                    }
                }
            }
            _ => {}
        }
    }
    for (callee, at, encl) in &calls {
        // forward call: the textually first definition of that name comes later
        if defs.iter().filter(|d| d.0 == *callee).all(|d| d.1 > *at) && defs.iter().any(|d| d.0 == *callee) {
            add("forward_call");
        }
        // mutual recursion: g called inside f while f is called inside g
        if let Some(me) = encl.last()
            && me != callee
            && calls.iter().any(|(c2, _, e2)| c2 == me && e2.last() == Some(callee))
        {
            add("mutual_recursion");
        }
    }
    for e in ERROR_FEATURES {
        if src.contains(&format!("# {e}")) {
            add(e);
        }
    }
    if src.lines().any(|l| l.trim_start().starts_with('#') || l.contains("  # ")) {
        add("comment");
    }
    f
}

// ------------------------------------------------------------------------------------------------
// The finite C06 product: sink × run-time type × dynamic route
// ------------------------------------------------------------------------------------------------

struct Sink {
    tag: String,
    /// statements using the value, `@` standing for it
    body: String,
    /// 0: any expression, 1: variable or index chain (assignment root), 2: plain identifier
    need: u8,
}

fn sink(tag: impl Into<String>, body: impl Into<String>) -> Sink {
    Sink { tag: tag.into(), body: body.into(), need: 0 }
}

fn product_sinks() -> Vec<Sink> {
    let mut v = Vec::new();
    let partners: [(&str, &[&str]); 10] = [
        ("add", &["1", "\"s\""]),
        ("minus", &["1"]),
        ("times", &["1"]),
        ("divide", &["1"]),
        ("mod", &["1"]),
        ("na", &["1", "\"s\"", "true", "null"]),
        ("pass", &["1", "\"s\"", "true", "null"]),
        ("small pass", &["1", "\"s\"", "true", "null"]),
        ("and", &["true", "false", "null"]),
        ("or", &["true", "false", "null"]),
    ];
    for (op, ps) in partners {
        for p in ps {
            let o = op.replace(' ', "_");
            let pt = p.trim_matches('"');
            v.push(sink(format!("{o}.left.{pt}"), format!("shout(@ {op} {p})")));
            v.push(sink(format!("{o}.right.{pt}"), format!("shout({p} {op} @)")));
        }
    }
    v.push(sink("not", "shout(not @)"));
    v.push(sink("neg", "shout(minus @)"));
    v.push(sink("if", "if to say (@) start shout(\"then\") end if not so start shout(\"else\") end"));
    v.push(sink("jasi", "jasi (@) start shout(\"body\") comot end"));
    v.push(sink("index.base", "shout(@[0])"));
    v.push(sink("index.value", "make arr get [1, 2]\nshout(arr[@])"));
    v.push(Sink { tag: "index_assign.root".into(), body: "@[0] get 1".into(), need: 1 });
    v.push(sink("index_assign.index", "make arr get [1, 2]\narr[@] get 1\nshout(arr)"));
    v.push(sink("index_assign.nested", "make arr get [@]\narr[0][0] get 1\nshout(arr)"));
    for m in METHOD_FEATURES {
        for arity in 0..4 {
            let args = vec!["1"; arity].join(", ");
            v.push(sink(format!("recv.{m}.{arity}"), format!("shout(@.{m}({args}))")));
            if arity > 0 && matches!(m, "find" | "replace" | "split" | "slice" | "join") {
                let args = vec!["\"a\""; arity].join(", ");
                v.push(sink(format!("recv.{m}.{arity}s"), format!("shout(@.{m}({args}))")));
            }
        }
    }
    for (tag, body) in [
        ("arg.find", "shout(\"abc\".find(@))"),
        ("arg.slice.0", "shout(\"abc\".slice(@, 2))"),
        ("arg.slice.1", "shout(\"abc\".slice(0, @))"),
        ("arg.replace.0", "shout(\"abc\".replace(@, \"b\"))"),
        ("arg.replace.1", "shout(\"abc\".replace(\"a\", @))"),
        ("arg.split", "shout(\"a,b\".split(@))"),
        ("arg.join", "shout([\"a\", \"b\"].join(@))"),
        ("arg.join.dyn", "make rr get [[\"a\", \"b\"]]\nshout(rr[0].join(@))"),
        ("arg.push", "make arr get [1, 2]\narr.push(@)\nshout(arr)"),
        ("arg.arg", "make c get command(\"echo\")\nc.arg(@)\nshout(c)"),
        ("arg.cwd", "make c get command(\"echo\")\nc.cwd(@)\nshout(c)"),
        ("arg.cwd.dyn", "make cc get [command(\"echo\")]\ncc[0].cwd(@)\nshout(cc)"),
        ("arg.env.0", "make c get command(\"echo\")\nc.env(@, \"v\")\nshout(c)"),
        ("arg.env.0.dyn", "make cc get [command(\"echo\")]\ncc[0].env(@, \"v\")\nshout(cc)"),
        ("arg.env.1", "make c get command(\"echo\")\nc.env(\"k\", @)\nshout(c)"),
        ("arg.stdin_text", "make c get command(\"echo\")\nc.stdin_text(@)\nshout(c)"),
        ("arg.timeout_ms", "make c get command(\"echo\")\nc.timeout_ms(@)\nshout(c)"),
        ("arg.timeout_ms.dyn", "make cc get [command(\"echo\")]\ncc[0].timeout_ms(@)\nshout(cc)"),
        ("command", "shout(command(@))"),
        ("shout", "shout(@)"),
        ("typeof", "shout(typeof(@))"),
        ("to_string", "shout(to_string(@))"),
        ("read_line", "shout(read_line(@))"),
        ("return", "do back(q) start return q end\nshout(back(@))"),
        ("user_arg_ignored", "do drop(q) start return 1 end\nshout(drop(@))"),
    ] {
        v.push(sink(tag, body));
    }
    v.push(Sink { tag: "interpolation".into(), body: "shout(\"<{@}>\")".into(), need: 2 });
    v
}

const PRODUCT_TYPES: [(&str, &str); 7] = [
    ("number", "7"),
    ("string", "\"str\""),
    ("boolean", "true"),
    ("null", "null"),
    ("array", "[1, 2]"),
    ("process_command", "command(\"echo\")"),
    ("process_result", "command(\"/bin/true\").run()"),
];
const PRODUCT_ROUTES: [&str; 5] = ["parameter", "element", "pop", "mixed_return", "reassigned"];

fn product_program(s: &Sink, ty: &str, value: &str, route: &str) -> String {
    let indent = |text: &str| text.lines().map(|l| format!("    {l}\n")).collect::<String>();
    // bind the routed expression to `v` when the sink needs more than an expression
    let via = |x: &str, is_chain: bool| -> String {
        if s.need == 2 || (s.need == 1 && !is_chain) {
            format!("make v get {x}\n{}", s.body.replace('@', "v"))
        } else {
            s.body.replace('@', x)
        }
    };
    let other = if ty == "number" { "\"z\"" } else { "0" };
    let core = match route {
        "parameter" => format!("do f(p) start\n{}end\nf({value})", indent(&s.body.replace('@', "p"))),
        "element" => format!("make a get [{value}]\n{}", via("a[0]", true)),
        "pop" => format!("make a get [{value}]\n{}", via("a.pop()", false)),
        "mixed_return" => format!(
            "do g(c) start\n    if to say (c) start return {other} end\n    return {value}\nend\n{}",
            via("g(false)", false)
        ),
        _ => format!("make v get {other}\nv get {value}\n{}", s.body.replace('@', "v")),
    };
    format!("shout(\"begin\")\n{core}\nshout(\"done\")\n")
}

/// Numeric boundary operands: (tag, expression text). The language has no exponent syntax and no
/// negative literals: big values are written out, negative ones are `(minus x)`, infinities and NaN
/// are computed (`1e308 times 10`, `inf minus inf`).
fn boundary_numbers() -> Vec<(String, String)> {
    let big = format!("1{}", "0".repeat(308));
    let tiny = format!("0.{}5", "0".repeat(323));
    let inf = format!("({big} times 10)");
    let mut v: Vec<(String, String)> = vec![("0".into(), "0".into()), ("-0".into(), "(minus 0)".into())];
    for (tag, text) in [
        ("1", "1".to_string()),
        ("0.5", "0.5".to_string()),
        ("3", "3".to_string()),
        ("2p31", "2147483648".to_string()),
        ("2p53", "9007199254740992".to_string()),
        ("2p63", "9223372036854775808".to_string()),
        ("2p64", "18446744073709551616".to_string()),
        ("1e308", big.clone()),
        ("inf", inf.clone()),
        ("denormal", tiny),
        // decimal texts just below / above 16, 21 and 32 characters (seed C06-c2: a 32-byte format buffer)
        ("1e15", format!("1{}", "0".repeat(15))),
        ("1e21", format!("1{}", "0".repeat(21))),
        ("1e31", format!("1{}", "0".repeat(31))),
        ("1e32", format!("1{}", "0".repeat(32))),
        ("ulp", "(0.1 add 0.2 minus 0.3)".to_string()),
        ("third", "(1 divide 3)".to_string()),
    ] {
        v.push((tag.to_string(), text.clone()));
        v.push((format!("-{tag}"), format!("(minus {text})")));
    }
    v.push(("nan".into(), format!("({inf} minus {inf})")));
    v
}

/// Numeric boundary family of the C06 product: every arithmetic / comparison operator, unary minus,
/// every number method and every position that casts a number (index, slice bounds, timeout) x the
/// boundary operands, as literals AND routed through parameters. Outputs are compared bit-exactly
/// with the model (`-0` vs `0`, `inf`, `NaN`), a crash is an ORACLE-FAIL.
fn numeric_cases(out: &mut Vec<(String, String)>) {
    let vals = boundary_numbers();
    let ops = ["add", "minus", "times", "na", "pass", "small pass", "divide", "mod"];
    let wrap = |core: &str| format!("shout(\"begin\")\n{core}\nshout(\"done\")\n");
    for (ta, a) in &vals {
        for (tb, b) in &vals {
            let zero_right = tb == "0" || tb == "-0";
            for route in ["literal", "parameter"] {
                let (x, y) = if route == "literal" { (a.as_str(), b.as_str()) } else { ("a", "b") };
                let all: String = ops.iter().map(|op| format!("shout({x} {op} {y})\n")).collect();
                let variants: Vec<(&str, String)> = if zero_right {
                    // `divide` by zero ends the run: `mod` gets a program of its own
                    vec![("ops", all), ("mod", format!("shout({x} mod {y})\n"))]
                } else {
                    vec![("ops", all)]
                };
                for (kind, body) in variants {
                    let core = if route == "literal" {
                        body
                    } else {
                        format!("do f(a, b) start\n{body}end\nf({a}, {b})")
                    };
                    out.push((format!("sink=num.{kind}.{ta}.{tb};type=number;route={route}"), wrap(core.trim_end())));
                }
            }
        }
    }
    for (t, v) in &vals {
        for route in ["literal", "parameter"] {
            let unary = "shout(minus p)\nshout(p.abs())\nshout(p.sqrt())\nshout(p.floor())\nshout(p.ceil())\nshout(p.round())\n\
                         shout(to_string(p))\nshout(\"<{p}>\")\nshout(typeof(p))\nshout([p, p])\nshout(not (p na p))\n\
                         shout(\"s\" add p)\nshout(p add \"s\")\nshout([p, \"x\", p].join(\"-\"))\nshout((\"\" add p).len())\nshout(to_string(p).to_number() na p)\n";
            let sinks: [(&str, &str); 6] = [
                ("unary", unary),
                ("index", "make arr get [1, 2]\nshout(arr[p])\n"),
                ("index_assign", "make arr get [1, 2]\narr[p] get 1\nshout(arr)\n"),
                ("slice.0", "shout(\"abcdef\".slice(p, 2))\n"),
                ("slice.1", "shout(\"abcdef\".slice(0, p))\n"),
                ("timeout_ms", "make c get command(\"echo\")\nc.timeout_ms(p)\nshout(c)\n"),
            ];
            for (kind, body) in sinks {
                let core = if route == "literal" {
                    format!("make p get {v}\n{body}")
                } else {
                    format!("do f(p) start\n{body}end\nf({v})")
                };
                out.push((format!("sink=num.{kind}.{t};type=number;route={route}"), wrap(core.trim_end())));
            }
        }
    }
}

/// Self-mutation family of the C06 product: an index / argument / right-operand expression that
/// MUTATES the array or variable being indexed or used (pop / push / reverse / re-assignment, directly
/// or through a function), on a local, a parameter, a captured variable and inside a loop body. The
/// receiver is read before or after its sub-expressions run: whatever the order, the result is a value
/// or a reported runtime error, and it is the one the model computes.
fn self_mutation_cases(out: &mut Vec<(String, String)>) {
    let helpers = "do shrink() start return xs.pop() end\n\
                   do clear() start\n    xs get []\n    return 0\nend\n\
                   do grow() start\n    xs.push(9)\n    return 0\nend\n\
                   do flip() start\n    xs.reverse()\n    return 0\nend\n\
                   do retype() start\n    xs get \"str\"\n    return 0\nend\n\
                   do two(a, b) start return [a, b] end\n";
    // a string / number variable has no array methods: only the re-assigning helpers
    let scalar_helpers = "do clear() start\n    xs get 7\n    return 0\nend\n\
                          do retype() start\n    xs get \"zz\"\n    return 0\nend\n";
    let nums = "[0, 1, 2]";
    let cases: Vec<(&str, &str, &str)> = vec![
        // (tag, initial value of xs, statement)
        ("index.pop", nums, "shout(xs[xs.pop()])"),
        ("index.pop_minus", nums, "shout(xs[xs.pop() minus 1])"),
        ("index.pop_pop", nums, "shout(xs[xs.pop() minus xs.pop()])"),
        ("index.shrink", nums, "shout(xs[shrink()])"),
        ("index.clear", nums, "shout(xs[clear()])"),
        ("index.grow", nums, "shout(xs[grow() add 3])"),
        ("index.flip", nums, "shout(xs[flip()])"),
        ("index.retype", nums, "shout(xs[retype()])"),
        ("index.len_pop", nums, "shout(xs[xs.len() minus xs.pop()])"),
        ("index.nested_inner", "[[0, 1, 2], [5]]", "shout(xs[0][xs[0].pop()])"),
        ("index.nested_outer", "[[0, 1, 2], [1]]", "shout(xs[xs.pop()[0]][0])"),
        ("index.nested_shrink", "[[0, 1, 2], [1]]", "shout(xs[1][shrink()[0] minus 1])"),
        ("index_assign.pop", nums, "xs[xs.pop()] get 7"),
        ("index_assign.shrink", nums, "xs[shrink()] get 7"),
        ("index_assign.clear", nums, "xs[clear()] get 7"),
        ("index_assign.value_pop", nums, "xs[0] get xs.pop()"),
        ("index_assign.value_shrink", nums, "xs[2] get shrink()"),
        ("index_assign.value_retype", nums, "xs[0] get retype()"),
        ("index_assign.nested", "[[0, 1, 2], [5]]", "xs[0][xs[0].pop()] get 7"),
        ("arg.push_pop", nums, "xs.push(xs.pop())"),
        ("arg.push_shrink", nums, "xs.push(shrink())"),
        ("arg.push_clear", nums, "xs.push(clear())"),
        ("arg.push_retype", nums, "xs.push(retype())"),
        ("arg.nested_push", "[[0, 1, 2], [5]]", "xs[1].push(xs.pop())"),
        ("arg.nested_push_index", "[[0, 1, 2], [5]]", "xs[xs.pop()[0] minus 4].push(1)"),
        ("arg.join", "[\"a\", \"b\", \",\"]", "shout(xs.join(xs.pop()))"),
        ("arg.join_shrink", "[\"a\", \"b\", \",\"]", "shout(xs.join(shrink()))"),
        ("arg.user_first", nums, "shout(two(xs, xs.pop()))"),
        ("arg.user_second", nums, "shout(two(xs.pop(), xs))"),
        ("arg.user_index_after", nums, "shout(two(shrink(), xs[2]))"),
        ("arg.user_index_before", nums, "shout(two(xs[2], shrink()))"),
        ("operand.len_minus_pop", nums, "shout(xs.len() minus xs.pop())"),
        ("operand.pop_minus_len", nums, "shout(xs.pop() minus xs.len())"),
        ("operand.elem_add_shrink", nums, "shout(xs[2] add shrink())"),
        ("operand.shrink_add_elem", nums, "shout(shrink() add xs[1])"),
        ("operand.len_pass_clear", nums, "shout(xs.len() pass clear())"),
        ("operand.and", nums, "shout(xs.len() pass 2 and xs[shrink()] na 2)"),
        ("array_literal", nums, "shout([xs, xs.pop(), xs, xs[shrink()]])"),
        ("string.slice", "\"abcdef\"", "shout(xs.slice(0, retype() add 2))"),
        ("string.add", "\"abcdef\"", "shout(xs add to_string(retype()))"),
        ("string.interp", "\"abcdef\"", "shout(\"{xs}\" add to_string(clear()))"),
        ("number.add_bump", "5", "shout(xs add retype())"),
        ("number.mod_bump", "5", "shout(xs mod (clear() add 2))"),
    ];
    let indent = |text: &str| text.lines().map(|l| format!("    {l}\n")).collect::<String>();
    for (tag, init, stmt) in cases {
        let helpers = if init.starts_with('[') { helpers } else { scalar_helpers };
        let body = format!("{helpers}{stmt}\nshout(xs)\n");
        for route in ["local", "parameter", "captured", "loop"] {
            let core = match route {
                "local" => format!("make xs get {init}\n{body}"),
                "parameter" => format!("do t(xs) start\n{}end\nt({init})\n", indent(&body)),
                "captured" => format!("make xs get {init}\ndo t() start\n{}end\nt()\nshout(xs)\n", indent(&body)),
                _ => format!(
                    "make xs get {init}\n{helpers}make once get true\njasi (once) start\n    once get false\n    {stmt}\n    shout(xs)\nend\nshout(xs)\n"
                ),
            };
            out.push((
                format!("sink=selfmut.{tag};type=array;route={route}"),
                format!("shout(\"begin\")\n{core}shout(\"done\")\n"),
            ));
        }
    }
}

/// Data-shape family of the C06 product: degenerate and nested array shapes (empty, nested empty at every
/// depth and position, emptied at run time by `pop()`, mixed element types) × every array method and every
/// construct that walks a value recursively (`join`, display, interpolation, equality, `to_string`, copy into
/// another array, return from a function), as literals and routed through a parameter (seed C06-d2: a
/// recursive `join` whose inner call skipped the non-empty check of the public entry).
fn data_shape_cases(out: &mut Vec<(String, String)>) {
    let shapes: [(&str, &str); 14] = [
        ("empty", "[]"),
        ("one_empty", "[[]]"),
        ("empty_first", "[[], 1]"),
        ("empty_last", "[1, []]"),
        ("empty_mid", "[\"a\", [], \"b\"]"),
        ("two_empty", "[[], []]"),
        ("deep_empty", "[[[]]]"),
        ("deep_mixed", "[1, [2, [], [3, [[]]]], \"s\"]"),
        ("empty_strings", "[\"\", \"\", []]"),
        ("nulls", "[null, [null], []]"),
        ("bools", "[true, [false, []]]"),
        ("singleton_deep", "[[[[7]]]]"),
        ("wide", "[[], [1], [1, 2], [], [1, 2, 3]]"),
        ("nested_strings", "[[\"x\", [\"y\"]], []]"),
    ];
    let uses = "shout(a.join(\"-\"))\nshout(a.join(\"\"))\nshout(a.len())\nshout(a)\nshout(\"<{a}>\")\nshout(to_string(a))\n\
                shout(typeof(a))\nshout([a, a].join(\"|\"))\nmake b get a\nb.reverse()\nshout(b.join(\",\"))\nshout(a.join(\",\"))\n\
                b.push([])\nshout(b.join(\"+\"))\nshout(b.len())\n";
    for (tag, lit) in shapes {
        for route in ["literal", "parameter", "emptied"] {
            let core = match route {
                "literal" => format!("make a get {lit}\n{uses}"),
                "parameter" => format!("do f(a) start\n{uses}return a end\nshout(f({lit}).join(\"/\"))\n"),
                // the inner arrays lose their elements at run time: the static shape says nothing
                _ => format!(
                    "make a get {lit}\nmake row get [1, 2]\nrow.pop()\nrow.pop()\na.push(row)\nmake filled get [[9]]\nfilled[0].pop()\na.push(filled)\n{uses}"
                ),
            };
            out.push((format!("sink=data.{tag};type=array;route={route}"), format!("shout(\"begin\")\n{core}shout(\"done\")\n")));
        }
    }
}

/// The complete finite C06 product: (tag, program text). Deterministic, no rng.
pub fn product_cases() -> Vec<(String, String)> {
    let mut out = Vec::new();
    numeric_cases(&mut out);
    self_mutation_cases(&mut out);
    data_shape_cases(&mut out);
    for s in product_sinks() {
        for (ty, value) in PRODUCT_TYPES {
            for route in PRODUCT_ROUTES {
                out.push((format!("sink={};type={ty};route={route}", s.tag), product_program(&s, ty, value, route)));
            }
        }
    }
    // statically decidable shapes (D-09c, D-09d, D-09a, D-04): no dynamic route involved
    for (tag, ty, text) in [
        ("add.right.true", "boolean", "shout(\"a\" add true)"),
        ("add.right.null", "null", "shout(\"a\" add null)"),
        ("add.right.array", "array", "shout(\"a\" add [1])"),
        ("add.left.null", "null", "shout(null add \"a\")"),
        ("or.right.number", "number", "shout(null or 1)"),
        ("and.right.number", "number", "shout(null and 1)"),
        ("arg.find", "number", "shout(\"abc\".find(5))"),
        ("arg.slice.0", "string", "shout(\"abc\".slice(\"a\", 1))"),
        ("arg.replace.1", "number", "shout(\"abc\".replace(\"a\", 1))"),
        ("arg.split", "null", "shout(\"abc\".split(null))"),
        ("bare_member", "string", "make x get \"s\"\nshout(x.len)"),
        ("call_of_call", "number", "do f() start return 1 end\nshout(f()())"),
        ("index_assign.call_root", "array", "do f() start return [1] end\nf()[0] get 2"),
        ("comot_in_function_in_loop", "null", "jasi (true) start\n    do f() start comot end\n    f()\n    comot\nend"),
        ("next_in_function_in_loop", "null", "jasi (true) start\n    do f() start next end\n    f()\n    comot\nend"),
        ("call_before_decl", "number", "f()\nmake x get 1\ndo f() start shout(x) end"),
        ("call_before_decl.assign", "number", "f()\nmake x get 1\ndo f() start x get 2 end"),
    ] {
        out.push((
            format!("sink={tag};type={ty};route=literal"),
            format!("shout(\"begin\")\n{text}\nshout(\"done\")\n"),
        ));
    }
    out
}

// ------------------------------------------------------------------------------------------------
// Effect-order families: programs TOGETHER WITH the output that plain value semantics and strict
// left-to-right, evaluate-every-operand-exactly-once evaluation give them (computed here, in Rust,
// while the program is being generated — no model involved).
//
//   * `impure_chain`  — a mutating method (`push` / `pop` / `reverse`), an index ASSIGNMENT or a read whose
//     receiver / target is an index chain `rows[e]`, `grid[e1][e2]`, `grid[e1][e2][k]` in which one or
//     several index expressions are NOT pure: `queue.pop()`, a function popping the queue, a function
//     advancing a cursor kept in a captured array, a function counting in a captured number, a function
//     that prints, the same under arithmetic or as the index of a permutation table. Evaluating an index
//     twice, or the indices in another order, selects another cell and leaves the queue / cursor / counter
//     in another state.
//   * `operand_order` — every construct with several operands (arguments of a user function, elements of
//     an array literal, operands of a binary operator, receiver and arguments of a method, segments of an
//     interpolated string next to another operand) where an EARLIER operand reads a variable — bare, through
//     an index, through `.len()`, through a placeholder — and a LATER operand changes that variable through
//     a capturing function (push / pop / reverse / index write / nested push / reassignment; arrays, nested
//     arrays, strings, numbers). The earlier operand must keep the value it had when it was evaluated.
//
// Both are used twice: as idioms of the typed generator (`Gen::effect_idiom`, the evaluator model is the
// reference) and as C05 template programs with `exp=` (`nvh run gen --kind c05`, tags `c05impure`, `c05order`).
// ------------------------------------------------------------------------------------------------

/// A value of the effect-order programs (`clone` = deep copy).
#[derive(Clone, Debug, PartialEq)]
pub enum Sv {
    N(i64),
    S(String),
    B(bool),
    Null,
    A(Vec<Sv>),
}

impl Sv {
    /// Display text of the real runtime: strings are quoted inside arrays only.
    pub fn show(&self, top: bool) -> String {
        match self {
            Sv::N(n) => n.to_string(),
            Sv::S(s) => {
                if top {
                    s.clone()
                } else {
                    format!("\"{s}\"")
                }
            }
            Sv::B(b) => b.to_string(),
            Sv::Null => "null".to_string(),
            Sv::A(xs) => format!("[{}]", xs.iter().map(|x| x.show(false)).collect::<Vec<_>>().join(", ")),
        }
    }
    fn lit(&self) -> String {
        match self {
            Sv::N(n) if *n < 0 => format!("(minus {})", -n),
            _ => self.show(false),
        }
    }
}

fn sv_scalar(rng: &mut Rng) -> Sv {
    if rng.chance(1, 2) {
        Sv::N(rng.range(0, 99))
    } else {
        Sv::S((*rng.pick(&["p", "qq", "w x", "ab", "zed", ""])).to_string())
    }
}

/// Where the statements of an effect-order program run.
#[derive(Clone, Copy, Debug)]
struct FxWrap {
    /// the steps are the body of `do work() start .. end`, called once (variables are captured)
    in_fn: bool,
    /// the steps are the body of a loop with this many iterations (0: no loop)
    iters: usize,
    /// everything — variables, helper functions, steps — is the body of `do owner() start .. end`
    owner: bool,
}

fn fx_wrap(rng: &mut Rng) -> FxWrap {
    FxWrap { in_fn: rng.chance(1, 3), iters: if rng.chance(1, 3) { 1 + rng.below(2) as usize } else { 0 }, owner: rng.chance(1, 5) }
}

/// Lines in the `emit_lines` format (`>head` opens a block, `<` closes one) around prologue, steps, epilogue.
fn fx_assemble(w: FxWrap, prologue: Vec<String>, steps: Vec<String>, epilogue: Vec<String>) -> Vec<String> {
    let mut t = Vec::new();
    if w.owner {
        t.push(">do owner() start".to_string());
    }
    t.extend(prologue);
    let mut body = Vec::new();
    if w.iters > 0 {
        body.push("make round get 0".to_string());
        body.push(format!(">jasi (round small pass {}) start", w.iters));
        body.push("round get round add 1".to_string());
        body.extend(steps);
        body.push("<".to_string());
    } else {
        body.extend(steps);
    }
    if w.in_fn {
        t.push(">do work() start".to_string());
        t.extend(body);
        t.push("<".to_string());
        t.push("work()".to_string());
    } else {
        t.extend(body);
    }
    t.extend(epilogue);
    if w.owner {
        t.push("<".to_string());
        t.push("owner()".to_string());
    }
    t
}

/// The prologue without the definitions of functions no step calls (`do name(` .. up to its closing line).
fn fx_prune(prologue: Vec<String>, steps: &[String]) -> Vec<String> {
    let used = |name: &str| steps.iter().any(|l| l.contains(&format!("{name}(")));
    let mut out = Vec::new();
    let mut skipping = false;
    for l in prologue {
        let head = l.strip_prefix('>').unwrap_or(&l);
        if let Some(rest) = head.strip_prefix("do ") {
            let name = rest.split('(').next().unwrap_or("");
            let keep = used(name);
            if l.starts_with('>') {
                skipping = !keep;
            }
            if keep {
                out.push(l);
            }
            continue;
        }
        if skipping {
            if l == "<" {
                skipping = false;
            }
            continue;
        }
        out.push(l);
    }
    out
}

/// Plain program text of `emit_lines`-format lines (one statement per line, indented).
pub fn render_lines(lines: &[String]) -> String {
    let mut out = String::new();
    let mut depth = 0usize;
    for l in lines {
        if let Some(head) = l.strip_prefix('>') {
            out.push_str(&"    ".repeat(depth));
            out.push_str(head);
            out.push('\n');
            depth += 1;
        } else if l == "<" {
            depth = depth.saturating_sub(1);
            out.push_str(&"    ".repeat(depth));
            out.push_str("end\n");
        } else {
            out.push_str(&"    ".repeat(depth));
            out.push_str(l);
            out.push('\n');
        }
    }
    out
}

// ---------------------------------------------------------------- impure index chains

/// An index expression and what evaluating it does.
#[derive(Clone, Copy, Debug, PartialEq)]
enum Ix {
    /// `queue.pop()`
    Pop,
    /// `take()` — pops the captured queue inside a function
    Take,
    /// `slot()` — returns the cursor kept in a captured array and advances it
    Slot,
    /// `step()` — increments a captured number, returns it modulo n
    Step,
    /// `say(k)` — prints, returns k
    Say(usize),
    /// `(e add 1) mod n`
    Shift(u8),
    /// `idx[e]` — a pure read of a permutation table at an impure index
    Perm(u8),
    /// a literal (control)
    Lit(usize),
}

#[derive(Clone, Debug)]
enum ChainOp {
    Push(Sv),
    Pop,
    Rev,
    Set(usize, Sv),
    Replace(Vec<Sv>),
    Read(usize),
    Len,
}

#[derive(Clone, Debug)]
struct ChainStep {
    deep: bool,
    ix: Vec<Ix>,
    op: ChainOp,
}

#[derive(Clone, Debug)]
struct ChainState {
    n: usize,
    rows: Vec<Vec<Sv>>,
    grid: Vec<Vec<Vec<Sv>>>,
    queue: Vec<usize>,
    perm: Vec<usize>,
    cur: usize,
    cnt: usize,
    out: Vec<String>,
}

struct ChainNames {
    rows: &'static str,
    grid: &'static str,
    queue: &'static str,
}

impl ChainState {
    fn base(&mut self, k: u8) -> Option<usize> {
        match k {
            0 => self.queue.pop(),
            1 => {
                let c = self.cur;
                self.cur = (c + 1) % self.n;
                Some(c)
            }
            _ => {
                self.cnt += 1;
                Some(self.cnt % self.n)
            }
        }
    }
    fn ix(&mut self, ix: Ix) -> Option<usize> {
        match ix {
            Ix::Pop | Ix::Take => self.base(0),
            Ix::Slot => self.base(1),
            Ix::Step => self.base(2),
            Ix::Say(k) => {
                self.out.push(format!("at {k}"));
                Some(k)
            }
            Ix::Shift(b) => self.base(b).map(|v| (v + 1) % self.n),
            Ix::Perm(b) => self.base(b).map(|v| self.perm[v]),
            Ix::Lit(k) => Some(k),
        }
    }
    /// Evaluate the indices left to right, once each; then the operation on the addressed array.
    fn apply(&mut self, st: &ChainStep) -> Option<()> {
        let mut at = Vec::new();
        for ix in &st.ix {
            at.push(self.ix(*ix)?);
        }
        let cell: &mut Vec<Sv> = if st.deep { self.grid.get_mut(at[0])?.get_mut(at[1])? } else { self.rows.get_mut(at[0])? };
        match &st.op {
            ChainOp::Push(v) => {
                if cell.len() >= 6 {
                    return None;
                }
                cell.push(v.clone());
            }
            ChainOp::Pop => {
                let v = cell.pop()?;
                self.out.push(v.show(true));
            }
            ChainOp::Rev => cell.reverse(),
            ChainOp::Set(k, v) => *cell.get_mut(*k)? = v.clone(),
            ChainOp::Replace(vs) => *cell = vs.clone(),
            ChainOp::Read(k) => {
                let v = cell.get(*k)?.clone();
                self.out.push(v.show(true));
            }
            ChainOp::Len => {
                let n = cell.len();
                self.out.push(n.to_string());
            }
        }
        Some(())
    }
}

fn ix_text(ix: Ix, n: usize, names: &ChainNames) -> String {
    let base = |b: u8| match b {
        0 => format!("{}.pop()", names.queue),
        1 => "slot()".to_string(),
        _ => "step()".to_string(),
    };
    match ix {
        Ix::Pop => base(0),
        Ix::Take => "take()".to_string(),
        Ix::Slot => base(1),
        Ix::Step => base(2),
        Ix::Say(k) => format!("say({k})"),
        Ix::Shift(b) => format!("({} add 1) mod {n}", base(b)),
        Ix::Perm(b) => format!("idx[{}]", base(b)),
        Ix::Lit(k) => k.to_string(),
    }
}

fn chain_text(st: &ChainStep, n: usize, names: &ChainNames) -> String {
    let root = if st.deep { names.grid } else { names.rows };
    let path: String = st.ix.iter().map(|ix| format!("[{}]", ix_text(*ix, n, names))).collect();
    let t = format!("{root}{path}");
    match &st.op {
        ChainOp::Push(v) => format!("{t}.push({})", v.lit()),
        ChainOp::Pop => format!("shout({t}.pop())"),
        ChainOp::Rev => format!("{t}.reverse()"),
        ChainOp::Set(k, v) => format!("{t}[{k}] get {}", v.lit()),
        ChainOp::Replace(vs) => format!("{t} get {}", Sv::A(vs.clone()).lit()),
        ChainOp::Read(k) => format!("shout({t}[{k}])"),
        ChainOp::Len => format!("shout({t}.len())"),
    }
}

fn rand_ix(rng: &mut Rng, n: usize) -> Ix {
    match rng.below(14) {
        0..=2 => Ix::Pop,
        3 => Ix::Take,
        4 | 5 => Ix::Slot,
        6 => Ix::Step,
        7 | 8 => Ix::Say(rng.below(n as u64) as usize),
        9 => Ix::Shift(rng.below(3) as u8),
        10 => Ix::Perm(rng.below(3) as u8),
        11 => Ix::Pop,
        _ => Ix::Lit(rng.below(n as u64) as usize),
    }
}

/// (lines in `emit_lines` format, expected output).
pub fn impure_chain(rng: &mut Rng) -> (Vec<String>, Vec<String>) {
    let n = 2 + rng.below(3) as usize;
    let names = ChainNames {
        rows: rng.pick(&["rows", "buckets", "lanes", "shelf"]),
        grid: rng.pick(&["grid", "cube", "board", "field"]),
        queue: rng.pick(&["queue", "picks", "order", "todo"]),
    };
    let row = |rng: &mut Rng| -> Vec<Sv> { (0..rng.below(3)).map(|_| sv_scalar(rng)).collect() };
    let mut perm: Vec<usize> = (0..n).collect();
    for i in (1..n).rev() {
        perm.swap(i, rng.below(i as u64 + 1) as usize);
    }
    let init = ChainState {
        n,
        rows: (0..n).map(|_| row(rng)).collect(),
        grid: (0..n).map(|_| (0..n).map(|_| row(rng)).collect()).collect(),
        queue: (0..6 + rng.below(8)).map(|_| rng.below(n as u64) as usize).collect(),
        perm,
        cur: rng.below(n as u64) as usize,
        cnt: rng.below(5) as usize,
        out: Vec::new(),
    };
    let nums = |xs: &[usize]| Sv::A(xs.iter().map(|x| Sv::N(*x as i64)).collect());
    let rows_v = |s: &ChainState| Sv::A(s.rows.iter().cloned().map(Sv::A).collect());
    let grid_v = |s: &ChainState| Sv::A(s.grid.iter().map(|p| Sv::A(p.iter().cloned().map(Sv::A).collect())).collect());
    let (rn, gn, qn) = (names.rows, names.grid, names.queue);
    let prologue = vec![
        format!("make {rn} get {}", rows_v(&init).lit()),
        format!("make {gn} get {}", grid_v(&init).lit()),
        format!("make {qn} get {}", nums(&init.queue).lit()),
        format!("make idx get {}", nums(&init.perm).lit()),
        format!("make cur get [{}]", init.cur),
        format!("make cnt get {}", init.cnt),
        ">do slot() start".to_string(),
        "make c get cur[0]".to_string(),
        format!("cur[0] get (c add 1) mod {n}"),
        "return c".to_string(),
        "<".to_string(),
        ">do step() start".to_string(),
        "cnt get cnt add 1".to_string(),
        format!("return cnt mod {n}"),
        "<".to_string(),
        ">do say(k) start".to_string(),
        "shout(\"at {k}\")".to_string(),
        "return k".to_string(),
        "<".to_string(),
        format!("do take() start return {qn}.pop() end"),
    ];
    // the steps, generated by running them: a step that would fail now (empty queue, empty row) is not emitted
    let mut st = init.clone();
    let mut steps: Vec<ChainStep> = Vec::new();
    let want = 3 + rng.below(5);
    let mut tries = 0;
    while (steps.len() as u64) < want && tries < 40 {
        tries += 1;
        let deep = rng.chance(2, 5);
        let mut ix: Vec<Ix> = (0..if deep { 2 } else { 1 }).map(|_| rand_ix(rng, n)).collect();
        if ix.iter().all(|i| matches!(i, Ix::Lit(_))) && rng.chance(4, 5) {
            ix[0] = Ix::Pop;
        }
        let op = match rng.below(12) {
            0..=3 => ChainOp::Push(sv_scalar(rng)),
            4 | 5 => ChainOp::Pop,
            6 => ChainOp::Rev,
            7 | 8 => ChainOp::Set(rng.below(3) as usize, sv_scalar(rng)),
            9 => ChainOp::Replace(row(rng)),
            10 => ChainOp::Read(rng.below(2) as usize),
            _ => ChainOp::Len,
        };
        let step = ChainStep { deep, ix, op };
        let mut probe = st.clone();
        if probe.apply(&step).is_some() {
            st = probe;
            steps.push(step);
        }
    }
    let mut w = fx_wrap(rng);
    // the expected output: every iteration of a loop runs the same statements on the state the previous one left
    let replay = |iters: usize| -> Option<Vec<String>> {
        let mut s = init.clone();
        for _ in 0..iters.max(1) {
            for step in &steps {
                s.apply(step)?;
                let v = if step.deep { grid_v(&s) } else { rows_v(&s) };
                s.out.push(v.show(true));
            }
        }
        let tail = [rows_v(&s), grid_v(&s), nums(&s.queue), Sv::A(vec![Sv::N(s.cur as i64)]), Sv::N(s.cnt as i64)];
        s.out.extend(tail.iter().map(|v| v.show(true)));
        Some(s.out)
    };
    let exp = match replay(w.iters) {
        Some(e) => e,
        None => {
            w.iters = 0;
            replay(0).expect("the steps ran once while they were generated")
        }
    };
    let mut lines: Vec<String> = Vec::new();
    for s in &steps {
        lines.push(chain_text(s, n, &names));
        lines.push(format!("shout({})", if s.deep { gn } else { rn }));
    }
    let epilogue = vec![
        format!("shout({rn})"),
        format!("shout({gn})"),
        format!("shout({qn})"),
        "shout(cur)".to_string(),
        "shout(cnt)".to_string(),
    ];
    let prologue = fx_prune(prologue, &lines);
    (fx_assemble(w, prologue, lines, epilogue), exp)
}

// ---------------------------------------------------------------- operand order

/// Expressions of the operand-order programs.
#[derive(Clone, Debug)]
enum Oe {
    Lit(Sv),
    /// variable by index into `OrderNames::vars` (0 list, 1 nested, 2 string, 3 number)
    Var(usize),
    Idx(Box<Oe>, usize),
    Len(Box<Oe>),
    Arr(Vec<Oe>),
    /// call of an EFFECT function (changes a captured variable) with literal arguments
    Eff(usize, Vec<Sv>),
    /// call of a function that only uses its parameters
    Call(usize, Vec<Oe>),
    Bin(&'static str, Box<Oe>, Box<Oe>),
    Join(Box<Oe>, Box<Oe>),
    Replace(Box<Oe>, &'static str, Box<Oe>),
    Find(Box<Oe>, Box<Oe>),
    /// `"pre{var}post"`
    Interp(usize, &'static str, &'static str),
}

const EFF_NAMES: [&str; 13] =
    ["note", "drop", "flip", "poke", "swap", "sep", "mark", "wipe", "cell", "rename", "retitle", "bump", "unrow"];
/// Variable an effect function changes.
const EFF_TARGET: [usize; 13] = [0, 0, 0, 0, 0, 0, 1, 1, 1, 2, 2, 3, 1];
const CALLEE_NAMES: [&str; 8] = ["report", "pair", "first", "second", "triple", "grow", "head", "size"];

struct OrderNames {
    vars: [&'static str; 4],
}

#[derive(Clone, Debug)]
struct OrderState {
    vars: [Sv; 4],
    /// what `swap()` / `wipe()` / `retitle()` store
    swap_to: Sv,
    wipe_to: Sv,
    title_to: String,
    out: Vec<String>,
}

impl OrderState {
    fn arr_mut(&mut self, v: usize) -> Option<&mut Vec<Sv>> {
        match &mut self.vars[v] {
            Sv::A(xs) => Some(xs),
            _ => None,
        }
    }
    fn row_mut(&mut self, i: usize) -> Option<&mut Vec<Sv>> {
        match self.arr_mut(1)?.get_mut(i)? {
            Sv::A(r) => Some(r),
            _ => None,
        }
    }
    fn int(v: &Sv) -> Option<usize> {
        match v {
            Sv::N(n) if *n >= 0 => Some(*n as usize),
            _ => None,
        }
    }
    fn effect(&mut self, id: usize, args: &[Sv]) -> Option<Sv> {
        Some(match id {
            0 => {
                let l = self.arr_mut(0)?;
                if l.len() >= 8 {
                    return None;
                }
                l.push(args[0].clone());
                Sv::N(l.len() as i64)
            }
            1 => self.arr_mut(0)?.pop()?,
            2 => {
                let l = self.arr_mut(0)?;
                l.reverse();
                Sv::N(l.len() as i64)
            }
            3 => {
                let i = Self::int(&args[0])?;
                *self.arr_mut(0)?.get_mut(i)? = args[1].clone();
                args[1].clone()
            }
            4 => {
                self.vars[0] = self.swap_to.clone();
                Sv::N(0)
            }
            5 => {
                let l = self.arr_mut(0)?;
                if l.len() >= 8 {
                    return None;
                }
                l.push(args[0].clone());
                Sv::S("+".into())
            }
            6 => {
                let r = self.row_mut(Self::int(&args[0])?)?;
                if r.len() >= 6 {
                    return None;
                }
                r.push(args[1].clone());
                Sv::N(r.len() as i64)
            }
            7 => {
                self.vars[1] = self.wipe_to.clone();
                Sv::N(1)
            }
            8 => {
                let j = Self::int(&args[1])?;
                *self.row_mut(Self::int(&args[0])?)?.get_mut(j)? = args[2].clone();
                args[2].clone()
            }
            9 => {
                let (Sv::S(s), Sv::S(v)) = (&self.vars[2], &args[0]) else { return None };
                if s.len() > 40 {
                    return None;
                }
                let t = format!("{s}{v}");
                let n = t.len() as i64;
                self.vars[2] = Sv::S(t);
                Sv::N(n)
            }
            10 => {
                self.vars[2] = Sv::S(self.title_to.clone());
                Sv::S(self.title_to.to_uppercase())
            }
            11 => {
                let Sv::N(k) = self.vars[3] else { return None };
                self.vars[3] = Sv::N(k + 1);
                Sv::N(k + 1)
            }
            _ => self.row_mut(Self::int(&args[0])?)?.pop()?,
        })
    }
    fn callee(&mut self, id: usize, mut a: Vec<Sv>) -> Option<Sv> {
        Some(match id {
            0 => {
                self.out.push(a[0].show(true));
                a.swap_remove(1)
            }
            1 | 4 => Sv::A(a),
            2 => a.swap_remove(0),
            3 => a.swap_remove(1),
            5 => {
                let b = a[1].clone();
                let Sv::A(mut xs) = a.swap_remove(0) else { return None };
                xs.push(b);
                Sv::A(xs)
            }
            6 => match &a[0] {
                Sv::A(xs) => xs.first()?.clone(),
                _ => return None,
            },
            _ => match &a[0] {
                Sv::A(xs) => Sv::N(xs.len() as i64),
                Sv::S(s) => Sv::N(s.len() as i64),
                _ => return None,
            },
        })
    }
    /// Strictly left to right; every operand is a value (a deep copy) from the moment it is evaluated.
    fn eval(&mut self, e: &Oe) -> Option<Sv> {
        Some(match e {
            Oe::Lit(v) => v.clone(),
            Oe::Var(v) => self.vars[*v].clone(),
            Oe::Idx(a, k) => match self.eval(a)? {
                Sv::A(xs) => xs.get(*k)?.clone(),
                _ => return None,
            },
            Oe::Len(a) => match self.eval(a)? {
                Sv::A(xs) => Sv::N(xs.len() as i64),
                Sv::S(s) => Sv::N(s.len() as i64),
                _ => return None,
            },
            Oe::Arr(es) => {
                let mut out = Vec::new();
                for x in es {
                    out.push(self.eval(x)?);
                }
                Sv::A(out)
            }
            Oe::Eff(id, args) => self.effect(*id, args)?,
            Oe::Call(id, args) => {
                let mut vals = Vec::new();
                for x in args {
                    vals.push(self.eval(x)?);
                }
                self.callee(*id, vals)?
            }
            Oe::Bin(op, l, r) => {
                let (a, b) = (self.eval(l)?, self.eval(r)?);
                match (*op, a, b) {
                    ("add", Sv::N(x), Sv::N(y)) => Sv::N(x + y),
                    ("minus", Sv::N(x), Sv::N(y)) => Sv::N(x - y),
                    ("times", Sv::N(x), Sv::N(y)) => Sv::N(x * y),
                    ("na", Sv::N(x), Sv::N(y)) => Sv::B(x == y),
                    ("small pass", Sv::N(x), Sv::N(y)) => Sv::B(x < y),
                    ("pass", Sv::N(x), Sv::N(y)) => Sv::B(x > y),
                    ("add", Sv::S(x), Sv::S(y)) => Sv::S(x + &y),
                    ("add", Sv::S(x), Sv::N(y)) => Sv::S(format!("{x}{y}")),
                    ("na", Sv::S(x), Sv::S(y)) => Sv::B(x == y),
                    _ => return None,
                }
            }
            Oe::Join(a, s) => {
                let (a, s) = (self.eval(a)?, self.eval(s)?);
                let (Sv::A(xs), Sv::S(sep)) = (a, s) else { return None };
                let mut parts = Vec::new();
                for x in xs {
                    let Sv::S(t) = x else { return None };
                    parts.push(t);
                }
                Sv::S(parts.join(&sep))
            }
            Oe::Replace(s, needle, new) => {
                let (s, new) = (self.eval(s)?, self.eval(new)?);
                let (Sv::S(s), Sv::S(new)) = (s, new) else { return None };
                Sv::S(s.replace(needle, &new))
            }
            Oe::Find(s, needle) => {
                let (s, needle) = (self.eval(s)?, self.eval(needle)?);
                let (Sv::S(s), Sv::S(needle)) = (s, needle) else { return None };
                Sv::N(s.find(&needle).map_or(-1, |i| i as i64))
            }
            Oe::Interp(v, pre, post) => Sv::S(format!("{pre}{}{post}", self.vars[*v].show(true))),
        })
    }
}

fn oe_text(e: &Oe, names: &OrderNames) -> String {
    let list = |es: &[Oe]| es.iter().map(|x| oe_text(x, names)).collect::<Vec<_>>().join(", ");
    match e {
        Oe::Lit(v) => v.lit(),
        Oe::Var(v) => names.vars[*v].to_string(),
        Oe::Idx(a, k) => format!("{}[{k}]", oe_text(a, names)),
        Oe::Len(a) => format!("{}.len()", oe_text(a, names)),
        Oe::Arr(es) => format!("[{}]", list(es)),
        Oe::Eff(id, args) => format!("{}({})", EFF_NAMES[*id], args.iter().map(Sv::lit).collect::<Vec<_>>().join(", ")),
        Oe::Call(id, args) => format!("{}({})", CALLEE_NAMES[*id], list(args)),
        Oe::Bin(op, l, r) => format!("({} {op} {})", oe_text(l, names), oe_text(r, names)),
        Oe::Join(a, s) => format!("{}.join({})", oe_text(a, names), oe_text(s, names)),
        Oe::Replace(s, needle, new) => format!("{}.replace(\"{needle}\", {})", oe_text(s, names), oe_text(new, names)),
        Oe::Find(s, needle) => format!("{}.find({})", oe_text(s, names), oe_text(needle, names)),
        Oe::Interp(v, pre, post) => format!("\"{pre}{{{}}}{post}\"", names.vars[*v]),
    }
}

/// An effect call on variable `x` that is possible in state `st` (probed on a copy), with its result kind:
/// 'n' number, 's' string, 'd' anything.
fn rand_effect(rng: &mut Rng, st: &OrderState, x: usize, strings: bool) -> Option<(Oe, char)> {
    for _ in 0..8 {
        let el = |rng: &mut Rng| if strings { Sv::S((*rng.pick(&["p", "qq", "ab", "zed"])).to_string()) } else { Sv::N(rng.range(0, 99)) };
        let small = |rng: &mut Rng| Sv::N(rng.range(0, 2));
        let (id, args, kind): (usize, Vec<Sv>, char) = match x {
            0 => match rng.below(8) {
                0 | 1 => (0, vec![el(rng)], 'n'),
                2 => (1, vec![], 'd'),
                3 => (2, vec![], 'n'),
                4 => (3, vec![small(rng), el(rng)], 'd'),
                5 => (4, vec![], 'n'),
                6 => (5, vec![el(rng)], 's'),
                _ => (0, vec![el(rng)], 'n'),
            },
            1 => match rng.below(5) {
                0 | 1 => (6, vec![small(rng), sv_scalar(rng)], 'n'),
                2 => (7, vec![], 'n'),
                3 => (8, vec![small(rng), small(rng), sv_scalar(rng)], 'd'),
                _ => (12, vec![small(rng)], 'd'),
            },
            2 => {
                if rng.chance(1, 2) {
                    (9, vec![Sv::S((*rng.pick(&["x", "yz", "-a-"])).to_string())], 'n')
                } else {
                    (10, vec![], 's')
                }
            }
            _ => (11, vec![], 'n'),
        };
        let mut probe = st.clone();
        if probe.effect(id, &args).is_some() {
            return Some((Oe::Eff(id, args), kind));
        }
    }
    None
}

/// One multi-operand expression in which an earlier operand reads variable `x` and a later one changes it.
fn rand_order_expr(rng: &mut Rng, st: &OrderState, strings: bool) -> Option<(Oe, usize)> {
    let x = *rng.pick(&[0usize, 0, 0, 1, 1, 2, 2, 3]);
    let (e, kind) = rand_effect(rng, st, x, strings)?;
    let v = || Box::new(Oe::Var(x));
    let two = |rng: &mut Rng| *rng.pick(&[0usize, 1, 2, 3, 1, 0]);
    let expr = match x {
        0 | 1 => match rng.below(14) {
            0..=2 => Oe::Call(two(rng), vec![Oe::Var(x), e]),
            3 => Oe::Call(*rng.pick(&[5usize, 6, 7]), vec![Oe::Var(x), e]),
            4 => Oe::Call(two(rng), vec![e, Oe::Var(x)]),
            5 => Oe::Call(4, vec![Oe::Var(x), e, Oe::Var(x)]),
            6 => Oe::Arr(vec![Oe::Var(x), e]),
            7 => Oe::Arr(vec![Oe::Var(x), e, Oe::Var(x)]),
            8 => Oe::Arr(vec![Oe::Arr(vec![Oe::Var(x)]), e]),
            9 => Oe::Arr(vec![Oe::Idx(v(), 0), e, Oe::Idx(v(), 0)]),
            10 => Oe::Arr(vec![Oe::Len(v()), e, Oe::Len(v())]),
            11 if kind == 'n' => Oe::Bin(*rng.pick(&["add", "minus", "times", "na", "small pass"]), Box::new(Oe::Len(v())), Box::new(e)),
            12 if kind == 's' && strings && x == 0 => Oe::Join(v(), Box::new(e)),
            _ => Oe::Call(1, vec![Oe::Var(x), Oe::Call(two(rng), vec![e, Oe::Var(x)])]),
        },
        2 => match rng.below(10) {
            0 => Oe::Call(two(rng), vec![Oe::Var(x), e]),
            1 => Oe::Arr(vec![Oe::Var(x), e, Oe::Var(x)]),
            2 => Oe::Bin("add", v(), Box::new(e)),
            3 if kind == 's' => Oe::Bin("na", v(), Box::new(e)),
            4 if kind == 's' => Oe::Replace(v(), rng.pick(&["a", "e", "t", "it"]), Box::new(e)),
            5 if kind == 's' => Oe::Find(v(), Box::new(e)),
            6 => Oe::Bin("add", Box::new(Oe::Interp(x, "<", ">")), Box::new(e)),
            7 => Oe::Arr(vec![Oe::Interp(x, "", "!"), e, Oe::Interp(x, "", "")]),
            8 if kind == 'n' => Oe::Bin(*rng.pick(&["add", "minus", "na", "pass"]), Box::new(Oe::Len(v())), Box::new(e)),
            _ => Oe::Call(7, vec![Oe::Var(x), e]),
        },
        _ => match rng.below(6) {
            0 | 1 => Oe::Bin(*rng.pick(&["add", "minus", "times", "na", "small pass", "pass"]), v(), Box::new(e)),
            2 => Oe::Bin(*rng.pick(&["minus", "times", "small pass"]), Box::new(e), v()),
            3 => Oe::Arr(vec![Oe::Var(x), e, Oe::Var(x)]),
            4 => Oe::Bin("add", Box::new(Oe::Interp(x, "k=", "")), Box::new(e)),
            _ => Oe::Call(two(rng), vec![Oe::Var(x), e]),
        },
    };
    Some((expr, x))
}

/// (lines in `emit_lines` format, expected output).
pub fn operand_order(rng: &mut Rng) -> (Vec<String>, Vec<String>) {
    let strings = rng.chance(1, 2);
    let names = OrderNames {
        vars: [
            rng.pick(&["log", "trail", "seen", "items"]),
            rng.pick(&["board", "table", "nest"]),
            rng.pick(&["title", "label", "name"]),
            rng.pick(&["total", "count", "level"]),
        ],
    };
    let el = |rng: &mut Rng| if strings { Sv::S((*rng.pick(&["start", "a", "it", "te"])).to_string()) } else { Sv::N(rng.range(0, 99)) };
    let list = |rng: &mut Rng, lo: u64| Sv::A((0..lo + rng.below(3)).map(|_| el(rng)).collect());
    let nest = |rng: &mut Rng| Sv::A((0..3).map(|_| Sv::A((0..1 + rng.below(3)).map(|_| sv_scalar(rng)).collect())).collect());
    let title = |rng: &mut Rng| (*rng.pick(&["state", "attic", "title", "e", "a tale"])).to_string();
    let init = OrderState {
        vars: [list(rng, 1), nest(rng), Sv::S(title(rng)), Sv::N(rng.range(0, 9))],
        swap_to: list(rng, 0),
        wipe_to: nest(rng),
        title_to: title(rng),
        out: Vec::new(),
    };
    let [l, b, s, k] = names.vars;
    let mut prologue: Vec<String> = (0..4).map(|i| format!("make {} get {}", names.vars[i], init.vars[i].lit())).collect();
    prologue.extend(
        [
            format!("do note(v) start {l}.push(v)  return {l}.len() end"),
            format!("do drop() start return {l}.pop() end"),
            format!(">do flip() start"),
            format!("{l}.reverse()"),
            format!("return {l}.len()"),
            "<".to_string(),
            format!(">do poke(i, v) start"),
            format!("{l}[i] get v"),
            "return v".to_string(),
            "<".to_string(),
            format!(">do swap() start"),
            format!("{l} get {}", init.swap_to.lit()),
            "return 0".to_string(),
            "<".to_string(),
            format!(">do sep(v) start"),
            format!("{l}.push(v)"),
            "return \"+\"".to_string(),
            "<".to_string(),
            format!("do mark(i, v) start {b}[i].push(v)  return {b}[i].len() end"),
            format!(">do wipe() start"),
            format!("{b} get {}", init.wipe_to.lit()),
            "return 1".to_string(),
            "<".to_string(),
            format!(">do cell(i, j, v) start"),
            format!("{b}[i][j] get v"),
            "return v".to_string(),
            "<".to_string(),
            format!("do unrow(i) start return {b}[i].pop() end"),
            format!(">do rename(v) start"),
            format!("{s} get {s} add v"),
            format!("return {s}.len()"),
            "<".to_string(),
            format!(">do retitle() start"),
            format!("{s} get \"{}\"", init.title_to),
            format!("return \"{}\"", init.title_to.to_uppercase()),
            "<".to_string(),
            format!(">do bump() start"),
            format!("{k} get {k} add 1"),
            format!("return {k}"),
            "<".to_string(),
            ">do report(a, b) start".to_string(),
            "shout(a)".to_string(),
            "return b".to_string(),
            "<".to_string(),
            "do pair(a, b) start return [a, b] end".to_string(),
            "do first(a, b) start return a end".to_string(),
            "do second(a, b) start return b end".to_string(),
            "do triple(a, b, c) start return [a, b, c] end".to_string(),
            ">do grow(a, b) start".to_string(),
            "a.push(b)".to_string(),
            "return a".to_string(),
            "<".to_string(),
            "do head(a, b) start return a[0] end".to_string(),
            "do size(a, b) start return a.len() end".to_string(),
            "make kept get [0]".to_string(),
            "make held get null".to_string(),
        ]
        .into_iter(),
    );
    // statements, generated by running them
    #[derive(Clone)]
    struct Step {
        e: Oe,
        x: usize,
        form: u8,
    }
    let run_step = |st: &mut OrderState, step: &Step, kept: &mut Vec<Sv>| -> Option<()> {
        let v = st.eval(&step.e)?;
        match step.form {
            0 | 1 => st.out.push(v.show(true)),
            2 => {
                if kept.len() >= 6 {
                    return None;
                }
                kept.push(v);
                st.out.push(Sv::A(kept.clone()).show(true));
            }
            _ => {
                kept[0] = v;
                st.out.push(Sv::A(kept.clone()).show(true));
            }
        }
        let after = st.vars[step.x].show(true);
        st.out.push(after);
        Some(())
    };
    let mut st = init.clone();
    let mut kept = vec![Sv::N(0)];
    let mut steps: Vec<Step> = Vec::new();
    let want = 3 + rng.below(5);
    let mut tries = 0;
    while (steps.len() as u64) < want && tries < 40 {
        tries += 1;
        let Some((e, x)) = rand_order_expr(rng, &st, strings) else { continue };
        let step = Step { e, x, form: *rng.pick(&[0u8, 0, 0, 1, 2, 3]) };
        let (mut probe, mut pk) = (st.clone(), kept.clone());
        if run_step(&mut probe, &step, &mut pk).is_some() {
            st = probe;
            kept = pk;
            steps.push(step);
        }
    }
    let mut w = fx_wrap(rng);
    let replay = |iters: usize| -> Option<Vec<String>> {
        let (mut s, mut kept) = (init.clone(), vec![Sv::N(0)]);
        for _ in 0..iters.max(1) {
            for step in &steps {
                run_step(&mut s, step, &mut kept)?;
            }
        }
        let tail: Vec<String> = s.vars.iter().map(|v| v.show(true)).collect();
        s.out.extend(tail);
        Some(s.out)
    };
    let exp = match replay(w.iters) {
        Some(e) => e,
        None => {
            w.iters = 0;
            replay(0).expect("the steps ran once while they were generated")
        }
    };
    let mut lines: Vec<String> = Vec::new();
    for step in &steps {
        let t = oe_text(&step.e, &names);
        match step.form {
            0 => lines.push(format!("shout({t})")),
            1 => {
                lines.push(format!("held get {t}"));
                lines.push("shout(held)".to_string());
            }
            2 => {
                lines.push(format!("kept.push({t})"));
                lines.push("shout(kept)".to_string());
            }
            _ => {
                lines.push(format!("kept[0] get {t}"));
                lines.push("shout(kept)".to_string());
            }
        }
        lines.push(format!("shout({})", names.vars[step.x]));
    }
    let epilogue: Vec<String> = names.vars.iter().map(|n| format!("shout({n})")).collect();
    let prologue = fx_prune(prologue, &lines);
    (fx_assemble(w, prologue, lines, epilogue), exp)
}

// ---------------------------------------------------------------- same-block re-declaration at another type

fn sv_typeof(v: &Sv) -> &'static str {
    match v {
        Sv::N(_) => "number",
        Sv::S(_) => "string",
        Sv::B(_) => "boolean",
        Sv::Null => "null",
        Sv::A(_) => "array",
    }
}

/// (lines in `emit_lines` format, expected output) of one re-declaration program (see `Gen::retype_redeclare`).
/// Every name of the program is declared in ONE scope only, so lexical lookup, lookup by resolver binding and
/// lookup by name coincide on it.
pub fn retype_program(rng: &mut Rng) -> (Vec<String>, Vec<String>) {
    let x = *rng.pick(&["x", "v", "item", "cfg", "state", "who"]);
    let values = |rng: &mut Rng, ty: u64| -> Sv {
        match ty {
            0 => Sv::N(*rng.pick(&[1, 42, 7, 0])),
            1 => Sv::S((*rng.pick(&["two", "", "a b"])).to_string()),
            2 => Sv::B(rng.chance(1, 2)),
            3 => rng.pick(&[Sv::A(vec![Sv::N(3)]), Sv::A(vec![]), Sv::A(vec![Sv::S("e".into()), Sv::N(4)])]).clone(),
            _ => Sv::Null,
        }
    };
    let decls = 2 + rng.below(3);
    let mut t: Vec<String> = Vec::new();
    let mut exp: Vec<String> = Vec::new();
    let mut fns: Vec<(String, u8)> = Vec::new();
    let mut cur = Sv::Null;
    let mut last_ty = u64::MAX;
    let mut nfn = 0;
    // what a call of reader `kind` prints now
    let read = |kind: u8, cur: &Sv| -> String {
        let top = cur.show(true);
        match kind {
            0 => top,
            1 => format!("<{top}>"),
            2 => format!("{top}|{top}"),
            3 => sv_typeof(cur).to_string(),
            _ => Sv::A(vec![cur.clone(), Sv::S(top)]).show(true),
        }
    };
    for d in 0..decls {
        // the next type: mostly another definite one, now and then the same one or a dynamic initialiser
        let mut ty = rng.below(5);
        if ty == last_ty && !rng.chance(1, 6) {
            ty = (ty + 1 + rng.below(4)) % 5;
        }
        last_ty = ty;
        let val = values(rng, ty);
        if d > 0 && rng.chance(1, 10) {
            t.push(format!("make {x} get same({})", val.lit()));
            cur = val;
        } else if ty == 1 && rng.chance(1, 6) {
            t.push(format!("make {x} get {} add \"!\"", val.lit()));
            cur = Sv::S(format!("{}!", val.show(true)));
        } else if ty == 0 && rng.chance(1, 6) {
            t.push(format!("make {x} get {} add 1", val.lit()));
            let Sv::N(n) = val else { unreachable!() };
            cur = Sv::N(n + 1);
        } else {
            t.push(format!("make {x} get {}", val.lit()));
            cur = val;
        }
        // everything defined so far is used after this declaration
        if d > 0 {
            for (f, kind) in fns.clone() {
                if exp.len() >= 24 {
                    break;
                }
                if kind == 4 {
                    let nty = rng.below(5);
                    let nv = values(rng, nty);
                    t.push(format!("{f}({})", nv.lit()));
                    t.push(format!("shout({x})"));
                    cur = nv;
                    exp.push(cur.show(true));
                } else {
                    t.push(format!("shout({f}())"));
                    exp.push(read(kind, &cur));
                }
            }
            t.push(format!("shout({x})"));
            t.push(format!("shout(typeof({x}))"));
            exp.push(cur.show(true));
            exp.push(sv_typeof(&cur).to_string());
        }
        if d + 1 < decls {
            // functions defined between this declaration and the next
            for _ in 0..1 + rng.below(2) {
                let kind = rng.below(6) as u8;
                let f = format!("{}{nfn}", ["rd", "ph", "pp", "ty", "wr", "nr"][kind as usize]);
                nfn += 1;
                match kind {
                    0 => t.push(format!("do {f}() start return {x} end")),
                    1 => t.push(format!("do {f}() start return \"<{{{x}}}>\" end")),
                    2 => t.push(format!("do {f}() start return \"{{{x}}}|{{{x}}}\" end")),
                    3 => t.push(format!("do {f}() start return typeof({x}) end")),
                    4 => t.push(format!("do {f}(n) start {x} get n end")),
                    _ => {
                        t.push(format!(">do {f}() start"));
                        t.push(format!("do deep{nfn}() start return [{x}, \"{{{x}}}\"] end"));
                        t.push(format!("return deep{nfn}()"));
                        t.push("<".to_string());
                    }
                }
                fns.push((f.clone(), kind));
                if kind != 4 && rng.chance(1, 3) && exp.len() < 24 {
                    // used before the next declaration as well
                    t.push(format!("shout({f}())"));
                    exp.push(read(kind, &cur));
                }
            }
        }
    }
    let mut all: Vec<String> = Vec::new();
    if t.iter().any(|l| l.contains("same(")) {
        all.push("do same(q) start return q end".to_string());
    }
    match rng.below(5) {
        0 | 1 => all.extend(t),
        2 => {
            all.push(">do redecl() start".to_string());
            all.extend(t);
            all.push(format!("return {x}"));
            all.push("<".to_string());
            all.push("shout(redecl())".to_string());
            exp.push(cur.show(true));
        }
        3 => {
            all.push("make once get true".to_string());
            all.push(">jasi (once) start".to_string());
            all.push("once get false".to_string());
            all.extend(t);
            all.push("<".to_string());
        }
        _ => {
            all.push("make gate get 1".to_string());
            all.push(">if to say (gate na 1) start".to_string());
            all.extend(t);
            all.push("<".to_string());
        }
    }
    (all, exp)
}
