//! Family `bump` (C11): histories over the real `naijascript::arena::Arena` (debug build: the
//! `debug::Arena` wrapper around `bump::Arena`), driven through its public `Allocator` impl,
//! `reset`, `decommit`, `offset` and the read-only hooks `arena_commit/arena_capacity/arena_base`.
//!
//! Protocol (one request per line, one answer per line; `o/c` = `off=<offset> commit=<commit>`):
//! ```text
//! new <cap> <page> [<basemod>]   -> cap=<capacity> basemod=<base % 65536>
//!        a fresh arena; the harness steers the reservation so that base % 65536 == page * 4096
//!        (best effort; the real residue is reported, the optional third word is for the model)
//! alloc|zalloc <bytes> <align>   -> ok beg=<off> len=<n> mod=<addr % align> o/c sum=<digest> | err o/c
//! grow|zgrow <blk> <newSize>     -> ok beg=<off> len=<n> moved=<0|1> o/c sum=<digest> | err o/c
//!        `Allocator::grow` | `Allocator::grow_zeroed` (the new tail must read as zero)
//! shrink <blk> <newSize>         -> ok beg=<off> len=<n> moved=0 o/c            (tail block only)
//! mark                           -> o/c          remember the offset as mark number k (0-based)
//! reset <markNo>                 -> o/c          only to a mark at or below the offset
//! decommit                       -> o/c
//! borrow | release               -> o/c          scratch protocol on this arena: save offset |
//!                                                reset(saved) + decommit()
//! fill <blk> <seed>              -> ok           the owner rewrites its block
//! sum <blk>                      -> <digest> | unreadable      (also for blocks given back)
//! peek <off> <len>               -> <digest> | empty           raw bytes, clipped to commit
//! vec <esz> <n>                  -> ok beg= len= caps=<c1,c2,..> o/c sum= | err caps=.. o/c | ok none o/c
//!        `Vec<uN,&Arena>::new_in`, n pushes (growth through `Allocator::grow`), buffer kept as block
//! vpush <blk> <n>                -> same         re-adopt a `vec` block as a full Vec, push n more
//! ```
//! Block numbers count the `alloc/zalloc/vec` requests of the history (failed ones included).
//! After every successful alloc/grow/vec step the block is filled with a pattern derived from its
//! seed (initially its number); `sum=` is taken before that fill, so it shows what the arena left
//! there (debug fills, zeroes, preserved prefix). Requests outside the allocator's contract are
//! answered `bad-op` and not executed.
//!
//! `run` evaluates an implementation-level oracle that needs no model: every live block inside the
//! committed prefix of the reservation, aligned *absolutely*, pairwise disjoint, pattern intact
//! after every operation; a fresh block begins at the first aligned address at or above the old
//! offset; failure only when that block does not fit, and then offset/commit unchanged; grow
//! preserves the prefix and stays in place at the tail; zeroed blocks are zero. Failures go to
//! stderr as `ORACLE-FAIL <line> <what>`.

use std::alloc::{Allocator, Layout};
use std::ptr::NonNull;

use naijascript::arena::Arena;
use naijascript::arena::verif_hooks as hooks;

use crate::util::{self, Out, Rng};

pub fn main(args: &[String]) -> i32 {
    match args.first().map(String::as_str) {
        Some("gen") => generate(&args[1..]),
        Some("run") => run(),
        _ => {
            eprintln!("usage: nvh bump gen --seed S --n N [--maxlen L] [--bias align] | nvh bump run < requests");
            2
        }
    }
}

/// Constants observed on the compiled crate (debug build) for `Gen/Arena.lean`.
pub fn dump_tables(out: &mut Vec<(String, String)>) {
    let probe = || -> Option<(usize, u8, u8, usize)> {
        let a = Arena::new(1).ok()?;
        let chunk = hooks::arena_capacity(&a);
        let base = hooks::arena_base(&a) as *const u8;
        // first allocation commits one chunk (fresh pages read as zero), the second one runs the
        // debug fill over [offset, end + guard)
        a.allocate(Layout::from_size_align(1, 1).ok()?).ok()?;
        a.allocate(Layout::from_size_align(1, 1).ok()?).ok()?;
        let rd = |i: usize| unsafe { base.add(i).read_volatile() };
        let alloc_fill = rd(1);
        let mut guard = 0usize;
        while 2 + guard < chunk && rd(2 + guard) == alloc_fill {
            guard += 1;
        }
        unsafe { a.reset(0) };
        let free_fill = rd(0);
        Some((chunk, alloc_fill, free_fill, guard))
    };
    if let Some((chunk, af, ff, guard)) = probe() {
        out.push(("arena_chunk".into(), chunk.to_string()));
        out.push(("arena_alloc_fill".into(), af.to_string()));
        out.push(("arena_free_fill".into(), ff.to_string()));
        out.push(("arena_guard".into(), guard.to_string()));
    }
}

// ------------------------------------------------------------------------------------------------
// shared definitions of the protocol (the Lean driver has the same ones)

const CHUNK: usize = 65536;
const MAX_ALIGN: usize = 65536;
const MAX_BYTES: usize = 1 << 40;

fn pat(seed: u64, j: usize) -> u8 {
    let j = j as u64;
    (seed.wrapping_mul(131).wrapping_add(j.wrapping_mul(7)).wrapping_add((j >> 8).wrapping_mul(13)).wrapping_add(17) & 0xFF) as u8
}

fn sampled(beg: usize, len: usize, k: usize) -> bool {
    if len <= 512 || k < 256 || k >= len - 256 || k % 509 == 0 {
        return true;
    }
    let o = (beg + k) % CHUNK;
    o < 64 || o >= CHUNK - 64
}

fn digest_at(base: *const u8, beg: usize, len: usize) -> String {
    let mut h: u64 = 0xcbf2_9ce4_8422_2325;
    for k in 0..len {
        if sampled(beg, len, k) {
            let b = unsafe { base.add(beg + k).read_volatile() };
            h ^= b as u64;
            h = h.wrapping_mul(0x0000_0100_0000_01b3);
        }
    }
    format!("{h:016x}")
}

/// std's `RawVec::grow_amortized` policy (modelled, not verified; the answer carries the observed
/// capacities so a change of policy shows up as such).
fn next_cap(cap: usize, len: usize, esz: usize) -> usize {
    let min_nz = if esz == 1 { 8 } else if esz <= 1024 { 4 } else { 1 };
    (cap * 2).max(len + 1).max(min_nz)
}

// ------------------------------------------------------------------------------------------------
// generator

const ALIGNS: &[usize] = &[1, 1, 1, 2, 4, 8, 8, 8, 16, 16, 32, 64, 128, 256, 512, 1024, 2048, 4096, 4096, 8192, 8192, 16384, 32768, 65536, 65536];
const CAPS: &[usize] = &[1, 65536, 65536, 65537, 100000, 131072, 131072, 196608, 262144];

struct GenSt {
    cap: usize,
    base: usize,
    off: usize,
    commit: usize,
    blocks: Vec<(usize, usize, usize, bool, bool)>, // beg, len, align, live, is_vec
    marks: Vec<usize>,
    borrows: Vec<usize>,
}

impl GenSt {
    fn beg(&self, align: usize) -> usize {
        (self.base + self.off + align - 1) / align * align - self.base
    }
    fn alloc(&mut self, bytes: usize, align: usize, is_vec: bool) -> bool {
        let beg = self.beg(align);
        let end = beg + bytes;
        if end > self.cap {
            self.blocks.push((0, 0, align, false, false));
            return false;
        }
        self.commit = self.commit.max((end + CHUNK - 1) / CHUNK * CHUNK);
        self.off = end;
        self.blocks.push((beg, bytes, align, true, is_vec));
        true
    }
    fn kill_above(&mut self, m: usize) {
        for b in &mut self.blocks {
            if b.0 + b.1 > m {
                b.3 = false;
            }
        }
    }
    fn live(&self) -> Vec<usize> {
        (0..self.blocks.len()).filter(|&i| self.blocks[i].3).collect()
    }
}

fn pick_size(rng: &mut Rng, g: &GenSt, align: usize) -> usize {
    let remaining = g.cap.saturating_sub(g.beg(align));
    let to_commit = g.commit.saturating_sub(g.beg(align));
    let c = rng.below(100);
    let base: usize = match c {
        0..=24 => *rng.pick(&[0usize, 1, 2, 7, 8, 9, 15, 16, 17, 24, 100, 127, 128, 129, 130, 255, 256, 257]),
        25..=34 => *rng.pick(&[align.saturating_sub(1), align, align + 1]),
        35..=44 => *rng.pick(&[4095usize, 4096, 4097, 8191, 8192, 8193]),
        45..=59 => *rng.pick(&[65535usize, 65536, 65537, 65536 - 128, 65536 - 129, 65536 - 127, 131071, 131072, 131073]),
        60..=74 => *rng.pick(&[remaining.saturating_sub(1), remaining, remaining + 1, remaining.saturating_sub(128), remaining / 2]),
        75..=84 => *rng.pick(&[to_commit.saturating_sub(1), to_commit, to_commit + 1, to_commit.saturating_sub(128), to_commit.saturating_sub(127), to_commit.saturating_sub(129)]),
        85..=89 => *rng.pick(&[g.cap.saturating_sub(1), g.cap, g.cap + 1]),
        _ => rng.below(3000) as usize,
    };
    base
}

fn generate(args: &[String]) -> i32 {
    let seed = util::opt_u64(args, "--seed", 1);
    let n = util::opt_u64(args, "--n", 1000);
    let maxlen = util::opt_u64(args, "--maxlen", 40);
    let bias_align = util::opt(args, "--bias") == Some("align");
    let mut rng = Rng::new(seed ^ 0xC11);
    let mut out = Out::new();
    for _ in 0..n {
        let len = 1 + rng.below(maxlen);
        let cap_req = *rng.pick(CAPS);
        let page = if rng.chance(1, 4) { 0 } else { rng.below(16) as usize };
        out.line(&format!("new {cap_req} {page}"));
        let cap = (cap_req.max(1) + CHUNK - 1) / CHUNK * CHUNK;
        let mut g = GenSt { cap, base: page * 4096, off: 0, commit: 0, blocks: vec![], marks: vec![], borrows: vec![] };
        for _ in 0..len {
            let live = g.live();
            let tail: Option<usize> = live.iter().copied().find(|&i| g.blocks[i].0 + g.blocks[i].1 == g.off);
            match rng.below(100) {
                0..=29 => {
                    let align = if bias_align { *rng.pick(&[4096usize, 8192, 16384, 32768, 65536]) } else { *rng.pick(ALIGNS) };
                    let bytes = pick_size(&mut rng, &g, align);
                    let z = rng.chance(1, 4);
                    out.line(&format!("{} {bytes} {align}", if z { "zalloc" } else { "alloc" }));
                    g.alloc(bytes, align, false);
                }
                30..=44 if !live.is_empty() => {
                    // grow: prefer the tail block half of the time
                    let b = match tail {
                        Some(t) if rng.chance(1, 2) => t,
                        _ => *rng.pick(&live),
                    };
                    let (beg, blen, align, _, _) = g.blocks[b];
                    let extra = pick_size(&mut rng, &g, if beg + blen == g.off { 1 } else { align });
                    let new = if rng.chance(1, 8) { blen } else if beg + blen == g.off { blen + extra } else { extra.max(blen) };
                    out.line(&format!("{} {b} {new}", if rng.chance(1, 3) { "zgrow" } else { "grow" }));
                    if beg + blen == g.off {
                        if g.off + (new - blen) <= g.cap {
                            g.off += new - blen;
                            g.commit = g.commit.max((g.off + CHUNK - 1) / CHUNK * CHUNK);
                            g.blocks[b].1 = new;
                        }
                    } else {
                        let nb = g.beg(align);
                        if nb + new <= g.cap {
                            g.off = nb + new;
                            g.commit = g.commit.max((g.off + CHUNK - 1) / CHUNK * CHUNK);
                            g.blocks[b].0 = nb;
                            g.blocks[b].1 = new;
                        }
                    }
                }
                45..=51 if tail.is_some() => {
                    let b = tail.unwrap();
                    let blen = g.blocks[b].1;
                    let new = *rng.pick(&[0usize, blen / 2, blen.saturating_sub(1), blen]);
                    out.line(&format!("shrink {b} {new}"));
                    g.off = g.blocks[b].0 + new;
                    g.blocks[b].1 = new;
                    let m = g.off;
                    let keep = b;
                    for (i, bl) in g.blocks.iter_mut().enumerate() {
                        if i != keep && bl.0 + bl.1 > m {
                            bl.3 = false;
                        }
                    }
                }
                52..=58 => {
                    out.line("mark");
                    g.marks.push(g.off);
                }
                59..=67 if !g.marks.is_empty() => {
                    let k = rng.below(g.marks.len() as u64) as usize;
                    out.line(&format!("reset {k}"));
                    if g.marks[k] <= g.off {
                        g.off = g.marks[k];
                        g.kill_above(g.off);
                    }
                }
                68..=72 => {
                    out.line("decommit");
                    g.commit = g.commit.min((g.off + CHUNK - 1) / CHUNK * CHUNK);
                }
                73..=76 => {
                    out.line("borrow");
                    g.borrows.push(g.off);
                }
                77..=81 if !g.borrows.is_empty() => {
                    out.line("release");
                    let s = g.borrows.pop().unwrap();
                    if s <= g.off {
                        g.off = s;
                        g.kill_above(s);
                        g.commit = g.commit.min((g.off + CHUNK - 1) / CHUNK * CHUNK);
                    }
                }
                82..=84 if !g.blocks.is_empty() => {
                    let b = rng.below(g.blocks.len() as u64);
                    out.line(&format!("fill {b} {}", rng.below(1000)));
                }
                85..=88 if !g.blocks.is_empty() => {
                    let b = rng.below(g.blocks.len() as u64);
                    out.line(&format!("sum {b}"));
                }
                89..=92 => {
                    let around = *rng.pick(&[g.off, g.off.saturating_sub(64), g.commit.saturating_sub(200), 0, g.marks.last().copied().unwrap_or(0)]);
                    out.line(&format!("peek {around} {}", rng.pick(&[64usize, 128, 129, 256, 300])));
                }
                93..=96 => {
                    let esz = *rng.pick(&[1usize, 1, 2, 4, 8]);
                    let cnt = *rng.pick(&[0usize, 1, 5, 9, 17, 33, 100, 1000, 5000, 70000 / esz]);
                    out.line(&format!("vec {esz} {cnt}"));
                    // approximate effect: final capacity by the growth policy
                    let mut capv = 0usize;
                    let mut l = 0usize;
                    while l < cnt {
                        if l == capv {
                            capv = next_cap(capv, l, esz);
                        }
                        l = capv.min(cnt);
                    }
                    if capv == 0 {
                        g.blocks.push((0, 0, esz, false, false));
                    } else {
                        g.alloc(capv * esz, esz, true);
                    }
                }
                _ => {
                    let vecs: Vec<usize> = live.iter().copied().filter(|&i| g.blocks[i].4).collect();
                    if vecs.is_empty() {
                        let align = *rng.pick(&[1usize, 2, 4, 8, 16]);
                        let bytes = rng.below(200) as usize;
                        out.line(&format!("alloc {bytes} {align}"));
                        g.alloc(bytes, align, false);
                    } else {
                        let b = *rng.pick(&vecs);
                        let cnt = *rng.pick(&[1usize, 3, 40, 3000]);
                        out.line(&format!("vpush {b} {cnt}"));
                        // effect not tracked precisely: the block moves unless it is the tail
                        let (beg, blen, align, _, _) = g.blocks[b];
                        let esz = align;
                        let mut capv = blen / esz;
                        let target = capv + cnt;
                        while capv < target {
                            capv = next_cap(capv, capv, esz);
                        }
                        let new = capv * esz;
                        if beg + blen == g.off {
                            if g.off + (new - blen) <= g.cap {
                                g.off += new - blen;
                                g.blocks[b].1 = new;
                            }
                        } else {
                            let nb = g.beg(align);
                            if nb + new <= g.cap {
                                g.off = nb + new;
                                g.blocks[b].0 = nb;
                                g.blocks[b].1 = new;
                            }
                        }
                        g.commit = g.commit.max((g.off + CHUNK - 1) / CHUNK * CHUNK);
                    }
                }
            }
        }
        // close every history with a look at all blocks
        for b in 0..g.blocks.len().min(6) {
            out.line(&format!("sum {b}"));
        }
    }
    0
}

// ------------------------------------------------------------------------------------------------
// runner + oracle

#[derive(Clone)]
struct Blk {
    beg: usize,
    len: usize,
    align: usize,
    seed: u64,
    created: bool,
    live: bool,
    esz: usize, // 0 = not a Vec buffer
}

struct H {
    arena: Option<Box<Arena>>,
    pads: Vec<(*mut libc::c_void, usize)>,
    base: usize,
    cap: usize,
    blocks: Vec<Blk>,
    marks: Vec<usize>,
    borrows: Vec<usize>,
}

impl H {
    fn new() -> Self {
        H { arena: None, pads: vec![], base: 0, cap: 0, blocks: vec![], marks: vec![], borrows: vec![] }
    }
    fn arena(&self) -> &Arena {
        self.arena.as_ref().unwrap()
    }
    fn off(&self) -> usize {
        self.arena().offset()
    }
    fn commit(&self) -> usize {
        hooks::arena_commit(self.arena())
    }
    fn oc(&self) -> String {
        format!("off={} commit={}", self.off(), self.commit())
    }
    fn drop_arena(&mut self) {
        self.arena = None;
        for (p, l) in self.pads.drain(..) {
            unsafe { libc::munmap(p, l) };
        }
    }
    fn bptr(&self, beg: usize) -> *mut u8 {
        (self.base + beg) as *mut u8
    }
    fn spec_beg(&self, off: usize, align: usize) -> usize {
        (self.base + off + align - 1) / align * align - self.base
    }
    fn write_pattern(&self, b: &Blk) {
        let p = self.bptr(b.beg);
        for j in 0..b.len {
            unsafe { p.add(j).write_volatile(pat(b.seed, j)) };
        }
    }
    fn kill_above(&mut self, m: usize, except: Option<usize>) {
        for (i, b) in self.blocks.iter_mut().enumerate() {
            if Some(i) != except && b.live && b.beg + b.len > m {
                b.live = false;
            }
        }
    }

    /// The model-free oracle over all live blocks.
    fn check_all(&self) -> Option<String> {
        let off = self.off();
        let commit = self.commit();
        if !(off <= commit && commit <= self.cap && commit % CHUNK == 0) {
            return Some(format!("arena bookkeeping off={off} commit={commit} cap={}", self.cap));
        }
        let mut ranges: Vec<(usize, usize, usize)> = vec![];
        for (i, b) in self.blocks.iter().enumerate() {
            if !b.live {
                continue;
            }
            if (self.base + b.beg) % b.align != 0 {
                return Some(format!("misaligned block {i}: addr mod {} = {}", b.align, (self.base + b.beg) % b.align));
            }
            if b.beg + b.len > self.cap {
                return Some(format!("out-of-reservation block {i}: [{}, {}) cap {}", b.beg, b.beg + b.len, self.cap));
            }
            if b.beg + b.len > off || b.beg + b.len > commit {
                return Some(format!("block {i} [{}, {}) above offset {off} / commit {commit}", b.beg, b.beg + b.len));
            }
            if b.len > 0 {
                ranges.push((b.beg, b.len, i));
            }
        }
        ranges.sort();
        for w in ranges.windows(2) {
            if w[0].0 + w[0].1 > w[1].0 {
                return Some(format!("overlap of live blocks {} and {}", w[0].2, w[1].2));
            }
        }
        for (i, b) in self.blocks.iter().enumerate() {
            if !b.live {
                continue;
            }
            let p = self.bptr(b.beg);
            for j in 0..b.len {
                if unsafe { p.add(j).read_volatile() } != pat(b.seed, j) {
                    return Some(format!("clobbered live block {i} at byte {j}"));
                }
            }
        }
        None
    }
}

fn run() -> i32 {
    util::silence_panics();
    let lines = util::stdin_lines();
    let mut out = Out::new();
    let mut h = H::new();
    let mut oracle_fails = 0u64;
    let mut skipping = false;
    for (lineno, line) in lines.iter().enumerate() {
        let w: Vec<&str> = line.split_whitespace().collect();
        if matches!(w.first(), Some(&"new")) {
            skipping = false;
        }
        if skipping {
            out.line("skipped");
            continue;
        }
        match util::catch(|| step(&w, &mut h)) {
            Ok((ans, oracle)) => {
                out.line(&ans);
                if let Some(msg) = oracle {
                    oracle_fails += 1;
                    eprintln!("ORACLE-FAIL {} {}", lineno + 1, msg);
                }
            }
            Err(msg) => {
                out.line("panic");
                eprintln!("PANIC {} {}", lineno + 1, msg.replace('\n', " "));
                eprintln!("ORACLE-FAIL {} panic in the arena: {}", lineno + 1, msg.replace('\n', " "));
                oracle_fails += 1;
                skipping = true;
            }
        }
    }
    h.drop_arena();
    eprintln!("ORACLE-SUMMARY fails={oracle_fails} lines={}", lines.len());
    0
}

/// Create the arena so that `base % 65536 == page * 4096` (best effort; the caller reports the
/// real residue). `mmap(NULL, ..)` places a mapping in the highest free gap that fits, so: reserve
/// a larger region, punch a hole of exactly the arena's size at the wanted residue, and plug every
/// other gap the kernel prefers until the arena lands in the hole.
fn steer(h: &mut H, cap_req: usize, page: usize) -> Box<Arena> {
    let probe = Arena::new(cap_req).unwrap();
    let cap = hooks::arena_capacity(&probe);
    drop(probe);
    let map_none = |len: usize| unsafe {
        libc::mmap(std::ptr::null_mut(), len, libc::PROT_NONE, libc::MAP_PRIVATE | libc::MAP_ANONYMOUS, -1, 0)
    };
    let total = cap + 2 * MAX_ALIGN;
    let region = map_none(total);
    if region == libc::MAP_FAILED {
        return Box::new(Arena::new(cap_req).unwrap());
    }
    let a = region as usize;
    let mut t = a / MAX_ALIGN * MAX_ALIGN + page * 4096;
    if t < a {
        t += MAX_ALIGN;
    }
    unsafe { libc::munmap(t as *mut libc::c_void, cap) };
    if t > a {
        h.pads.push((a as *mut libc::c_void, t - a));
    }
    h.pads.push(((t + cap) as *mut libc::c_void, a + total - (t + cap)));
    let mut arena = Box::new(Arena::new(cap_req).unwrap());
    for _ in 0..32 {
        if hooks::arena_base(&arena) as usize == t {
            break;
        }
        drop(arena);
        let plug = map_none(cap);
        if plug != libc::MAP_FAILED {
            if plug as usize == t {
                // the plug itself took the hole: give it back and stop plugging
                unsafe { libc::munmap(plug, cap) };
            } else {
                h.pads.push((plug, cap));
            }
        }
        arena = Box::new(Arena::new(cap_req).unwrap());
    }
    arena
}

fn pow2(x: usize) -> bool {
    x != 0 && x & (x - 1) == 0
}

type Ans = (String, Option<String>);

fn bad() -> Ans {
    ("bad-op".to_string(), None)
}

fn step(w: &[&str], h: &mut H) -> Ans {
    if w.first() != Some(&"new") && h.arena.is_none() {
        return bad();
    }
    match w {
        ["new", cap, page] | ["new", cap, page, _] => {
            let (Ok(cap), Ok(page)) = (cap.parse::<usize>(), page.parse::<usize>()) else { return bad() };
            if cap > (1 << 30) || page > 15 {
                return bad();
            }
            h.drop_arena();
            h.blocks.clear();
            h.marks.clear();
            h.borrows.clear();
            let arena = steer(h, cap, page);
            h.base = hooks::arena_base(&arena) as usize;
            h.cap = hooks::arena_capacity(&arena);
            h.arena = Some(arena);
            let mut oracle = None;
            if h.off() != 0 || h.commit() != 0 || h.cap < cap.max(1) || h.cap % CHUNK != 0 || h.cap >= cap.max(1) + CHUNK {
                oracle = Some(format!("fresh arena: off={} commit={} cap={} for request {cap}", h.off(), h.commit(), h.cap));
            }
            (format!("cap={} basemod={}", h.cap, h.base % MAX_ALIGN), oracle)
        }
        [op @ ("alloc" | "zalloc"), bytes, align] => {
            let (Ok(bytes), Ok(align)) = (bytes.parse::<usize>(), align.parse::<usize>()) else { return bad() };
            if !pow2(align) || align > MAX_ALIGN || bytes > MAX_BYTES {
                return bad();
            }
            let Ok(layout) = Layout::from_size_align(bytes, align) else { return bad() };
            let zeroed = *op == "zalloc";
            let id = h.blocks.len();
            let (off0, commit0) = (h.off(), h.commit());
            let r = if zeroed { h.arena().allocate_zeroed(layout) } else { h.arena().allocate(layout) };
            let want = h.spec_beg(off0, align);
            match r {
                Ok(p) => {
                    let ptr = p.as_ptr() as *mut u8 as usize;
                    let len = p.len();
                    let beg = ptr.wrapping_sub(h.base);
                    let mut oracle = None;
                    if ptr % align != 0 {
                        oracle = Some(format!("misaligned block {id}: addr mod {align} = {}", ptr % align));
                    } else if ptr < h.base || beg + len > h.cap {
                        oracle = Some(format!("out-of-reservation block {id}: [{beg}, {}) cap {}", beg.wrapping_add(len), h.cap));
                    } else if len != bytes {
                        oracle = Some(format!("block {id} has {len} bytes for a request of {bytes}"));
                    } else if beg + len > h.commit() {
                        oracle = Some(format!("block {id} ends above commit {}", h.commit()));
                    } else if beg < off0 {
                        oracle = Some(format!("block {id} begins at {beg} below the old offset {off0}"));
                    } else if beg != want {
                        oracle = Some(format!("block {id} begins at {beg}, first aligned offset at or above {off0} is {want}"));
                    } else if h.off() != beg + len {
                        oracle = Some(format!("offset {} after block [{beg}, {})", h.off(), beg + len));
                    }
                    if oracle.is_some() && (ptr < h.base || beg.saturating_add(len) > h.commit()) {
                        // not safe to touch: record as dead
                        h.blocks.push(Blk { beg: 0, len: 0, align, seed: id as u64, created: false, live: false, esz: 0 });
                        return (format!("ok beg={beg} len={len} mod={} {}", ptr % align, h.oc()), oracle);
                    }
                    if zeroed && oracle.is_none() {
                        let bp = h.bptr(beg);
                        if (0..len).any(|j| unsafe { bp.add(j).read_volatile() } != 0) {
                            oracle = Some(format!("zeroed block {id} is not zero"));
                        }
                    }
                    let sum = digest_at(h.base as *const u8, beg, len);
                    let b = Blk { beg, len, align, seed: id as u64, created: true, live: true, esz: 0 };
                    h.write_pattern(&b);
                    h.blocks.push(b);
                    let oracle = oracle.or_else(|| h.check_all());
                    (format!("ok beg={beg} len={len} mod={} {} sum={sum}", ptr % align, h.oc()), oracle)
                }
                Err(_) => {
                    h.blocks.push(Blk { beg: 0, len: 0, align, seed: id as u64, created: false, live: false, esz: 0 });
                    let mut oracle = None;
                    if h.off() != off0 || h.commit() != commit0 {
                        oracle = Some(format!("failed allocation changed the arena: {} (was off={off0} commit={commit0})", h.oc()));
                    } else if want + bytes <= h.cap {
                        oracle = Some(format!("allocation of {bytes} bytes align {align} failed although [{want}, {}) fits capacity {}", want + bytes, h.cap));
                    }
                    (format!("err {}", h.oc()), oracle.or_else(|| h.check_all()))
                }
            }
        }
        [op @ ("grow" | "zgrow"), blk, new] => {
            let zeroed = *op == "zgrow";
            let (Ok(blk), Ok(new)) = (blk.parse::<usize>(), new.parse::<usize>()) else { return bad() };
            let Some(b) = h.blocks.get(blk).cloned() else { return bad() };
            if !b.live || new < b.len || new > MAX_BYTES {
                return bad();
            }
            let (Ok(old_l), Ok(new_l)) = (Layout::from_size_align(b.len, b.align), Layout::from_size_align(new, b.align)) else { return bad() };
            let (off0, commit0) = (h.off(), h.commit());
            let tail = b.beg + b.len == off0;
            let old_ptr = NonNull::new(h.bptr(b.beg)).unwrap();
            let r = unsafe {
                if zeroed { h.arena().grow_zeroed(old_ptr, old_l, new_l) } else { h.arena().grow(old_ptr, old_l, new_l) }
            };
            match r {
                Ok(p) => {
                    let ptr = p.as_ptr() as *mut u8 as usize;
                    let len = p.len();
                    let beg = ptr.wrapping_sub(h.base);
                    let moved = ptr != old_ptr.as_ptr() as usize;
                    let mut oracle = None;
                    if ptr % b.align != 0 {
                        oracle = Some(format!("misaligned block {blk}: addr mod {} = {}", b.align, ptr % b.align));
                    } else if ptr < h.base || beg + len > h.cap {
                        oracle = Some(format!("out-of-reservation block {blk}: [{beg}, {}) cap {}", beg.wrapping_add(len), h.cap));
                    } else if len != new {
                        oracle = Some(format!("grown block {blk} has {len} bytes for a request of {new}"));
                    } else if beg + len > h.commit() || beg + len > h.off() {
                        oracle = Some(format!("grown block {blk} ends above {}", h.oc()));
                    } else if tail && moved {
                        oracle = Some(format!("tail block {blk} moved on grow"));
                    } else if moved && beg < off0 {
                        oracle = Some(format!("grown block {blk} moved to {beg} below the old offset {off0}"));
                    }
                    if oracle.is_some() && (ptr < h.base || beg.saturating_add(len) > h.commit()) {
                        h.blocks[blk].live = false;
                        return (format!("ok beg={beg} len={len} moved={} {}", moved as u8, h.oc()), oracle);
                    }
                    if oracle.is_none() {
                        let bp = h.bptr(beg);
                        if let Some(j) = (0..b.len).find(|&j| unsafe { bp.add(j).read_volatile() } != pat(b.seed, j)) {
                            oracle = Some(format!("grow of block {blk} lost its contents at byte {j} (moved={})", moved as u8));
                        } else if zeroed
                            && let Some(j) = (b.len..len).find(|&j| unsafe { bp.add(j).read_volatile() } != 0)
                        {
                            oracle = Some(format!("grow_zeroed of block {blk}: byte {j} of the new tail is not zero (moved={})", moved as u8));
                        }
                    }
                    let sum = digest_at(h.base as *const u8, beg, len);
                    h.blocks[blk].beg = beg;
                    h.blocks[blk].len = len;
                    let nb = h.blocks[blk].clone();
                    h.write_pattern(&nb);
                    let oracle = oracle.or_else(|| h.check_all());
                    (format!("ok beg={beg} len={len} moved={} {} sum={sum}", moved as u8, h.oc()), oracle)
                }
                Err(_) => {
                    let mut oracle = None;
                    let fits = if tail { off0 + (new - b.len) <= h.cap } else { h.spec_beg(off0, b.align) + new <= h.cap };
                    if h.off() != off0 || h.commit() != commit0 {
                        oracle = Some(format!("failed grow changed the arena: {} (was off={off0} commit={commit0})", h.oc()));
                    } else if fits {
                        oracle = Some(format!("grow of block {blk} to {new} failed although it fits capacity {}", h.cap));
                    }
                    (format!("err {}", h.oc()), oracle.or_else(|| h.check_all()))
                }
            }
        }
        ["shrink", blk, new] => {
            let (Ok(blk), Ok(new)) = (blk.parse::<usize>(), new.parse::<usize>()) else { return bad() };
            let Some(b) = h.blocks.get(blk).cloned() else { return bad() };
            if !b.live || new > b.len || b.beg + b.len != h.off() {
                return bad();
            }
            let (Ok(old_l), Ok(new_l)) = (Layout::from_size_align(b.len, b.align), Layout::from_size_align(new, b.align)) else { return bad() };
            let old_ptr = NonNull::new(h.bptr(b.beg)).unwrap();
            let r = unsafe { h.arena().shrink(old_ptr, old_l, new_l) };
            match r {
                Ok(p) => {
                    let ptr = p.as_ptr() as *mut u8 as usize;
                    let len = p.len();
                    let mut oracle = None;
                    if ptr != old_ptr.as_ptr() as usize || len != new {
                        oracle = Some(format!("shrink of tail block {blk} returned [{}, +{len})", ptr.wrapping_sub(h.base)));
                    } else if h.off() != b.beg + new {
                        oracle = Some(format!("offset {} after shrinking tail block to end {}", h.off(), b.beg + new));
                    }
                    h.blocks[blk].len = new;
                    let m = h.off();
                    h.kill_above(m, Some(blk));
                    (format!("ok beg={} len={len} moved=0 {}", ptr.wrapping_sub(h.base), h.oc()), oracle.or_else(|| h.check_all()))
                }
                Err(_) => (format!("err {}", h.oc()), Some("shrink failed".into())),
            }
        }
        ["mark"] => {
            h.marks.push(h.off());
            (h.oc(), None)
        }
        ["reset", k] => {
            let Ok(k) = k.parse::<usize>() else { return bad() };
            let Some(&m) = h.marks.get(k) else { return bad() };
            if m > h.off() {
                return bad();
            }
            let commit0 = h.commit();
            unsafe { h.arena().reset(m) };
            h.kill_above(m, None);
            let mut oracle = None;
            if h.off() != m || h.commit() != commit0 {
                oracle = Some(format!("after reset to {m}: {}", h.oc()));
            }
            (h.oc(), oracle.or_else(|| h.check_all()))
        }
        ["decommit"] => {
            let off0 = h.off();
            let commit0 = h.commit();
            h.arena().decommit();
            let mut oracle = None;
            if h.off() != off0 || h.commit() > commit0 {
                oracle = Some(format!("after decommit: {} (was off={off0} commit={commit0})", h.oc()));
            }
            (h.oc(), oracle.or_else(|| h.check_all()))
        }
        ["borrow"] => {
            h.borrows.push(h.off());
            (h.oc(), None)
        }
        ["release"] => {
            let Some(saved) = h.borrows.pop() else { return bad() };
            if saved > h.off() {
                return bad();
            }
            // what `ScratchArena::drop` does
            unsafe { h.arena().reset(saved) };
            h.arena().decommit();
            h.kill_above(saved, None);
            let mut oracle = None;
            if h.off() != saved {
                oracle = Some(format!("after release to {saved}: {}", h.oc()));
            }
            (h.oc(), oracle.or_else(|| h.check_all()))
        }
        ["fill", blk, seed] => {
            let (Ok(blk), Ok(seed)) = (blk.parse::<usize>(), seed.parse::<u64>()) else { return bad() };
            let Some(b) = h.blocks.get_mut(blk) else { return bad() };
            if !b.live {
                return bad();
            }
            b.seed = seed;
            let b = b.clone();
            h.write_pattern(&b);
            ("ok".into(), h.check_all())
        }
        ["sum", blk] => {
            let Ok(blk) = blk.parse::<usize>() else { return bad() };
            let Some(b) = h.blocks.get(blk) else { return bad() };
            if !b.created {
                return bad();
            }
            if b.beg + b.len > h.commit() {
                return ("unreadable".into(), None);
            }
            (digest_at(h.base as *const u8, b.beg, b.len), None)
        }
        ["peek", off, len] => {
            let (Ok(off), Ok(len)) = (off.parse::<usize>(), len.parse::<usize>()) else { return bad() };
            if len > (1 << 20) || off > (1 << 40) {
                return bad();
            }
            let hi = (off + len).min(h.commit());
            if off >= hi {
                return ("empty".into(), None);
            }
            (digest_at(h.base as *const u8, off, hi - off), None)
        }
        ["vec", esz, n] => {
            let (Ok(esz), Ok(n)) = (esz.parse::<usize>(), n.parse::<usize>()) else { return bad() };
            if n > (1 << 20) {
                return bad();
            }
            let id = h.blocks.len();
            h.blocks.push(Blk { beg: 0, len: 0, align: esz.max(1), seed: id as u64, created: false, live: false, esz });
            match esz {
                1 => vec_run::<u8>(h, id, n, |s, i| pat(s, i)),
                2 => vec_run::<u16>(h, id, n, |s, i| u16::from_le_bytes(std::array::from_fn(|k| pat(s, 2 * i + k)))),
                4 => vec_run::<u32>(h, id, n, |s, i| u32::from_le_bytes(std::array::from_fn(|k| pat(s, 4 * i + k)))),
                8 => vec_run::<u64>(h, id, n, |s, i| u64::from_le_bytes(std::array::from_fn(|k| pat(s, 8 * i + k)))),
                _ => {
                    h.blocks.pop();
                    bad()
                }
            }
        }
        ["vpush", blk, n] => {
            let (Ok(blk), Ok(n)) = (blk.parse::<usize>(), n.parse::<usize>()) else { return bad() };
            let Some(b) = h.blocks.get(blk) else { return bad() };
            if !b.live || b.esz == 0 || b.len == 0 || b.len % b.esz != 0 || n > (1 << 20) {
                return bad();
            }
            match b.esz {
                1 => vec_run::<u8>(h, blk, n, |s, i| pat(s, i)),
                2 => vec_run::<u16>(h, blk, n, |s, i| u16::from_le_bytes(std::array::from_fn(|k| pat(s, 2 * i + k)))),
                4 => vec_run::<u32>(h, blk, n, |s, i| u32::from_le_bytes(std::array::from_fn(|k| pat(s, 4 * i + k)))),
                8 => vec_run::<u64>(h, blk, n, |s, i| u64::from_le_bytes(std::array::from_fn(|k| pat(s, 8 * i + k)))),
                _ => bad(),
            }
        }
        _ => bad(),
    }
}

/// `vec` / `vpush`: push `n` elements onto a real `Vec<T, &Arena>` (fresh, or re-adopted full from
/// block `id`), keeping the buffer as block `id`. Growth goes through `try_reserve(1)` (the same
/// `grow_amortized` path as `push`, but an allocation failure is an `Err` instead of an abort).
fn vec_run<T: Copy>(h: &mut H, id: usize, n: usize, elem: impl Fn(u64, usize) -> T) -> Ans {
    let esz = std::mem::size_of::<T>();
    let start = h.blocks[id].clone();
    let seed = start.seed;
    // the arena outlives the Vec (which is forgotten before this function returns)
    let arena: &Arena = unsafe { &*(&**h.arena.as_ref().unwrap() as *const Arena) };
    let mut v: Vec<T, &Arena> = if start.live {
        let cap = start.len / esz;
        unsafe { Vec::from_raw_parts_in(h.bptr(start.beg) as *mut T, cap, cap, arena) }
    } else {
        Vec::new_in(arena)
    };
    let mut caps: Vec<usize> = vec![];
    let mut oracle: Option<String> = None;
    let mut last_sum = String::new();
    let mut failed = false;
    for _ in 0..n {
        if v.len() == v.capacity() {
            let old_cap = v.capacity();
            let old_beg = if old_cap > 0 { v.as_ptr() as usize - h.base } else { 0 };
            let (off0, commit0) = (h.off(), h.commit());
            let tail = old_cap > 0 && old_beg + old_cap * esz == off0;
            if v.try_reserve(1).is_err() {
                failed = true;
                let want_cap = next_cap(old_cap, v.len(), esz);
                let fits = if old_cap == 0 {
                    h.spec_beg(off0, esz) + want_cap * esz <= h.cap
                } else if tail {
                    off0 + (want_cap - old_cap) * esz <= h.cap
                } else {
                    h.spec_beg(off0, esz) + want_cap * esz <= h.cap
                };
                if h.off() != off0 || h.commit() != commit0 {
                    oracle = oracle.or(Some(format!("failed Vec growth changed the arena: {}", h.oc())));
                } else if fits {
                    oracle = oracle.or(Some(format!("Vec growth to {want_cap} elements failed although it fits")));
                }
                break;
            }
            let cap = v.capacity();
            caps.push(cap);
            let ptr = v.as_mut_ptr() as usize;
            let beg = ptr.wrapping_sub(h.base);
            let len = cap * esz;
            if ptr % esz != 0 {
                oracle = oracle.or(Some(format!("misaligned block {id}: addr mod {esz} = {}", ptr % esz)));
            } else if ptr < h.base || beg + len > h.cap || beg + len > h.commit() || beg + len > h.off() {
                oracle = oracle.or(Some(format!("Vec buffer {id} [{beg}, {}) outside {} cap {}", beg.wrapping_add(len), h.oc(), h.cap)));
                std::mem::forget(v);
                h.blocks[id].live = false;
                return (format!("ok beg={beg} len={len} caps={} {}", join(&caps), h.oc()), oracle);
            } else if tail && beg != old_beg {
                oracle = oracle.or(Some(format!("tail Vec buffer {id} moved on grow")));
            }
            if oracle.is_none() {
                let bp = h.bptr(beg);
                if let Some(j) = (0..old_cap * esz).find(|&j| unsafe { bp.add(j).read_volatile() } != pat(seed, j)) {
                    oracle = Some(format!("Vec growth of block {id} lost its contents at byte {j}"));
                }
            }
            last_sum = digest_at(h.base as *const u8, beg, len);
            let b = &mut h.blocks[id];
            b.beg = beg;
            b.len = len;
            b.align = esz;
            b.created = true;
            b.live = true;
            b.esz = esz;
            let nb = b.clone();
            h.write_pattern(&nb);
            if oracle.is_none() {
                oracle = h.check_all();
            }
        }
        let i = v.len();
        v.push(elem(seed, i));
    }
    std::mem::forget(v);
    let oracle = oracle.or_else(|| h.check_all());
    let b = &h.blocks[id];
    if failed {
        (format!("err caps={} {}", join(&caps), h.oc()), oracle)
    } else if !b.live {
        (format!("ok none {}", h.oc()), oracle)
    } else if caps.is_empty() {
        (format!("ok beg={} len={} caps=- {}", b.beg, b.len, h.oc()), oracle)
    } else {
        (format!("ok beg={} len={} caps={} {} sum={last_sum}", b.beg, b.len, join(&caps), h.oc()), oracle)
    }
}

fn join(xs: &[usize]) -> String {
    if xs.is_empty() {
        return "-".into();
    }
    xs.iter().map(|x| x.to_string()).collect::<Vec<_>>().join(",")
}
