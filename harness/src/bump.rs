//! Family `bump` (C11): histories over the real `naijascript::arena::Arena` (debug build: the
//! `debug::Arena` wrapper around `bump::Arena`), driven through its public `Allocator` impl,
//! `reset`, `decommit`, `offset` and the read-only hooks `arena_commit/arena_capacity/arena_base`.
//!
//! Protocol (one request per line, one answer per line; `o/c` = `off=<offset> commit=<commit>`):
//! ```text
//! new <cap> <page> [<basemod>]   -> cap=<capacity> basemod=<base % 65536>
//!        a fresh arena; the harness steers the reservation so that base % 65536 == page * 4096
//!        (best effort; the real residue is reported, the optional third word is for the model)
//! alloc|zalloc <bytes> <align>   -> ok beg=<off> len=<n> mod=<addr % align> o/c sum=<digest> | err o/c
//! grow|zgrow <blk> <newSize>     -> ok beg=<off> len=<n> moved=<0|1> o/c sum=<digest> | err o/c
//!        `Allocator::grow` | `Allocator::grow_zeroed` (the new tail must read as zero)
//! shrink <blk> <newSize>         -> ok beg=<off> len=<n> moved=0 o/c            (tail block only)
//! mark                           -> o/c          remember the offset as mark number k (0-based)
//! reset <markNo>                 -> o/c          only to a mark at or below the offset
//! decommit                       -> o/c
//! borrow | release               -> o/c          scratch protocol on this arena: save offset |
//!                                                reset(saved) + decommit()
//! fill <blk> <seed>              -> ok           the owner rewrites its block
//! sum <blk>                      -> <digest> | unreadable      (also for blocks given back)
//! peek <off> <len>               -> <digest> | empty           raw bytes, clipped to commit
//! vec <esz> <n>                  -> ok beg= len= caps=<c1,c2,..> o/c sum= | err caps=.. o/c | ok none o/c
//!        `Vec<uN,&Arena>::new_in`, n pushes (growth through `Allocator::grow`), buffer kept as block
//! vpush <blk> <n>                -> same         re-adopt a `vec` block as a full Vec, push n more
//!
//! -- `ArenaString` (src/arena/string.rs); `<blk>` = a string created by `sstr`/`sfrom` whose buffer
//! -- has not been given back by a reset; every answer below is
//! --   ok beg=<off|-> len=<string length> cap=<capacity> moved=<0|1> o/c sum=<digest of the CONTENT>
//! --   | abort o/c      the allocator refuses the buffer: the real code calls `handle_alloc_error`
//! --                    (observed in a forked child; nothing is executed in this process)
//! sstr <cap> <n>                 `with_capacity_in(cap)` + `push_str` of n <= cap pattern bytes
//! sfrom <n>                      `from_str` of n pattern bytes (length == capacity)
//! spush <blk> <n>                `push_str` of n pattern bytes
//! schar <blk> <k>                `push(ch)`, ch = 'x' | 'é' | '€' | '😀' for k = 1..4
//! srepeat <blk> <k> <n>          `push_repeat(ch, n)`
//! sres|sresx <blk> <n>           `reserve(n)` | `reserve_exact(n)`
//! sshrink <blk>                  `shrink_to_fit()` (bad-op when it would shrink a non-tail block)
//! sclear <blk>                   `clear()`
//! srep <blk> <lo> <hi|-> <n>     `replace_range(lo..hi, n pattern bytes)`, `-` = `lo..`;
//!                                -> refused o/c when a char-boundary assertion of the real code fires
//! sonce <blk> <pos> <k> <n>      `replace_once_in_place(old, new)`: old = the k bytes of the content at
//!                                pos (k times '~', which never occurs, when that is no char-aligned
//!                                slice), new = n pattern bytes -> ok at=<index|none> beg= ...
//! ```
//! Block numbers count the `alloc/zalloc/vec/sstr/sfrom` requests of the history (failed ones included).
//! Pattern bytes of a string operation: `apat(31 * blk + <length before the operation> + salt, i)`,
//! printable ASCII without '~'.
//! After every successful alloc/grow/vec step the block is filled with a pattern derived from its
//! seed (initially its number); `sum=` is taken before that fill, so it shows what the arena left
//! there (debug fills, zeroes, preserved prefix). Requests outside the allocator's contract are
//! answered `bad-op` and not executed.
//!
//! `run` evaluates an implementation-level oracle that needs no model: every live block inside the
//! committed prefix of the reservation, aligned *absolutely*, pairwise disjoint, pattern intact
//! after every operation; a fresh block begins at the first aligned address at or above the old
//! offset; failure only when that block does not fit, and then offset/commit unchanged; grow
//! preserves the prefix and stays in place at the tail; zeroed blocks are zero. After every string
//! operation: `len <= capacity`, `[ptr, ptr + capacity)` inside the committed prefix below the
//! offset and disjoint from every other live block, the capacity is the one std's growth policy
//! predicts, the content equals a `std::string::String` doing the same operation (and is UTF-8), and
//! every other live block still holds its pattern (a string buffer: all `capacity` bytes as its owner
//! left them). Failures go to stderr as `ORACLE-FAIL <line> <what>`. If the process is killed by a
//! signal (SIGSEGV on a write outside the committed range, SIGABRT from one of std's UB checks such as
//! `Vec::set_len`), the handler prints `DIED-AT <line> signal=<n> <last panic message>` first.

use std::alloc::{Allocator, Layout};
use std::ptr::NonNull;

use naijascript::arena::verif_hooks as hooks;
use naijascript::arena::{Arena, ArenaString};

use crate::util::{self, Out, Rng};

pub fn main(args: &[String]) -> i32 {
    match args.first().map(String::as_str) {
        Some("gen") => generate(&args[1..]),
        Some("run") => run(),
        _ => {
            eprintln!("usage: nvh bump gen --seed S --n N [--maxlen L] [--bias align] | nvh bump run < requests");
            2
        }
    }
}

/// Constants observed on the compiled crate (debug build) for `Gen/Arena.lean`.
pub fn dump_tables(out: &mut Vec<(String, String)>) {
    let probe = || -> Option<(usize, u8, u8, usize)> {
        let a = Arena::new(1).ok()?;
        let chunk = hooks::arena_capacity(&a);
        let base = hooks::arena_base(&a) as *const u8;
        // first allocation commits one chunk (fresh pages read as zero), the second one runs the
        // debug fill over [offset, end + guard)
        a.allocate(Layout::from_size_align(1, 1).ok()?).ok()?;
        a.allocate(Layout::from_size_align(1, 1).ok()?).ok()?;
        let rd = |i: usize| unsafe { base.add(i).read_volatile() };
        let alloc_fill = rd(1);
        let mut guard = 0usize;
        while 2 + guard < chunk && rd(2 + guard) == alloc_fill {
            guard += 1;
        }
        unsafe { a.reset(0) };
        let free_fill = rd(0);
        Some((chunk, alloc_fill, free_fill, guard))
    };
    if let Some((chunk, af, ff, guard)) = probe() {
        out.push(("arena_chunk".into(), chunk.to_string()));
        out.push(("arena_alloc_fill".into(), af.to_string()));
        out.push(("arena_free_fill".into(), ff.to_string()));
        out.push(("arena_guard".into(), guard.to_string()));
    }
    // std's RawVec growth policy for byte vectors, observed through `Vec<u8,&Arena>` itself: rows
    // [cap, len, additional, capacity after reserve(additional), capacity after reserve_exact(additional)]
    let policy = || -> Option<String> {
        let a = Arena::new(4 << 20).ok()?;
        let mut rows: Vec<String> = vec![];
        for cap in [0usize, 1, 2, 3, 7, 8, 9, 15, 16, 17, 31, 100, 1000] {
            let mut lens = vec![0, cap / 2, cap.saturating_sub(1), cap];
            lens.dedup();
            for len in lens {
                let spare = cap - len;
                let mut adds = vec![0, 1, spare, spare + 1, spare + 2, cap, 2 * cap - len, 2 * cap - len + 1, 2 * cap + 9, 5, 8, 9];
                adds.sort_unstable();
                adds.dedup();
                for add in adds {
                    let mut got = [0usize; 2];
                    for (k, slot) in got.iter_mut().enumerate() {
                        unsafe { a.reset(0) };
                        let mut v: Vec<u8, &Arena> = Vec::with_capacity_in(cap, &a);
                        if v.capacity() != cap {
                            return None;
                        }
                        v.resize(len, 0);
                        if k == 0 { v.reserve(add) } else { v.reserve_exact(add) }
                        *slot = v.capacity();
                        std::mem::forget(v);
                    }
                    rows.push(format!("[{cap},{len},{add},{},{}]", got[0], got[1]));
                }
            }
        }
        Some(format!("[{}]", rows.join(",")))
    };
    if let Some(rows) = policy() {
        out.push(("arena_reserve_probe".into(), rows));
    }
}

// ------------------------------------------------------------------------------------------------
// shared definitions of the protocol (the Lean driver has the same ones)

const CHUNK: usize = 65536;
const MAX_ALIGN: usize = 65536;
const MAX_BYTES: usize = 1 << 40;

fn pat(seed: u64, j: usize) -> u8 {
    let j = j as u64;
    (seed.wrapping_mul(131).wrapping_add(j.wrapping_mul(7)).wrapping_add((j >> 8).wrapping_mul(13)).wrapping_add(17) & 0xFF) as u8
}

fn sampled(beg: usize, len: usize, k: usize) -> bool {
    if len <= 512 || k < 256 || k >= len - 256 || k % 509 == 0 {
        return true;
    }
    let o = (beg + k) % CHUNK;
    o < 64 || o >= CHUNK - 64
}

fn digest_at(base: *const u8, beg: usize, len: usize) -> String {
    let mut h: u64 = 0xcbf2_9ce4_8422_2325;
    for k in 0..len {
        if sampled(beg, len, k) {
            let b = unsafe { base.add(beg + k).read_volatile() };
            h ^= b as u64;
            h = h.wrapping_mul(0x0000_0100_0000_01b3);
        }
    }
    format!("{h:016x}")
}

/// std's `RawVec::grow_amortized` policy (modelled, not verified; the answer carries the observed
/// capacities so a change of policy shows up as such).
fn next_cap(cap: usize, len: usize, esz: usize) -> usize {
    let min_nz = if esz == 1 { 8 } else if esz <= 1024 { 4 } else { 1 };
    (cap * 2).max(len + 1).max(min_nz)
}

/// Capacity of a byte vector after `reserve(additional)` / `reserve_exact(additional)` (the same
/// closed forms as `Bump.reserveCap` / `reserveExactCap`; `dump_tables` probes the real thing and
/// the oracle compares every observed capacity with this prediction).
fn reserve_cap(cap: usize, len: usize, additional: usize, exact: bool) -> usize {
    if additional <= cap - len {
        cap
    } else if exact {
        len + additional
    } else {
        (cap * 2).max(len + additional).max(8)
    }
}

/// Pattern bytes of the string operations: printable ASCII without '~'.
fn apat(seed: u64, j: usize) -> u8 {
    0x20 + pat(seed, j) % 94
}

fn apat_str(seed: u64, n: usize) -> String {
    (0..n).map(|j| apat(seed, j) as char).collect()
}

const CHARS: [char; 4] = ['x', 'é', '€', '😀'];

// ------------------------------------------------------------------------------------------------
// generator

const ALIGNS: &[usize] = &[1, 1, 1, 2, 4, 8, 8, 8, 16, 16, 32, 64, 128, 256, 512, 1024, 2048, 4096, 4096, 8192, 8192, 16384, 32768, 65536, 65536];
const CAPS: &[usize] = &[1, 65536, 65536, 65537, 100000, 131072, 131072, 196608, 262144];

#[derive(Clone, Copy, PartialEq)]
enum Kind {
    Plain,
    Vec,
    Str,
}

#[derive(Clone, Copy)]
struct GB {
    beg: usize,
    len: usize, // a string: its capacity
    align: usize,
    live: bool,
    kind: Kind,
    slen: usize, // a string: its length
}

struct GenSt {
    cap: usize,
    base: usize,
    off: usize,
    commit: usize,
    blocks: Vec<GB>,
    marks: Vec<usize>,
    borrows: Vec<usize>,
}

impl GenSt {
    fn beg(&self, align: usize) -> usize {
        (self.base + self.off + align - 1) / align * align - self.base
    }
    fn alloc(&mut self, bytes: usize, align: usize, kind: Kind) -> bool {
        let beg = self.beg(align);
        let end = beg + bytes;
        if end > self.cap {
            self.blocks.push(GB { beg: 0, len: 0, align, live: false, kind: Kind::Plain, slen: 0 });
            return false;
        }
        self.commit = self.commit.max((end + CHUNK - 1) / CHUNK * CHUNK);
        self.off = end;
        self.blocks.push(GB { beg, len: bytes, align, live: true, kind, slen: 0 });
        true
    }
    /// `Allocator::grow` of block `b` to `new` bytes (in place at the tail, else a fresh block).
    fn grow(&mut self, b: usize, new: usize) -> bool {
        let GB { beg, len, align, .. } = self.blocks[b];
        if beg + len == self.off {
            if self.off + (new - len) > self.cap {
                return false;
            }
            self.off += new - len;
        } else {
            let nb = self.beg(align);
            if nb + new > self.cap {
                return false;
            }
            self.off = nb + new;
            self.blocks[b].beg = nb;
        }
        self.blocks[b].len = new;
        self.commit = self.commit.max((self.off + CHUNK - 1) / CHUNK * CHUNK);
        true
    }
    /// A string's buffer is brought to capacity `new` (first allocation or grow); false = abort.
    fn str_cap(&mut self, b: usize, new: usize) -> bool {
        if new <= self.blocks[b].len {
            return true;
        }
        if self.blocks[b].len == 0 {
            let beg = self.off;
            if beg + new > self.cap {
                return false;
            }
            self.off = beg + new;
            self.commit = self.commit.max((self.off + CHUNK - 1) / CHUNK * CHUNK);
            let g = &mut self.blocks[b];
            g.beg = beg;
            g.len = new;
            g.live = true;
            true
        } else {
            self.grow(b, new)
        }
    }
    fn kill_above(&mut self, m: usize, except: Option<usize>) {
        for (i, b) in self.blocks.iter_mut().enumerate() {
            if Some(i) != except && b.beg + b.len > m {
                b.live = false;
            }
        }
    }
    fn live(&self) -> Vec<usize> {
        (0..self.blocks.len()).filter(|&i| self.blocks[i].live && self.blocks[i].kind != Kind::Str).collect()
    }
    /// Strings that can still be used: a buffer that is live, or none at all.
    fn strs(&self) -> Vec<usize> {
        (0..self.blocks.len()).filter(|&i| self.blocks[i].kind == Kind::Str && (self.blocks[i].live || self.blocks[i].len == 0)).collect()
    }
}

fn pick_size(rng: &mut Rng, g: &GenSt, align: usize) -> usize {
    let remaining = g.cap.saturating_sub(g.beg(align));
    let to_commit = g.commit.saturating_sub(g.beg(align));
    let c = rng.below(100);
    let base: usize = match c {
        0..=24 => *rng.pick(&[0usize, 1, 2, 7, 8, 9, 15, 16, 17, 24, 100, 127, 128, 129, 130, 255, 256, 257]),
        25..=34 => *rng.pick(&[align.saturating_sub(1), align, align + 1]),
        35..=44 => *rng.pick(&[4095usize, 4096, 4097, 8191, 8192, 8193]),
        45..=59 => *rng.pick(&[65535usize, 65536, 65537, 65536 - 128, 65536 - 129, 65536 - 127, 131071, 131072, 131073]),
        60..=74 => *rng.pick(&[remaining.saturating_sub(1), remaining, remaining + 1, remaining.saturating_sub(128), remaining / 2]),
        75..=84 => *rng.pick(&[to_commit.saturating_sub(1), to_commit, to_commit + 1, to_commit.saturating_sub(128), to_commit.saturating_sub(127), to_commit.saturating_sub(129)]),
        85..=89 => *rng.pick(&[g.cap.saturating_sub(1), g.cap, g.cap + 1]),
        _ => rng.below(3000) as usize,
    };
    base
}

/// One string request (lines pushed to `out`), with the generator's shadow of its effect.  Lengths
/// are chosen around the three cases that matter for a reserve: the result fits the spare room,
/// fills it exactly, exceeds it by one / by a lot; and so that a grown buffer often ends exactly
/// where the blocks allocated behind it end.
fn gen_string_op(rng: &mut Rng, g: &mut GenSt, out: &mut Out) {
    let strs = g.strs();
    if strs.is_empty() || rng.chance(1, 5) {
        let large = if rng.chance(1, 6) { 5000 } else { 64 };
        let cap = *rng.pick(&[0usize, 1, 7, 8, 9, 10, 15, 16, 16, 17, 32, 100, 300, large]);
        if rng.chance(1, 3) {
            out.line(&format!("sfrom {cap}"));
            if cap == 0 || !g.alloc(cap, 1, Kind::Str) {
                if cap == 0 {
                    g.blocks.push(GB { beg: 0, len: 0, align: 1, live: false, kind: Kind::Str, slen: 0 });
                }
            } else {
                g.blocks.last_mut().unwrap().slen = cap;
            }
        } else {
            let n = *rng.pick(&[0usize, cap / 2, cap * 5 / 8, cap.saturating_sub(1), cap]);
            out.line(&format!("sstr {cap} {n}"));
            if cap == 0 {
                g.blocks.push(GB { beg: 0, len: 0, align: 1, live: false, kind: Kind::Str, slen: 0 });
            } else if g.alloc(cap, 1, Kind::Str) {
                g.blocks.last_mut().unwrap().slen = n;
            }
        }
        // half of the time something is allocated right behind the new string, often exactly as
        // many bytes as its capacity (so that doubling it ends at the offset)
        if rng.chance(1, 2) {
            let bytes = *rng.pick(&[cap, cap, 8, 1, 16, 24, cap.max(8)]);
            out.line(&format!("alloc {bytes} 1"));
            g.alloc(bytes, 1, Kind::Plain);
        }
        return;
    }
    let b = *rng.pick(&strs);
    let GB { beg, len: cap, slen: len, .. } = g.blocks[b];
    let tail = cap > 0 && beg + cap == g.off;
    // the sizes below are derived from the spare room; keep the few big strings from breeding more
    let spare_real = cap - len;
    let spare = if spare_real > 700 && !rng.chance(1, 8) { 3 } else { spare_real };
    // bytes between the end of the buffer and the offset: growing the capacity by exactly this much
    // makes `ptr + new_size == base + offset`
    // (only when that is a string-sized amount)
    let behind = if cap > 0 && !tail && g.off - (beg + cap) <= 600 { g.off - (beg + cap) } else { 0 };
    let big = if rng.chance(1, 12) { 3000 } else { 40 };
    let grow_by = |rng: &mut Rng| -> usize {
        *rng.pick(&[0usize, 1, spare.saturating_sub(1), spare, spare + 1, spare + 2, spare + behind, spare + behind, (cap + spare).min(700), (2 * cap + 1).min(700), 40, big])
    };
    match rng.below(100) {
        0..=17 => {
            let n = grow_by(rng);
            out.line(&format!("spush {b} {n}"));
            if g.str_cap(b, reserve_cap(cap, len, n, false)) {
                g.blocks[b].slen = len + n;
            }
        }
        18..=22 => {
            let k = if rng.chance(2, 3) { 1 } else { 1 + rng.below(4) as usize };
            let n = CHARS[k - 1].len_utf8();
            out.line(&format!("schar {b} {k}"));
            if g.str_cap(b, reserve_cap(cap, len, n, false)) {
                g.blocks[b].slen = len + n;
            }
        }
        23..=27 => {
            let k = if rng.chance(2, 3) { 1 } else { 1 + rng.below(4) as usize };
            let cnt = *rng.pick(&[0usize, 1, 2, spare, spare + 1, 33]);
            let n = CHARS[k - 1].len_utf8() * cnt;
            out.line(&format!("srepeat {b} {k} {cnt}"));
            if g.str_cap(b, reserve_cap(cap, len, n, false)) {
                g.blocks[b].slen = len + n;
            }
        }
        28..=39 => {
            let exact = rng.chance(1, 2);
            let n = grow_by(rng);
            out.line(&format!("{} {b} {n}", if exact { "sresx" } else { "sres" }));
            g.str_cap(b, reserve_cap(cap, len, n, exact));
        }
        40..=45 => {
            out.line(&format!("sshrink {b}"));
            if cap > len {
                if len == 0 {
                    g.blocks[b].len = 0;
                    g.blocks[b].live = false;
                } else if tail {
                    g.blocks[b].len = len;
                    g.off = beg + len;
                    let m = g.off;
                    g.kill_above(m, Some(b));
                }
            }
        }
        46..=49 => {
            out.line(&format!("sclear {b}"));
            g.blocks[b].slen = 0;
        }
        50..=59 => {
            let pos = if len == 0 { 0 } else { rng.below(len as u64 + 1) as usize };
            let k = *rng.pick(&[0usize, 1, 2, 3, len - pos, len - pos + 1]);
            let n = *rng.pick(&[0usize, k, k + 1, k.saturating_sub(1), k + spare, k + spare + 1, k + spare + behind]);
            out.line(&format!("sonce {b} {pos} {k} {n}"));
            // the replacement happens when the slice exists (or k == 0); an earlier occurrence has the same length
            if pos + k <= len {
                let add = n.saturating_sub(k);
                if (k > 0 || n > 0) && g.str_cap(b, reserve_cap(cap, len, add, false)) {
                    g.blocks[b].slen = len - k + n;
                }
            }
        }
        _ => {
            // replace_range: start / middle / end / empty range / whole string / clamped / refused
            let (lo, hi): (usize, Option<usize>) = match rng.below(12) {
                0 => (0, Some(rng.below(len as u64 + 1) as usize)),
                1 => {
                    let lo = rng.below(len as u64 + 1) as usize;
                    (lo, Some(lo + rng.below((len - lo) as u64 + 1) as usize))
                }
                2 => (rng.below(len as u64 + 1) as usize, Some(len)),
                3 => {
                    let p = rng.below(len as u64 + 1) as usize;
                    (p, Some(p))
                }
                4 => (0, Some(len)),
                5 => (len, Some(len)),
                6 => (0, Some(0)),
                7 => (rng.below(len as u64 + 1) as usize, None),
                8 => (0, Some(1.min(len))),
                9 => (len.saturating_sub(1), Some(len)),
                10 => (rng.below(len as u64 + 3) as usize, Some(rng.below(len as u64 + 3) as usize)),
                _ => (len + 1, None),
            };
            let off = lo.min(len);
            let del = hi.unwrap_or(usize::MAX).saturating_sub(off).min(len - off);
            let n = *rng.pick(&[0usize, del, del + 1, del.saturating_sub(1), del / 2, del + spare.saturating_sub(1), del + spare, del + spare + 1,
                                del + spare + 2, del + spare + behind, (del + cap + spare + 3).min(900), 9, 45]);
            out.line(&format!("srep {b} {lo} {} {n}", hi.map_or("-".to_string(), |h| h.to_string())));
            let in_range = lo <= len && hi.is_none_or(|h| h <= len);
            if in_range && (del > 0 || n > 0) && g.str_cap(b, reserve_cap(cap, len, n.saturating_sub(del), false)) {
                g.blocks[b].slen = len - del + n;
            }
        }
    }
}

fn generate(args: &[String]) -> i32 {
    let seed = util::opt_u64(args, "--seed", 1);
    let n = util::opt_u64(args, "--n", 1000);
    let maxlen = util::opt_u64(args, "--maxlen", 40);
    let bias_align = util::opt(args, "--bias") == Some("align");
    let bias_str = util::opt(args, "--bias") == Some("str");
    let mut rng = Rng::new(seed ^ 0xC11);
    let mut out = Out::new();
    for _ in 0..n {
        let len = 1 + rng.below(maxlen);
        let cap_req = *rng.pick(CAPS);
        let page = if rng.chance(1, 4) { 0 } else { rng.below(16) as usize };
        out.line(&format!("new {cap_req} {page}"));
        let cap = (cap_req.max(1) + CHUNK - 1) / CHUNK * CHUNK;
        // every third history is about strings (half of its requests), the others have a few
        let str_pct: u64 = if bias_str { 70 } else if rng.chance(1, 3) { 50 } else { 8 };
        let mut g = GenSt { cap, base: page * 4096, off: 0, commit: 0, blocks: vec![], marks: vec![], borrows: vec![] };
        for _ in 0..len {
            if rng.below(100) < str_pct {
                gen_string_op(&mut rng, &mut g, &mut out);
                continue;
            }
            let live = g.live();
            let tail: Option<usize> = live.iter().copied().find(|&i| g.blocks[i].beg + g.blocks[i].len == g.off);
            match rng.below(100) {
                0..=29 => {
                    let align = if bias_align { *rng.pick(&[4096usize, 8192, 16384, 32768, 65536]) } else { *rng.pick(ALIGNS) };
                    let bytes = pick_size(&mut rng, &g, align);
                    let z = rng.chance(1, 4);
                    out.line(&format!("{} {bytes} {align}", if z { "zalloc" } else { "alloc" }));
                    g.alloc(bytes, align, Kind::Plain);
                }
                30..=44 if !live.is_empty() => {
                    // grow: prefer the tail block half of the time
                    let b = match tail {
                        Some(t) if rng.chance(1, 2) => t,
                        _ => *rng.pick(&live),
                    };
                    let GB { beg, len: blen, align, .. } = g.blocks[b];
                    let extra = pick_size(&mut rng, &g, if beg + blen == g.off { 1 } else { align });
                    let new = if rng.chance(1, 8) { blen } else if beg + blen == g.off { blen + extra } else { extra.max(blen) };
                    out.line(&format!("{} {b} {new}", if rng.chance(1, 3) { "zgrow" } else { "grow" }));
                    g.grow(b, new);
                }
                45..=51 if tail.is_some() => {
                    let b = tail.unwrap();
                    let blen = g.blocks[b].len;
                    let new = *rng.pick(&[0usize, blen / 2, blen.saturating_sub(1), blen]);
                    out.line(&format!("shrink {b} {new}"));
                    g.off = g.blocks[b].beg + new;
                    g.blocks[b].len = new;
                    let m = g.off;
                    g.kill_above(m, Some(b));
                }
                52..=58 => {
                    out.line("mark");
                    g.marks.push(g.off);
                }
                59..=67 if !g.marks.is_empty() => {
                    let k = rng.below(g.marks.len() as u64) as usize;
                    out.line(&format!("reset {k}"));
                    if g.marks[k] <= g.off {
                        g.off = g.marks[k];
                        let m = g.off;
                        g.kill_above(m, None);
                    }
                }
                68..=72 => {
                    out.line("decommit");
                    g.commit = g.commit.min((g.off + CHUNK - 1) / CHUNK * CHUNK);
                }
                73..=76 => {
                    out.line("borrow");
                    g.borrows.push(g.off);
                }
                77..=81 if !g.borrows.is_empty() => {
                    out.line("release");
                    let s = g.borrows.pop().unwrap();
                    if s <= g.off {
                        g.off = s;
                        g.kill_above(s, None);
                        g.commit = g.commit.min((g.off + CHUNK - 1) / CHUNK * CHUNK);
                    }
                }
                82..=84 if !g.blocks.is_empty() => {
                    let b = rng.below(g.blocks.len() as u64);
                    out.line(&format!("fill {b} {}", rng.below(1000)));
                }
                85..=88 if !g.blocks.is_empty() => {
                    let b = rng.below(g.blocks.len() as u64);
                    out.line(&format!("sum {b}"));
                }
                89..=92 => {
                    let around = *rng.pick(&[g.off, g.off.saturating_sub(64), g.commit.saturating_sub(200), 0, g.marks.last().copied().unwrap_or(0)]);
                    out.line(&format!("peek {around} {}", rng.pick(&[64usize, 128, 129, 256, 300])));
                }
                93..=96 => {
                    let esz = *rng.pick(&[1usize, 1, 2, 4, 8]);
                    let cnt = *rng.pick(&[0usize, 1, 5, 9, 17, 33, 100, 1000, 5000, 70000 / esz]);
                    out.line(&format!("vec {esz} {cnt}"));
                    // approximate effect: final capacity by the growth policy
                    let mut capv = 0usize;
                    let mut l = 0usize;
                    while l < cnt {
                        if l == capv {
                            capv = next_cap(capv, l, esz);
                        }
                        l = capv.min(cnt);
                    }
                    if capv == 0 {
                        g.blocks.push(GB { beg: 0, len: 0, align: esz, live: false, kind: Kind::Plain, slen: 0 });
                    } else {
                        g.alloc(capv * esz, esz, Kind::Vec);
                    }
                }
                _ => {
                    let vecs: Vec<usize> = live.iter().copied().filter(|&i| g.blocks[i].kind == Kind::Vec).collect();
                    if vecs.is_empty() {
                        let align = *rng.pick(&[1usize, 2, 4, 8, 16]);
                        let bytes = rng.below(200) as usize;
                        out.line(&format!("alloc {bytes} {align}"));
                        g.alloc(bytes, align, Kind::Plain);
                    } else {
                        let b = *rng.pick(&vecs);
                        let cnt = *rng.pick(&[1usize, 3, 40, 3000]);
                        out.line(&format!("vpush {b} {cnt}"));
                        // effect not tracked precisely: the block moves unless it is the tail
                        let GB { len: blen, align: esz, .. } = g.blocks[b];
                        let mut capv = blen / esz;
                        let target = capv + cnt;
                        while capv < target {
                            capv = next_cap(capv, capv, esz);
                        }
                        g.grow(b, capv * esz);
                    }
                }
            }
        }
        // close every history with a look at all blocks
        for b in 0..g.blocks.len().min(6) {
            out.line(&format!("sum {b}"));
        }
    }
    0
}

// ------------------------------------------------------------------------------------------------
// runner + oracle

#[derive(Clone)]
struct Blk {
    beg: usize,
    len: usize,
    align: usize,
    seed: u64,
    created: bool,
    live: bool,
    esz: usize, // 0 = not a Vec buffer
    st: Option<StrSt>, // the buffer of an `ArenaString` (`len` is its capacity)
}

/// Shadow of an `ArenaString`.
#[derive(Clone)]
struct StrSt {
    len: usize,
    /// all `capacity` bytes of the buffer as the owner left them (checked after every operation)
    shadow: Vec<u8>,
    /// a `std::string::String` doing the same operations
    reference: String,
}

struct H {
    arena: Option<Box<Arena>>,
    pads: Vec<(*mut libc::c_void, usize)>,
    base: usize,
    cap: usize,
    blocks: Vec<Blk>,
    marks: Vec<usize>,
    borrows: Vec<usize>,
}

impl H {
    fn new() -> Self {
        H { arena: None, pads: vec![], base: 0, cap: 0, blocks: vec![], marks: vec![], borrows: vec![] }
    }
    fn arena(&self) -> &Arena {
        self.arena.as_ref().unwrap()
    }
    fn off(&self) -> usize {
        self.arena().offset()
    }
    fn commit(&self) -> usize {
        hooks::arena_commit(self.arena())
    }
    fn oc(&self) -> String {
        format!("off={} commit={}", self.off(), self.commit())
    }
    fn drop_arena(&mut self) {
        self.arena = None;
        for (p, l) in self.pads.drain(..) {
            unsafe { libc::munmap(p, l) };
        }
    }
    fn bptr(&self, beg: usize) -> *mut u8 {
        (self.base + beg) as *mut u8
    }
    fn spec_beg(&self, off: usize, align: usize) -> usize {
        (self.base + off + align - 1) / align * align - self.base
    }
    fn write_pattern(&self, b: &Blk) {
        let p = self.bptr(b.beg);
        for j in 0..b.len {
            unsafe { p.add(j).write_volatile(pat(b.seed, j)) };
        }
    }
    fn kill_above(&mut self, m: usize, except: Option<usize>) {
        for (i, b) in self.blocks.iter_mut().enumerate() {
            if Some(i) != except && b.live && b.beg + b.len > m {
                b.live = false;
            }
        }
    }

    /// The model-free oracle over all live blocks.
    fn check_all(&self) -> Option<String> {
        let off = self.off();
        let commit = self.commit();
        if !(off <= commit && commit <= self.cap && commit % CHUNK == 0) {
            return Some(format!("arena bookkeeping off={off} commit={commit} cap={}", self.cap));
        }
        let mut ranges: Vec<(usize, usize, usize)> = vec![];
        for (i, b) in self.blocks.iter().enumerate() {
            if !b.live {
                continue;
            }
            if (self.base + b.beg) % b.align != 0 {
                return Some(format!("misaligned block {i}: addr mod {} = {}", b.align, (self.base + b.beg) % b.align));
            }
            if b.beg + b.len > self.cap {
                return Some(format!("out-of-reservation block {i}: [{}, {}) cap {}", b.beg, b.beg + b.len, self.cap));
            }
            if b.beg + b.len > off || b.beg + b.len > commit {
                return Some(format!("block {i} [{}, {}) above offset {off} / commit {commit}", b.beg, b.beg + b.len));
            }
            if b.len > 0 {
                ranges.push((b.beg, b.len, i));
            }
        }
        ranges.sort();
        for w in ranges.windows(2) {
            if w[0].0 + w[0].1 > w[1].0 {
                return Some(format!("overlap of live blocks {} and {}", w[0].2, w[1].2));
            }
        }
        for (i, b) in self.blocks.iter().enumerate() {
            if !b.live {
                continue;
            }
            let p = self.bptr(b.beg);
            for j in 0..b.len {
                let want = match &b.st {
                    Some(st) => st.shadow[j],
                    None => pat(b.seed, j),
                };
                if unsafe { p.add(j).read_volatile() } != want {
                    return Some(format!("clobbered live block {i} at byte {j}"));
                }
            }
        }
        None
    }
}

/// Line being executed and the last panic message, for the signal handler (which must not allocate:
/// the signal may arrive inside the allocator).
static CUR_LINE: std::sync::atomic::AtomicUsize = std::sync::atomic::AtomicUsize::new(0);
static PANIC_LEN: std::sync::atomic::AtomicUsize = std::sync::atomic::AtomicUsize::new(0);
static mut PANIC_MSG: [u8; 400] = [0; 400];

fn remember_panic(msg: &str) {
    use std::sync::atomic::Ordering::SeqCst;
    PANIC_LEN.store(0, SeqCst);
    let buf = &raw mut PANIC_MSG as *mut u8;
    let mut n = 0;
    for &b in msg.as_bytes().iter().take(400) {
        unsafe { buf.add(n).write(if b == b'\n' { b' ' } else { b }) };
        n += 1;
    }
    PANIC_LEN.store(n, SeqCst);
}

extern "C" fn died(sig: libc::c_int) {
    use std::sync::atomic::Ordering::SeqCst;
    // the process is lost anyway: say where, then leave without unwinding or flushing
    fn put(bytes: &[u8]) {
        unsafe { libc::write(2, bytes.as_ptr() as *const libc::c_void, bytes.len()) };
    }
    fn put_num(mut x: usize) {
        let mut d = [0u8; 20];
        let mut i = d.len();
        loop {
            i -= 1;
            d[i] = b'0' + (x % 10) as u8;
            x /= 10;
            if x == 0 {
                break;
            }
        }
        put(&d[i..]);
    }
    put(b"\nDIED-AT ");
    put_num(CUR_LINE.load(SeqCst));
    put(b" signal=");
    put_num(sig as usize);
    put(b" ");
    let n = PANIC_LEN.load(SeqCst).min(400);
    put(unsafe { std::slice::from_raw_parts(&raw const PANIC_MSG as *const u8, n) });
    put(b"\n");
    unsafe { libc::_exit(128 + sig) }
}

fn run() -> i32 {
    // panics are answers (`panic`), not noise; the message of a non-unwinding one (std's UB checks)
    // is kept for the signal handler
    std::panic::set_hook(Box::new(|info| remember_panic(&info.to_string())));
    unsafe {
        // (no symbolised backtrace from `handle_alloc_error` in the forked children: 70 ms each)
        std::env::set_var("RUST_BACKTRACE", "0");
        for sig in [libc::SIGABRT, libc::SIGSEGV, libc::SIGBUS] {
            libc::signal(sig, died as extern "C" fn(libc::c_int) as libc::sighandler_t);
        }
    }
    let lines = util::stdin_lines();
    let mut out = Out::new();
    let mut h = H::new();
    let mut oracle_fails = 0u64;
    let mut skipping = false;
    for (lineno, line) in lines.iter().enumerate() {
        CUR_LINE.store(lineno + 1, std::sync::atomic::Ordering::SeqCst);
        PANIC_LEN.store(0, std::sync::atomic::Ordering::SeqCst);
        let w: Vec<&str> = line.split_whitespace().collect();
        if matches!(w.first(), Some(&"new")) {
            skipping = false;
        }
        if skipping {
            out.line("skipped");
            continue;
        }
        if lines.len() <= 2000 {
            // a replay: flush every answer, so that the table is complete if the process dies
            out = Out::new();
        }
        match util::catch(|| step(&w, &mut h)) {
            Ok((ans, oracle)) => {
                out.line(&ans);
                if let Some(msg) = oracle {
                    oracle_fails += 1;
                    eprintln!("ORACLE-FAIL {} {}", lineno + 1, msg);
                }
            }
            Err(msg) => {
                out.line("panic");
                eprintln!("PANIC {} {}", lineno + 1, msg.replace('\n', " "));
                eprintln!("ORACLE-FAIL {} panic in the arena: {}", lineno + 1, msg.replace('\n', " "));
                oracle_fails += 1;
                skipping = true;
            }
        }
    }
    h.drop_arena();
    eprintln!("ORACLE-SUMMARY fails={oracle_fails} lines={}", lines.len());
    0
}

/// Create the arena so that `base % 65536 == page * 4096` (best effort; the caller reports the
/// real residue). `mmap(NULL, ..)` places a mapping in the highest free gap that fits, so: reserve
/// a larger region, punch a hole of exactly the arena's size at the wanted residue, and plug every
/// other gap the kernel prefers until the arena lands in the hole.
fn steer(h: &mut H, cap_req: usize, page: usize) -> Box<Arena> {
    let probe = Arena::new(cap_req).unwrap();
    let cap = hooks::arena_capacity(&probe);
    drop(probe);
    let map_none = |len: usize| unsafe {
        libc::mmap(std::ptr::null_mut(), len, libc::PROT_NONE, libc::MAP_PRIVATE | libc::MAP_ANONYMOUS, -1, 0)
    };
    let total = cap + 2 * MAX_ALIGN;
    let region = map_none(total);
    if region == libc::MAP_FAILED {
        return Box::new(Arena::new(cap_req).unwrap());
    }
    let a = region as usize;
    let mut t = a / MAX_ALIGN * MAX_ALIGN + page * 4096;
    if t < a {
        t += MAX_ALIGN;
    }
    unsafe { libc::munmap(t as *mut libc::c_void, cap) };
    if t > a {
        h.pads.push((a as *mut libc::c_void, t - a));
    }
    h.pads.push(((t + cap) as *mut libc::c_void, a + total - (t + cap)));
    let mut arena = Box::new(Arena::new(cap_req).unwrap());
    for _ in 0..32 {
        if hooks::arena_base(&arena) as usize == t {
            break;
        }
        drop(arena);
        let plug = map_none(cap);
        if plug != libc::MAP_FAILED {
            if plug as usize == t {
                // the plug itself took the hole: give it back and stop plugging
                unsafe { libc::munmap(plug, cap) };
            } else {
                h.pads.push((plug, cap));
            }
        }
        arena = Box::new(Arena::new(cap_req).unwrap());
    }
    arena
}

fn pow2(x: usize) -> bool {
    x != 0 && x & (x - 1) == 0
}

type Ans = (String, Option<String>);

fn bad() -> Ans {
    ("bad-op".to_string(), None)
}

fn step(w: &[&str], h: &mut H) -> Ans {
    if w.first() != Some(&"new") && h.arena.is_none() {
        return bad();
    }
    match w {
        ["new", cap, page] | ["new", cap, page, _] => {
            let (Ok(cap), Ok(page)) = (cap.parse::<usize>(), page.parse::<usize>()) else { return bad() };
            if cap > (1 << 30) || page > 15 {
                return bad();
            }
            h.drop_arena();
            h.blocks.clear();
            h.marks.clear();
            h.borrows.clear();
            let arena = steer(h, cap, page);
            h.base = hooks::arena_base(&arena) as usize;
            h.cap = hooks::arena_capacity(&arena);
            h.arena = Some(arena);
            let mut oracle = None;
            if h.off() != 0 || h.commit() != 0 || h.cap < cap.max(1) || h.cap % CHUNK != 0 || h.cap >= cap.max(1) + CHUNK {
                oracle = Some(format!("fresh arena: off={} commit={} cap={} for request {cap}", h.off(), h.commit(), h.cap));
            }
            (format!("cap={} basemod={}", h.cap, h.base % MAX_ALIGN), oracle)
        }
        [op @ ("alloc" | "zalloc"), bytes, align] => {
            let (Ok(bytes), Ok(align)) = (bytes.parse::<usize>(), align.parse::<usize>()) else { return bad() };
            if !pow2(align) || align > MAX_ALIGN || bytes > MAX_BYTES {
                return bad();
            }
            let Ok(layout) = Layout::from_size_align(bytes, align) else { return bad() };
            let zeroed = *op == "zalloc";
            let id = h.blocks.len();
            let (off0, commit0) = (h.off(), h.commit());
            let r = if zeroed { h.arena().allocate_zeroed(layout) } else { h.arena().allocate(layout) };
            let want = h.spec_beg(off0, align);
            match r {
                Ok(p) => {
                    let ptr = p.as_ptr() as *mut u8 as usize;
                    let len = p.len();
                    let beg = ptr.wrapping_sub(h.base);
                    let mut oracle = None;
                    if ptr % align != 0 {
                        oracle = Some(format!("misaligned block {id}: addr mod {align} = {}", ptr % align));
                    } else if ptr < h.base || beg + len > h.cap {
                        oracle = Some(format!("out-of-reservation block {id}: [{beg}, {}) cap {}", beg.wrapping_add(len), h.cap));
                    } else if len != bytes {
                        oracle = Some(format!("block {id} has {len} bytes for a request of {bytes}"));
                    } else if beg + len > h.commit() {
                        oracle = Some(format!("block {id} ends above commit {}", h.commit()));
                    } else if beg < off0 {
                        oracle = Some(format!("block {id} begins at {beg} below the old offset {off0}"));
                    } else if beg != want {
                        oracle = Some(format!("block {id} begins at {beg}, first aligned offset at or above {off0} is {want}"));
                    } else if h.off() != beg + len {
                        oracle = Some(format!("offset {} after block [{beg}, {})", h.off(), beg + len));
                    }
                    if oracle.is_some() && (ptr < h.base || beg.saturating_add(len) > h.commit()) {
                        // not safe to touch: record as dead
                        h.blocks.push(Blk { beg: 0, len: 0, align, seed: id as u64, created: false, live: false, esz: 0, st: None });
                        return (format!("ok beg={beg} len={len} mod={} {}", ptr % align, h.oc()), oracle);
                    }
                    if zeroed && oracle.is_none() {
                        let bp = h.bptr(beg);
                        if (0..len).any(|j| unsafe { bp.add(j).read_volatile() } != 0) {
                            oracle = Some(format!("zeroed block {id} is not zero"));
                        }
                    }
                    let sum = digest_at(h.base as *const u8, beg, len);
                    let b = Blk { beg, len, align, seed: id as u64, created: true, live: true, esz: 0, st: None };
                    h.write_pattern(&b);
                    h.blocks.push(b);
                    let oracle = oracle.or_else(|| h.check_all());
                    (format!("ok beg={beg} len={len} mod={} {} sum={sum}", ptr % align, h.oc()), oracle)
                }
                Err(_) => {
                    h.blocks.push(Blk { beg: 0, len: 0, align, seed: id as u64, created: false, live: false, esz: 0, st: None });
                    let mut oracle = None;
                    if h.off() != off0 || h.commit() != commit0 {
                        oracle = Some(format!("failed allocation changed the arena: {} (was off={off0} commit={commit0})", h.oc()));
                    } else if want + bytes <= h.cap {
                        oracle = Some(format!("allocation of {bytes} bytes align {align} failed although [{want}, {}) fits capacity {}", want + bytes, h.cap));
                    }
                    (format!("err {}", h.oc()), oracle.or_else(|| h.check_all()))
                }
            }
        }
        [op @ ("grow" | "zgrow"), blk, new] => {
            let zeroed = *op == "zgrow";
            let (Ok(blk), Ok(new)) = (blk.parse::<usize>(), new.parse::<usize>()) else { return bad() };
            let Some(b) = h.blocks.get(blk).cloned() else { return bad() };
            if !b.live || b.st.is_some() || new < b.len || new > MAX_BYTES {
                return bad();
            }
            let (Ok(old_l), Ok(new_l)) = (Layout::from_size_align(b.len, b.align), Layout::from_size_align(new, b.align)) else { return bad() };
            let (off0, commit0) = (h.off(), h.commit());
            let tail = b.beg + b.len == off0;
            let old_ptr = NonNull::new(h.bptr(b.beg)).unwrap();
            let r = unsafe {
                if zeroed { h.arena().grow_zeroed(old_ptr, old_l, new_l) } else { h.arena().grow(old_ptr, old_l, new_l) }
            };
            match r {
                Ok(p) => {
                    let ptr = p.as_ptr() as *mut u8 as usize;
                    let len = p.len();
                    let beg = ptr.wrapping_sub(h.base);
                    let moved = ptr != old_ptr.as_ptr() as usize;
                    let mut oracle = None;
                    if ptr % b.align != 0 {
                        oracle = Some(format!("misaligned block {blk}: addr mod {} = {}", b.align, ptr % b.align));
                    } else if ptr < h.base || beg + len > h.cap {
                        oracle = Some(format!("out-of-reservation block {blk}: [{beg}, {}) cap {}", beg.wrapping_add(len), h.cap));
                    } else if len != new {
                        oracle = Some(format!("grown block {blk} has {len} bytes for a request of {new}"));
                    } else if beg + len > h.commit() || beg + len > h.off() {
                        oracle = Some(format!("grown block {blk} ends above {}", h.oc()));
                    } else if tail && moved {
                        oracle = Some(format!("tail block {blk} moved on grow"));
                    } else if moved && beg < off0 {
                        oracle = Some(format!("grown block {blk} moved to {beg} below the old offset {off0}"));
                    }
                    if oracle.is_some() && (ptr < h.base || beg.saturating_add(len) > h.commit()) {
                        h.blocks[blk].live = false;
                        return (format!("ok beg={beg} len={len} moved={} {}", moved as u8, h.oc()), oracle);
                    }
                    if oracle.is_none() {
                        let bp = h.bptr(beg);
                        if let Some(j) = (0..b.len).find(|&j| unsafe { bp.add(j).read_volatile() } != pat(b.seed, j)) {
                            oracle = Some(format!("grow of block {blk} lost its contents at byte {j} (moved={})", moved as u8));
                        } else if zeroed
                            && let Some(j) = (b.len..len).find(|&j| unsafe { bp.add(j).read_volatile() } != 0)
                        {
                            oracle = Some(format!("grow_zeroed of block {blk}: byte {j} of the new tail is not zero (moved={})", moved as u8));
                        }
                    }
                    let sum = digest_at(h.base as *const u8, beg, len);
                    h.blocks[blk].beg = beg;
                    h.blocks[blk].len = len;
                    let nb = h.blocks[blk].clone();
                    h.write_pattern(&nb);
                    let oracle = oracle.or_else(|| h.check_all());
                    (format!("ok beg={beg} len={len} moved={} {} sum={sum}", moved as u8, h.oc()), oracle)
                }
                Err(_) => {
                    let mut oracle = None;
                    let fits = if tail { off0 + (new - b.len) <= h.cap } else { h.spec_beg(off0, b.align) + new <= h.cap };
                    if h.off() != off0 || h.commit() != commit0 {
                        oracle = Some(format!("failed grow changed the arena: {} (was off={off0} commit={commit0})", h.oc()));
                    } else if fits {
                        oracle = Some(format!("grow of block {blk} to {new} failed although it fits capacity {}", h.cap));
                    }
                    (format!("err {}", h.oc()), oracle.or_else(|| h.check_all()))
                }
            }
        }
        ["shrink", blk, new] => {
            let (Ok(blk), Ok(new)) = (blk.parse::<usize>(), new.parse::<usize>()) else { return bad() };
            let Some(b) = h.blocks.get(blk).cloned() else { return bad() };
            if !b.live || b.st.is_some() || new > b.len || b.beg + b.len != h.off() {
                return bad();
            }
            let (Ok(old_l), Ok(new_l)) = (Layout::from_size_align(b.len, b.align), Layout::from_size_align(new, b.align)) else { return bad() };
            let old_ptr = NonNull::new(h.bptr(b.beg)).unwrap();
            let r = unsafe { h.arena().shrink(old_ptr, old_l, new_l) };
            match r {
                Ok(p) => {
                    let ptr = p.as_ptr() as *mut u8 as usize;
                    let len = p.len();
                    let mut oracle = None;
                    if ptr != old_ptr.as_ptr() as usize || len != new {
                        oracle = Some(format!("shrink of tail block {blk} returned [{}, +{len})", ptr.wrapping_sub(h.base)));
                    } else if h.off() != b.beg + new {
                        oracle = Some(format!("offset {} after shrinking tail block to end {}", h.off(), b.beg + new));
                    }
                    h.blocks[blk].len = new;
                    let m = h.off();
                    h.kill_above(m, Some(blk));
                    (format!("ok beg={} len={len} moved=0 {}", ptr.wrapping_sub(h.base), h.oc()), oracle.or_else(|| h.check_all()))
                }
                Err(_) => (format!("err {}", h.oc()), Some("shrink failed".into())),
            }
        }
        ["mark"] => {
            h.marks.push(h.off());
            (h.oc(), None)
        }
        ["reset", k] => {
            let Ok(k) = k.parse::<usize>() else { return bad() };
            let Some(&m) = h.marks.get(k) else { return bad() };
            if m > h.off() {
                return bad();
            }
            let commit0 = h.commit();
            unsafe { h.arena().reset(m) };
            h.kill_above(m, None);
            let mut oracle = None;
            if h.off() != m || h.commit() != commit0 {
                oracle = Some(format!("after reset to {m}: {}", h.oc()));
            }
            (h.oc(), oracle.or_else(|| h.check_all()))
        }
        ["decommit"] => {
            let off0 = h.off();
            let commit0 = h.commit();
            h.arena().decommit();
            let mut oracle = None;
            if h.off() != off0 || h.commit() > commit0 {
                oracle = Some(format!("after decommit: {} (was off={off0} commit={commit0})", h.oc()));
            }
            (h.oc(), oracle.or_else(|| h.check_all()))
        }
        ["borrow"] => {
            h.borrows.push(h.off());
            (h.oc(), None)
        }
        ["release"] => {
            let Some(saved) = h.borrows.pop() else { return bad() };
            if saved > h.off() {
                return bad();
            }
            // what `ScratchArena::drop` does
            unsafe { h.arena().reset(saved) };
            h.arena().decommit();
            h.kill_above(saved, None);
            let mut oracle = None;
            if h.off() != saved {
                oracle = Some(format!("after release to {saved}: {}", h.oc()));
            }
            (h.oc(), oracle.or_else(|| h.check_all()))
        }
        ["fill", blk, seed] => {
            let (Ok(blk), Ok(seed)) = (blk.parse::<usize>(), seed.parse::<u64>()) else { return bad() };
            let Some(b) = h.blocks.get_mut(blk) else { return bad() };
            if !b.live || b.st.is_some() {
                return bad();
            }
            b.seed = seed;
            let b = b.clone();
            h.write_pattern(&b);
            ("ok".into(), h.check_all())
        }
        ["sum", blk] => {
            let Ok(blk) = blk.parse::<usize>() else { return bad() };
            let Some(b) = h.blocks.get(blk) else { return bad() };
            if !b.created {
                return bad();
            }
            if b.beg + b.len > h.commit() {
                return ("unreadable".into(), None);
            }
            (digest_at(h.base as *const u8, b.beg, b.len), None)
        }
        ["peek", off, len] => {
            let (Ok(off), Ok(len)) = (off.parse::<usize>(), len.parse::<usize>()) else { return bad() };
            if len > (1 << 20) || off > (1 << 40) {
                return bad();
            }
            let hi = (off + len).min(h.commit());
            if off >= hi {
                return ("empty".into(), None);
            }
            (digest_at(h.base as *const u8, off, hi - off), None)
        }
        ["vec", esz, n] => {
            let (Ok(esz), Ok(n)) = (esz.parse::<usize>(), n.parse::<usize>()) else { return bad() };
            if n > (1 << 20) {
                return bad();
            }
            let id = h.blocks.len();
            h.blocks.push(Blk { beg: 0, len: 0, align: esz.max(1), seed: id as u64, created: false, live: false, esz, st: None });
            match esz {
                1 => vec_run::<u8>(h, id, n, |s, i| pat(s, i)),
                2 => vec_run::<u16>(h, id, n, |s, i| u16::from_le_bytes(std::array::from_fn(|k| pat(s, 2 * i + k)))),
                4 => vec_run::<u32>(h, id, n, |s, i| u32::from_le_bytes(std::array::from_fn(|k| pat(s, 4 * i + k)))),
                8 => vec_run::<u64>(h, id, n, |s, i| u64::from_le_bytes(std::array::from_fn(|k| pat(s, 8 * i + k)))),
                _ => {
                    h.blocks.pop();
                    bad()
                }
            }
        }
        ["vpush", blk, n] => {
            let (Ok(blk), Ok(n)) = (blk.parse::<usize>(), n.parse::<usize>()) else { return bad() };
            let Some(b) = h.blocks.get(blk) else { return bad() };
            if !b.live || b.esz == 0 || b.len == 0 || b.len % b.esz != 0 || n > (1 << 20) {
                return bad();
            }
            match b.esz {
                1 => vec_run::<u8>(h, blk, n, |s, i| pat(s, i)),
                2 => vec_run::<u16>(h, blk, n, |s, i| u16::from_le_bytes(std::array::from_fn(|k| pat(s, 2 * i + k)))),
                4 => vec_run::<u32>(h, blk, n, |s, i| u32::from_le_bytes(std::array::from_fn(|k| pat(s, 4 * i + k)))),
                8 => vec_run::<u64>(h, blk, n, |s, i| u64::from_le_bytes(std::array::from_fn(|k| pat(s, 8 * i + k)))),
                _ => bad(),
            }
        }
        ["sstr", cap, n] => {
            let (Ok(cap), Ok(n)) = (cap.parse::<usize>(), n.parse::<usize>()) else { return bad() };
            if cap > (1 << 20) || n > cap {
                return bad();
            }
            str_new(h, SOp::New { cap, n })
        }
        ["sfrom", n] => {
            let Ok(n) = n.parse::<usize>() else { return bad() };
            if n > (1 << 20) {
                return bad();
            }
            str_new(h, SOp::From { n })
        }
        [op @ ("spush" | "schar" | "sres" | "sresx"), blk, n] => {
            let (Ok(blk), Ok(n)) = (blk.parse::<usize>(), n.parse::<usize>()) else { return bad() };
            if n > (1 << 20) || (*op == "schar" && !(1..=4).contains(&n)) {
                return bad();
            }
            let sop = match *op {
                "spush" => SOp::Push { n },
                "schar" => SOp::Char { k: n },
                "sres" => SOp::Reserve { n, exact: false },
                _ => SOp::Reserve { n, exact: true },
            };
            str_run(h, blk, sop)
        }
        ["srepeat", blk, k, n] => {
            let (Ok(blk), Ok(k), Ok(n)) = (blk.parse::<usize>(), k.parse::<usize>(), n.parse::<usize>()) else { return bad() };
            if n > (1 << 18) || !(1..=4).contains(&k) {
                return bad();
            }
            str_run(h, blk, SOp::Repeat { k, n })
        }
        ["sshrink", blk] => {
            let Ok(blk) = blk.parse::<usize>() else { return bad() };
            str_run(h, blk, SOp::Shrink)
        }
        ["sclear", blk] => {
            let Ok(blk) = blk.parse::<usize>() else { return bad() };
            str_run(h, blk, SOp::Clear)
        }
        ["srep", blk, lo, hi, n] => {
            let (Ok(blk), Ok(lo), Ok(n)) = (blk.parse::<usize>(), lo.parse::<usize>(), n.parse::<usize>()) else { return bad() };
            let hi = if *hi == "-" { None } else if let Ok(x) = hi.parse::<usize>() { Some(x) } else { return bad() };
            if n > (1 << 20) || lo > (1 << 40) || hi.is_some_and(|x| x > (1 << 40)) {
                return bad();
            }
            str_run(h, blk, SOp::Replace { lo, hi, n })
        }
        ["sonce", blk, pos, k, n] => {
            let (Ok(blk), Ok(pos), Ok(k), Ok(n)) = (blk.parse::<usize>(), pos.parse::<usize>(), k.parse::<usize>(), n.parse::<usize>()) else {
                return bad();
            };
            if n > (1 << 20) || k > (1 << 20) || pos > (1 << 40) {
                return bad();
            }
            str_run(h, blk, SOp::Once { pos, k, n })
        }
        _ => bad(),
    }
}

// ------------------------------------------------------------------------------------------------
// ArenaString

#[derive(Clone, Copy)]
enum SOp {
    New { cap: usize, n: usize },
    From { n: usize },
    Push { n: usize },
    Char { k: usize },
    Repeat { k: usize, n: usize },
    Reserve { n: usize, exact: bool },
    Shrink,
    Clear,
    Replace { lo: usize, hi: Option<usize>, n: usize },
    Once { pos: usize, k: usize, n: usize },
}

/// What the real string looked like after an operation.
struct Seen {
    ptr: usize,
    len: usize,
    cap: usize,
    refused: bool,
}

/// Run `op` on the real `ArenaString` whose buffer is `[ptr, ptr + cap)` with length `len` (cap 0:
/// a string that has not allocated).  `text`/`old` are the operand strings.  The string is forgotten
/// afterwards (its buffer stays in the arena as a numbered block).
fn str_exec(arena: &Arena, ptr: *mut u8, len: usize, cap: usize, op: SOp, text: &str, old: &str) -> Seen {
    let mut s: ArenaString = match op {
        SOp::New { cap, .. } => ArenaString::with_capacity_in(cap, arena),
        SOp::From { .. } => ArenaString::from_str(arena, text),
        _ if cap == 0 => ArenaString::new_in(arena),
        _ => unsafe { ArenaString::from_utf8_unchecked(Vec::from_raw_parts_in(ptr, len, cap, arena)) },
    };
    let mut refused = false;
    match op {
        SOp::New { .. } | SOp::Push { .. } => s.push_str(text),
        SOp::From { .. } => {}
        SOp::Char { k } => s.push(CHARS[k - 1]),
        SOp::Repeat { k, n } => s.push_repeat(CHARS[k - 1], n),
        SOp::Reserve { n, exact: false } => s.reserve(n),
        SOp::Reserve { n, exact: true } => s.reserve_exact(n),
        SOp::Shrink => s.shrink_to_fit(),
        SOp::Clear => s.clear(),
        SOp::Replace { lo, hi, .. } => {
            // the char-boundary assertions of `replace_range` are ordinary panics: a clean refusal
            let r = match hi {
                Some(hi) => util::catch(|| s.replace_range(lo..hi, text)),
                None => util::catch(|| s.replace_range(lo.., text)),
            };
            refused = r.is_err();
        }
        SOp::Once { .. } => s.replace_once_in_place(old, text),
    }
    let seen = Seen { ptr: s.as_bytes().as_ptr() as usize, len: s.len(), cap: s.capacity(), refused };
    std::mem::forget(s);
    seen
}

/// Does `f` kill a forked copy of this process?  (Used for requests the allocator must refuse:
/// `Vec::reserve` answers an `AllocError` with `handle_alloc_error`, i.e. abort.)  When no child can be
/// made the answer is yes: the caller only asks about requests that cannot fit.
fn dies_in_child(f: impl FnOnce()) -> bool {
    unsafe {
        let pid = libc::fork();
        if pid < 0 {
            return true;
        }
        if pid == 0 {
            // die quietly (no core dump, no message)
            extern "C" fn quit(_: libc::c_int) {
                unsafe { libc::_exit(1) }
            }
            for sig in [libc::SIGABRT, libc::SIGSEGV, libc::SIGBUS] {
                libc::signal(sig, quit as extern "C" fn(libc::c_int) as libc::sighandler_t);
            }
            let devnull = libc::open(c"/dev/null".as_ptr(), libc::O_WRONLY);
            if devnull >= 0 {
                libc::dup2(devnull, 2);
            }
            let _ = util::catch(f);
            libc::_exit(0);
        }
        let mut status = 0;
        libc::waitpid(pid, &mut status, 0);
        !(libc::WIFEXITED(status) && libc::WEXITSTATUS(status) == 0)
    }
}

fn str_new(h: &mut H, op: SOp) -> Ans {
    let id = h.blocks.len();
    h.blocks.push(Blk {
        beg: 0,
        len: 0,
        align: 1,
        seed: id as u64,
        created: false,
        live: false,
        esz: 0,
        st: Some(StrSt { len: 0, shadow: vec![], reference: String::new() }),
    });
    let (ans, oracle, made) = str_do(h, id, op);
    if !made {
        // the constructor aborted: there is no such string
        h.blocks[id].st = None;
    }
    (ans, oracle)
}

fn str_run(h: &mut H, id: usize, op: SOp) -> Ans {
    let Some(b) = h.blocks.get(id) else { return bad() };
    // usable: a string whose buffer (if it has one) has not been given back by a reset
    if b.st.is_none() || (b.len > 0 && !b.live) {
        return bad();
    }
    let (ans, oracle, _) = str_do(h, id, op);
    (ans, oracle)
}

fn str_do(h: &mut H, id: usize, op: SOp) -> (String, Option<String>, bool) {
    let b = h.blocks[id].clone();
    let st = b.st.clone().unwrap();
    let (beg0, cap0, len0) = (b.beg, b.len, st.len);
    let (off0, commit0) = (h.off(), h.commit());
    let tail = cap0 > 0 && beg0 + cap0 == off0;
    let sd = |salt: u64| 31 * id as u64 + len0 as u64 + salt;
    // operands, the reference result and the reserve request the real code is specified to make
    let mut reference = st.reference.clone();
    let mut text = String::new();
    let mut old = String::new();
    let mut at: Option<Option<usize>> = None;
    // (additional, exact) for `reserve`; None = the operation does not reserve
    let mut want: Option<(usize, bool)> = None;
    let mut expect_refused = false;
    let mut first_cap: Option<usize> = None;
    match op {
        SOp::New { cap, n } => {
            text = apat_str(sd(1), n);
            reference.push_str(&text);
            first_cap = Some(cap);
        }
        SOp::From { n } => {
            text = apat_str(sd(1), n);
            reference.push_str(&text);
            first_cap = Some(n);
        }
        SOp::Push { n } => {
            text = apat_str(sd(2), n);
            reference.push_str(&text);
            want = Some((n, false));
        }
        SOp::Char { k } => {
            reference.push(CHARS[k - 1]);
            want = Some((CHARS[k - 1].len_utf8(), false));
        }
        SOp::Repeat { k, n } => {
            reference.extend(std::iter::repeat_n(CHARS[k - 1], n));
            want = Some((CHARS[k - 1].len_utf8() * n, false));
        }
        SOp::Reserve { n, exact } => want = Some((n, exact)),
        SOp::Shrink => {
            if cap0 > len0 && len0 > 0 && !tail {
                // `Allocator::shrink` of a block that is not the tail: a debug assertion of the arena
                return ("bad-op".into(), None, true);
            }
        }
        SOp::Clear => reference.clear(),
        SOp::Replace { lo, hi, n } => {
            text = apat_str(sd(3), n);
            let ok = |i: usize| reference.is_char_boundary(i);
            if !ok(lo) || hi.is_some_and(|x| !ok(x)) {
                expect_refused = true;
            } else {
                let off = lo.min(len0);
                let del = hi.unwrap_or(usize::MAX).saturating_sub(off).min(len0 - off);
                reference.replace_range(off..off + del, &text);
                if del > 0 || n > 0 {
                    want = Some((n.saturating_sub(del), false));
                }
            }
        }
        SOp::Once { pos, k, n } => {
            text = apat_str(sd(4), n);
            old = match reference.get(pos..pos.saturating_add(k)) {
                Some(slice) => slice.to_string(),
                None => "~".repeat(k),
            };
            let found = reference.find(&old);
            at = Some(found);
            if let Some(i) = found {
                reference.replace_range(i..i + old.len(), &text);
                if !old.is_empty() || n > 0 {
                    want = Some((n.saturating_sub(old.len()), false));
                }
            }
        }
    }
    let cap_want = match (first_cap, want) {
        (Some(c), _) => c,
        (None, Some((add, exact))) => reserve_cap(cap0, len0, add, exact),
        (None, None) => match op {
            SOp::Shrink if cap0 > len0 => len0,
            _ => cap0,
        },
    };
    // a request the allocator has to refuse is not executed in this process
    if cap_want > cap0 {
        let fits = if tail { off0 + (cap_want - cap0) <= h.cap } else { h.spec_beg(off0, 1) + cap_want <= h.cap };
        if !fits {
            let arena: &Arena = unsafe { &*(&**h.arena.as_ref().unwrap() as *const Arena) };
            let p = h.bptr(beg0);
            if dies_in_child(|| {
                str_exec(arena, p, len0, cap0, op, &text, &old);
            }) {
                let mut oracle = None;
                if h.off() != off0 || h.commit() != commit0 {
                    oracle = Some(format!("refused string growth changed the arena: {}", h.oc()));
                }
                return (format!("abort {}", h.oc()), oracle.or_else(|| h.check_all()), false);
            }
        }
    }
    let arena: &Arena = unsafe { &*(&**h.arena.as_ref().unwrap() as *const Arena) };
    let seen = str_exec(arena, h.bptr(beg0), len0, cap0, op, &text, &old);
    let what = format!("string {id}");
    let beg = seen.ptr.wrapping_sub(h.base);
    let moved = cap0 > 0 && seen.cap > 0 && seen.ptr != h.base + beg0;
    let at_txt = match at {
        Some(Some(i)) => format!(" at={i}"),
        Some(None) => " at=none".to_string(),
        None => String::new(),
    };
    let head = |h: &H| {
        let b = if seen.cap == 0 { "-".to_string() } else { beg.to_string() };
        format!("ok{at_txt} beg={b} len={} cap={} moved={} {}", seen.len, seen.cap, moved as u8, h.oc())
    };
    // --- the oracle
    let mut oracle: Option<String> = None;
    if seen.len > seen.cap {
        oracle = Some(format!("{what}: length {} exceeds capacity {}", seen.len, seen.cap));
    } else if seen.cap > 0 && (seen.ptr < h.base || beg + seen.cap > h.cap || beg + seen.cap > h.commit() || beg + seen.cap > h.off()) {
        oracle = Some(format!("{what}: buffer [{beg}, {}) outside {} cap {}", beg.wrapping_add(seen.cap), h.oc(), h.cap));
    }
    if oracle.is_some() {
        // not safe to look at: the string is lost
        let blk = &mut h.blocks[id];
        blk.live = false;
        blk.st = None;
        return (head(h), oracle, true);
    }
    if seen.refused != expect_refused {
        oracle = Some(format!("{what}: replace_range {} although the bounds are{} char boundaries", if seen.refused { "panicked" } else { "went ahead" },
                              if expect_refused { " not" } else { "" }));
    } else if seen.refused && (seen.ptr != h.base + beg0 && cap0 > 0 || seen.len != len0 || seen.cap != cap0) {
        oracle = Some(format!("{what}: a refused replace_range changed the string"));
    } else if seen.cap != cap_want {
        oracle = Some(format!("{what}: capacity {} after the operation, std's growth policy gives {cap_want} (was len {len0} cap {cap0})", seen.cap));
    } else if seen.cap == cap0 && moved {
        oracle = Some(format!("{what}: buffer moved without growing"));
    } else if tail && moved {
        oracle = Some(format!("{what}: tail buffer moved on grow"));
    } else if moved && beg < off0 {
        oracle = Some(format!("{what}: buffer moved to {beg} below the old offset {off0}"));
    } else if seen.len != reference.len() {
        oracle = Some(format!("{what}: length {} but std::String has {}", seen.len, reference.len()));
    }
    let content: Vec<u8> = (0..seen.len).map(|j| unsafe { ((seen.ptr + j) as *const u8).read_volatile() }).collect();
    if oracle.is_none() {
        if let Some(j) = (0..seen.len).find(|&j| content[j] != reference.as_bytes()[j]) {
            oracle = Some(format!("{what}: content differs from std::String at byte {j}"));
        } else if std::str::from_utf8(&content).is_err() {
            oracle = Some(format!("{what}: content is not UTF-8"));
        }
    }
    let sum = if seen.cap == 0 { digest_at(h.base as *const u8, 0, 0) } else { digest_at(h.base as *const u8, beg, seen.len) };
    // --- bookkeeping: the buffer as the owner left it
    let shadow: Vec<u8> = (0..seen.cap).map(|j| unsafe { ((seen.ptr + j) as *const u8).read_volatile() }).collect();
    let blk = &mut h.blocks[id];
    blk.beg = if seen.cap == 0 { 0 } else { beg };
    blk.len = seen.cap;
    blk.live = seen.cap > 0;
    blk.created |= seen.cap > 0;
    blk.st = Some(StrSt { len: seen.len, shadow, reference: if oracle.is_none() { reference } else { String::from_utf8_lossy(&content).into_owned() } });
    if matches!(op, SOp::Shrink) && seen.cap < cap0 && seen.cap > 0 {
        // the tail was lowered: whatever lay above it (zero-sized blocks at the old offset) is gone
        let m = h.off();
        h.kill_above(m, Some(id));
    }
    let oracle = oracle.or_else(|| h.check_all());
    if seen.refused {
        return (format!("refused {}", h.oc()), oracle, true);
    }
    (format!("{} sum={sum}", head(h)), oracle, true)
}

/// `vec` / `vpush`: push `n` elements onto a real `Vec<T, &Arena>` (fresh, or re-adopted full from
/// block `id`), keeping the buffer as block `id`. Growth goes through `try_reserve(1)` (the same
/// `grow_amortized` path as `push`, but an allocation failure is an `Err` instead of an abort).
fn vec_run<T: Copy>(h: &mut H, id: usize, n: usize, elem: impl Fn(u64, usize) -> T) -> Ans {
    let esz = std::mem::size_of::<T>();
    let start = h.blocks[id].clone();
    let seed = start.seed;
    // the arena outlives the Vec (which is forgotten before this function returns)
    let arena: &Arena = unsafe { &*(&**h.arena.as_ref().unwrap() as *const Arena) };
    let mut v: Vec<T, &Arena> = if start.live {
        let cap = start.len / esz;
        unsafe { Vec::from_raw_parts_in(h.bptr(start.beg) as *mut T, cap, cap, arena) }
    } else {
        Vec::new_in(arena)
    };
    let mut caps: Vec<usize> = vec![];
    let mut oracle: Option<String> = None;
    let mut last_sum = String::new();
    let mut failed = false;
    for _ in 0..n {
        if v.len() == v.capacity() {
            let old_cap = v.capacity();
            let old_beg = if old_cap > 0 { v.as_ptr() as usize - h.base } else { 0 };
            let (off0, commit0) = (h.off(), h.commit());
            let tail = old_cap > 0 && old_beg + old_cap * esz == off0;
            if v.try_reserve(1).is_err() {
                failed = true;
                let want_cap = next_cap(old_cap, v.len(), esz);
                let fits = if old_cap == 0 {
                    h.spec_beg(off0, esz) + want_cap * esz <= h.cap
                } else if tail {
                    off0 + (want_cap - old_cap) * esz <= h.cap
                } else {
                    h.spec_beg(off0, esz) + want_cap * esz <= h.cap
                };
                if h.off() != off0 || h.commit() != commit0 {
                    oracle = oracle.or(Some(format!("failed Vec growth changed the arena: {}", h.oc())));
                } else if fits {
                    oracle = oracle.or(Some(format!("Vec growth to {want_cap} elements failed although it fits")));
                }
                break;
            }
            let cap = v.capacity();
            caps.push(cap);
            let ptr = v.as_mut_ptr() as usize;
            let beg = ptr.wrapping_sub(h.base);
            let len = cap * esz;
            if ptr % esz != 0 {
                oracle = oracle.or(Some(format!("misaligned block {id}: addr mod {esz} = {}", ptr % esz)));
            } else if ptr < h.base || beg + len > h.cap || beg + len > h.commit() || beg + len > h.off() {
                oracle = oracle.or(Some(format!("Vec buffer {id} [{beg}, {}) outside {} cap {}", beg.wrapping_add(len), h.oc(), h.cap)));
                std::mem::forget(v);
                h.blocks[id].live = false;
                return (format!("ok beg={beg} len={len} caps={} {}", join(&caps), h.oc()), oracle);
            } else if tail && beg != old_beg {
                oracle = oracle.or(Some(format!("tail Vec buffer {id} moved on grow")));
            }
            if oracle.is_none() {
                let bp = h.bptr(beg);
                if let Some(j) = (0..old_cap * esz).find(|&j| unsafe { bp.add(j).read_volatile() } != pat(seed, j)) {
                    oracle = Some(format!("Vec growth of block {id} lost its contents at byte {j}"));
                }
            }
            last_sum = digest_at(h.base as *const u8, beg, len);
            let b = &mut h.blocks[id];
            b.beg = beg;
            b.len = len;
            b.align = esz;
            b.created = true;
            b.live = true;
            b.esz = esz;
            let nb = b.clone();
            h.write_pattern(&nb);
            if oracle.is_none() {
                oracle = h.check_all();
            }
        }
        let i = v.len();
        v.push(elem(seed, i));
    }
    std::mem::forget(v);
    let oracle = oracle.or_else(|| h.check_all());
    let b = &h.blocks[id];
    if failed {
        (format!("err caps={} {}", join(&caps), h.oc()), oracle)
    } else if !b.live {
        (format!("ok none {}", h.oc()), oracle)
    } else if caps.is_empty() {
        (format!("ok beg={} len={} caps=- {}", b.beg, b.len, h.oc()), oracle)
    } else {
        (format!("ok beg={} len={} caps={} {} sum={last_sum}", b.beg, b.len, join(&caps), h.oc()), oracle)
    }
}

fn join(xs: &[usize]) -> String {
    if xs.is_empty() {
        return "-".into();
    }
    xs.iter().map(|x| x.to_string()).collect::<Vec<_>>().join(",")
}
