//! Family `readline` (C17): `read_line` over a real pipe with controlled chunking.
//!
//! Protocol (one request per line, one answer per line):
//! ```text
//! chunks <hex>|<hex>|… calls=<k> [delay=<µs>]  -> lines=<hex>,<hex>,… utf8=<one 0/1 per line>
//! ```
//! `-` is the empty byte string; with `calls=0` the answer is `lines=none utf8=none`. A call that
//! fails is shown as `!err<os error>` / `!panic` in place of its hex (utf8 bit `x`); a process
//! that dies answers `died(<status>)`.
//!
//! Meaning: the chunks are written to the standard input of the code under test one `write(2)` at
//! a time, each only after the previous one has been read completely (`FIONREAD == 0` on the pipe),
//! then the pipe is closed; the code calls `read_line("")` `k` times. Because a `write` that fits
//! the (empty) pipe becomes visible atomically and the next one is held back until the pipe is
//! drained, every `read(2)` of the code under test sees exactly (a buffer-bounded prefix of) one
//! chunk: the schedule is deterministic, however slow or loaded the machine is.
//!
//! Actions:
//! * `gen --seed S --n N [--valid-utf8] [--no-long] [--cap C]` — request lines (`C`: the buffer's
//!   initial capacity, default 8192; long lines and cuts are placed around it and its doublings).
//! * `one` — reads ONE request (raw `read(2)` on its original fd 0), replaces fd 0 by a pipe fed by a
//!   thread, calls the real `GlobalBuiltin::read_line` `k` times in-process, prints the answer.
//!   One process per case: the (fixed) code keeps its unread bytes in a process-wide buffer, so
//!   cases must not share a process.
//! * `run [--jobs J]` — answers request lines from stdin by spawning `nvh readline one` per case
//!   (J at a time), and evaluates the oracle: the text cut at `\n` by hand, no model involved.
//!   `ORACLE-FAIL <line> <what>` on stderr.
//! * `cli --naija PATH --tmp DIR [--file] [--jobs J]` — the same requests through the real `naija`
//!   binary running an echo script, stdin through a pipe fed the same way, or (`--file`) from a
//!   file holding the concatenated chunks. Same answers, same oracle.

use std::io::{Read, Write};
use std::os::fd::AsRawFd;
use std::process::{Command, Stdio};
use std::sync::atomic::{AtomicUsize, Ordering};
use std::sync::Mutex;
use std::time::Duration;

use naijascript::arena::{Arena, ArenaCow};
use naijascript::builtins::GlobalBuiltin;
use naijascript::runtime::Value;

use crate::util::{self, Out, Rng};

/// Largest chunk the feeder accepts: must fit the pipe so that one `write` is one atomic event.
const PIPE_SIZE: usize = 256 * 1024;
const MAX_CHUNK: usize = 20 * 1024 * 1024;
const MAX_CALLS: usize = 64;

pub fn main(args: &[String]) -> i32 {
    match args.first().map(String::as_str) {
        Some("gen") => generate(&args[1..]),
        Some("one") => one(),
        Some("run") => run(&args[1..]),
        Some("cli") => cli(&args[1..]),
        _ => {
            eprintln!(
                "usage: nvh readline gen --seed S --n N [--valid-utf8] [--no-long] [--cap C] | run [--jobs J] | one | \
                 cli --naija PATH --tmp DIR [--file] [--jobs J]"
            );
            2
        }
    }
}

/// Constants/tables of the compiled crate this family wants in `nvh dump-tables`: none — the
/// constants of `read_line` are private locals and are taken from the source by
/// `extract/gen_readline.py`.
pub fn dump_tables(_out: &mut Vec<(String, String)>) {}

// ------------------------------------------------------------------------------------ requests

struct Req {
    chunks: Vec<Vec<u8>>,
    calls: usize,
    delay_us: u64,
    /// `threads=1`: every call of the in-process case runs on a thread of its own (one after the other): what one
    /// call read ahead must be there for the next one, whichever thread makes it (seed C17-d1: a per-thread buffer).
    /// The model and the CLI streams ignore the field.
    threads: bool,
    /// `tty=1`: standard input of the in-process case is the slave side of a pseudo-terminal in canonical mode;
    /// every chunk is one write to the master followed by the end-of-file character (which hands an unfinished
    /// line to the reader as it is), so each chunk arrives as `read(2)`s of its own exactly like on a pipe, and a
    /// final end-of-file character on an empty line is the end of input (seed C17-e2: a terminal fast path that
    /// takes one read for one line). Only for texts without control characters other than LF / CR / TAB and with
    /// chunks below the canonical line limit; the model and the CLI streams ignore the field.
    tty: bool,
}

fn parse(line: &str) -> Option<Req> {
    let w: Vec<&str> = line.split_whitespace().collect();
    if w.len() < 3 || w[0] != "chunks" {
        return None;
    }
    let chunks: Option<Vec<Vec<u8>>> = w[1].split('|').map(unhex_chunk).collect();
    let chunks = chunks?;
    let calls: usize = w[2].strip_prefix("calls=")?.parse().ok()?;
    let mut delay_us = 0;
    let mut threads = false;
    let mut tty = false;
    for x in &w[3..] {
        if let Some(d) = x.strip_prefix("delay=") {
            delay_us = d.parse().ok()?;
        }
        if *x == "threads=1" {
            threads = true;
        }
        if *x == "tty=1" {
            tty = true;
        }
    }
    if calls > MAX_CALLS || chunks.iter().any(|c| c.len() > MAX_CHUNK) {
        return None;
    }
    if tty && !tty_deliverable(&chunks) {
        return None;
    }
    Some(Req { chunks, calls, delay_us, threads, tty })
}

/// A chunk: `+`-joined parts, each plain hex (`-` = empty) or a run `HH*N` (N copies of the byte HH) —
/// lines of several MiB stay a few characters long in the request.
fn unhex_chunk(tok: &str) -> Option<Vec<u8>> {
    let mut out = Vec::new();
    for part in tok.split('+') {
        if let Some((b, n)) = part.split_once('*') {
            let b = util::unhex(b)?;
            if b.len() != 1 {
                return None;
            }
            let n: usize = n.parse().ok()?;
            if out.len() + n > MAX_CHUNK {
                return None;
            }
            out.resize(out.len() + n, b[0]);
        } else {
            out.extend(util::unhex(part)?);
        }
    }
    Some(out)
}

/// FNV-1a, 64 bit: long lines are answered as `L<length>:<digest>` (see `LONG_LINE`).
fn fnv64(b: &[u8]) -> u64 {
    let mut h: u64 = 0xcbf2_9ce4_8422_2325;
    for &x in b {
        h ^= u64::from(x);
        h = h.wrapping_mul(0x0000_0100_0000_01b3);
    }
    h
}

/// Lines longer than this are rendered by length and digest instead of hex.
const LONG_LINE: usize = 256 * 1024;

fn request_line(chunks: &[Vec<u8>], calls: usize, delay_us: u64) -> String {
    let c: Vec<String> = chunks.iter().map(|c| util::hex(c)).collect();
    let mut s = format!("chunks {} calls={}", c.join("|"), calls);
    if delay_us > 0 {
        s.push_str(&format!(" delay={delay_us}"));
    }
    s
}

/// One result of a call: the bytes, or what went wrong.
enum CallResult {
    Line(Vec<u8>),
    Bad(String),
}

fn render(results: &[CallResult]) -> String {
    if results.is_empty() {
        return "lines=none utf8=none".to_string();
    }
    let mut lines = Vec::new();
    let mut bits = String::new();
    for r in results {
        match r {
            CallResult::Line(b) => {
                lines.push(if b.len() > LONG_LINE { format!("L{}:{:016x}", b.len(), fnv64(b)) } else { util::hex(b) });
                bits.push(if std::str::from_utf8(b).is_ok() { '1' } else { '0' });
            }
            CallResult::Bad(what) => {
                lines.push(format!("!{what}"));
                bits.push('x');
            }
        }
    }
    format!("lines={} utf8={}", lines.join(","), bits)
}

/// The oracle: the first `k` lines of the text, cut at `\n` by hand. Independent of the Lean model
/// and of the implementation.
fn oracle_lines(text: &[u8], k: usize) -> Vec<Vec<u8>> {
    let mut out = Vec::new();
    let mut pos = 0usize;
    for _ in 0..k {
        let mut end = pos;
        while end < text.len() && text[end] != b'\n' {
            end += 1;
        }
        out.push(text[pos..end].to_vec());
        pos = if end < text.len() { end + 1 } else { end };
    }
    out
}

fn oracle_answer(req: &Req) -> String {
    let text: Vec<u8> = req.chunks.concat();
    let want: Vec<CallResult> = oracle_lines(&text, req.calls).into_iter().map(CallResult::Line).collect();
    render(&want)
}

fn short(s: &str) -> String {
    if s.len() > 160 { format!("{}…({} chars)", &s[..160], s.len()) } else { s.to_string() }
}

/// Compare an implementation answer with the oracle; `Some(what)` on failure.
fn oracle_check(req: &Req, answer: &str) -> Option<String> {
    let want = oracle_answer(req);
    if answer != want {
        return Some(format!("lines differ: got {} want {}", short(answer), short(&want)));
    }
    None
}

// ------------------------------------------------------------------------------------- feeding

fn pending_bytes(fd: i32) -> i32 {
    let mut n: libc::c_int = 0;
    let r = unsafe { libc::ioctl(fd, libc::FIONREAD, &mut n) };
    if r < 0 { -1 } else { n }
}

fn write_all_fd(fd: i32, mut data: &[u8]) -> bool {
    while !data.is_empty() {
        let n = unsafe { libc::write(fd, data.as_ptr().cast(), data.len()) };
        if n < 0 {
            let e = std::io::Error::last_os_error();
            if e.kind() == std::io::ErrorKind::Interrupted {
                continue;
            }
            return false; // EPIPE: the reader is gone
        }
        data = &data[n as usize..];
    }
    true
}

/// Write the chunks to `fd` one at a time, each only once the pipe is empty; `alive()` says whether
/// the reader still exists. Does not close `fd`.
/// What a canonical-mode terminal with every special character but end-of-file (0x04) and LF disabled delivers
/// unchanged: no 0x04, no NUL, no other control characters than LF / CR / TAB, every chunk well below the
/// canonical line limit (4096).
fn tty_deliverable(chunks: &[Vec<u8>]) -> bool {
    chunks.iter().all(|c| c.len() <= 3500 && c.iter().all(|&b| b >= 0x20 && b != 0x7f || matches!(b, b'\n' | b'\r' | b'\t')))
}

/// Opens a pseudo-terminal, makes its slave side fd 0 (canonical mode, no echo, no signals, no translations, every
/// editing character disabled) and returns (master fd, a second fd of the slave for FIONREAD).
fn tty_stdin() -> Option<(i32, i32)> {
    let (mut master, mut slave) = (0i32, 0i32);
    if unsafe { libc::openpty(&mut master, &mut slave, std::ptr::null_mut(), std::ptr::null(), std::ptr::null()) } != 0 {
        return None;
    }
    let mut t: libc::termios = unsafe { std::mem::zeroed() };
    if unsafe { libc::tcgetattr(slave, &mut t) } != 0 {
        return None;
    }
    t.c_iflag = 0;
    t.c_oflag = 0;
    t.c_lflag = libc::ICANON;
    for c in t.c_cc.iter_mut() {
        *c = 0; // _POSIX_VDISABLE
    }
    t.c_cc[libc::VEOF] = 4;
    t.c_cc[libc::VMIN] = 1;
    if unsafe { libc::tcsetattr(slave, libc::TCSANOW, &t) } != 0 {
        return None;
    }
    let probe = unsafe { libc::dup(slave) };
    unsafe {
        libc::dup2(slave, 0);
        libc::close(slave);
    }
    Some((master, probe))
}

/// Feeder of the terminal case: each chunk in one write, the end-of-file character behind a chunk that does not
/// end a line, the next chunk only when the reader has taken everything; afterwards an end-of-file character on
/// the empty line whenever the reader has nothing to read (each one is one zero-length read: the end of input,
/// again and again, as a terminal does it).
fn feed_tty(master: i32, probe: i32, chunks: &[Vec<u8>]) {
    let drained = || {
        let mut n: libc::c_int = 0;
        for _ in 0..200_000 {
            if unsafe { libc::ioctl(probe, libc::FIONREAD, &mut n) } != 0 {
                return false;
            }
            if n == 0 {
                return true;
            }
            std::thread::sleep(Duration::from_micros(50));
        }
        false
    };
    for c in chunks {
        if c.is_empty() {
            continue;
        }
        if !drained() {
            return;
        }
        // a short pause: FIONREAD says 0 as soon as the bytes are copied out, a moment before the reader is back in read(2)
        std::thread::sleep(Duration::from_micros(300));
        if !write_all_fd(master, c) {
            return;
        }
        if c.last() != Some(&b'\n') && !write_all_fd(master, &[4]) {
            return;
        }
    }
    for _ in 0..400 {
        if !drained() {
            return;
        }
        std::thread::sleep(Duration::from_millis(2));
        if !write_all_fd(master, &[4]) {
            return;
        }
    }
}

fn feed(fd: i32, chunks: &[Vec<u8>], delay_us: u64, alive: &mut dyn FnMut() -> bool) {
    let wait_drained = |alive: &mut dyn FnMut() -> bool| -> bool {
        let mut spins = 0u32;
        loop {
            match pending_bytes(fd) {
                0 => return true,
                n if n < 0 => return false,
                _ => {}
            }
            spins += 1;
            if spins % 64 == 0 && !alive() {
                return false;
            }
            std::thread::sleep(Duration::from_micros(if spins < 200 { 20 } else { 200 }));
        }
    };
    for c in chunks {
        if c.is_empty() {
            continue; // a zero-length write is no event for the reader
        }
        if !wait_drained(alive) {
            return;
        }
        if delay_us > 0 {
            std::thread::sleep(Duration::from_micros(delay_us));
        }
        if !write_all_fd(fd, c) {
            return;
        }
    }
    if wait_drained(alive) && delay_us > 0 {
        std::thread::sleep(Duration::from_micros(delay_us));
    }
}

fn grow_pipe(fd: i32) -> bool {
    let r = unsafe { libc::fcntl(fd, libc::F_SETPIPE_SZ, PIPE_SIZE as libc::c_int) };
    if r >= 0 {
        return true;
    }
    let have = unsafe { libc::fcntl(fd, libc::F_GETPIPE_SZ) };
    have >= PIPE_SIZE as libc::c_int
}

// ----------------------------------------------------------------------------- one (in-process)

fn read_all_fd0() -> Vec<u8> {
    let mut buf = Vec::new();
    let mut tmp = [0u8; 65536];
    loop {
        let n = unsafe { libc::read(0, tmp.as_mut_ptr().cast(), tmp.len()) };
        if n < 0 {
            if std::io::Error::last_os_error().kind() == std::io::ErrorKind::Interrupted {
                continue;
            }
            break;
        }
        if n == 0 {
            break;
        }
        buf.extend_from_slice(&tmp[..n as usize]);
    }
    buf
}

fn one() -> i32 {
    util::silence_panics();
    // Safety net for the whole case: a hung case dies with SIGALRM and the parent reports it.
    unsafe { libc::alarm(120) };
    let raw = read_all_fd0();
    let text = String::from_utf8_lossy(&raw);
    let Some(req) = text.lines().next().and_then(parse) else {
        println!("bad-request");
        return 0;
    };
    if req.tty {
        let Some((master, probe)) = tty_stdin() else {
            println!("machinery(pty)");
            return 0;
        };
        let chunks = req.chunks.clone();
        std::thread::spawn(move || feed_tty(master, probe, &chunks));
        return one_calls(&req);
    }
    let mut fds = [0i32; 2];
    if unsafe { libc::pipe(fds.as_mut_ptr()) } != 0 {
        println!("machinery(pipe)");
        return 0;
    }
    let (rfd, wfd) = (fds[0], fds[1]);
    if !grow_pipe(wfd) && req.chunks.iter().any(|c| c.len() > 60_000) {
        println!("machinery(pipe-size)");
        return 0;
    }
    unsafe {
        libc::dup2(rfd, 0);
        libc::close(rfd);
    }
    let chunks = req.chunks.clone();
    let delay = req.delay_us;
    // never joined: when the calls are done the process exits, whatever the feeder is waiting for
    std::thread::spawn(move || {
        feed(wfd, &chunks, delay, &mut || true);
        unsafe { libc::close(wfd) };
    });

    one_calls(&req)
}

/// The calls of one in-process case (stdin is set up), and its answer line.
fn one_calls(req: &Req) -> i32 {
    let arena = Arena::new(256 << 20).expect("arena");
    let prompt = Value::Str(ArenaCow::Borrowed(""));
    let mut results = Vec::new();
    for _ in 0..req.calls {
        let r = if req.threads {
            // a thread (and an arena) of its own for this call; joined before the next call starts
            std::thread::spawn(|| {
                util::catch(|| {
                    let arena = Arena::new(64 << 20).expect("arena");
                    let prompt = Value::Str(ArenaCow::Borrowed(""));
                    GlobalBuiltin::read_line(&prompt, &arena).map(|s| s.as_bytes().to_vec())
                })
            })
            .join()
            .unwrap_or_else(|_| Err("thread".to_string()))
        } else {
            util::catch(|| GlobalBuiltin::read_line(&prompt, &arena).map(|s| s.as_bytes().to_vec()))
        };
        results.push(match r {
            Ok(Ok(bytes)) => CallResult::Line(bytes),
            Ok(Err(e)) => CallResult::Bad(format!("err{}", e.raw_os_error().unwrap_or(0))),
            Err(_) => CallResult::Bad("panic".to_string()),
        });
    }
    let mut out = std::io::stdout().lock();
    let _ = writeln!(out, "{}", render(&results));
    let _ = out.flush();
    0
}

// --------------------------------------------------------------------------------- run (parent)

fn jobs(args: &[String]) -> usize {
    let dflt = std::thread::available_parallelism().map_or(4, |n| n.get()).min(8) as u64;
    util::opt_u64(args, "--jobs", dflt).max(1) as usize
}

/// Run `work(i, request)` for every request on `jobs` threads; answers in request order.
fn parallel(lines: &[String], jobs: usize, work: impl Fn(usize, &str) -> String + Sync) -> Vec<String> {
    let next = AtomicUsize::new(0);
    let answers: Mutex<Vec<Option<String>>> = Mutex::new(vec![None; lines.len()]);
    std::thread::scope(|s| {
        for _ in 0..jobs.min(lines.len().max(1)) {
            s.spawn(|| {
                loop {
                    let i = next.fetch_add(1, Ordering::SeqCst);
                    if i >= lines.len() {
                        break;
                    }
                    let a = work(i, &lines[i]);
                    answers.lock().unwrap()[i] = Some(a);
                }
            });
        }
    });
    answers.into_inner().unwrap().into_iter().map(|a| a.unwrap_or_else(|| "lost".to_string())).collect()
}

fn status_name(st: std::process::ExitStatus) -> String {
    use std::os::unix::process::ExitStatusExt;
    match (st.code(), st.signal()) {
        (Some(c), _) => format!("exit{c}"),
        (None, Some(14)) => "timeout".to_string(),
        (None, Some(s)) => format!("signal{s}"),
        _ => "unknown".to_string(),
    }
}

fn run_one_subprocess(exe: &std::path::Path, request: &str) -> String {
    let child = Command::new(exe)
        .args(["readline", "one"])
        .stdin(Stdio::piped())
        .stdout(Stdio::piped())
        .stderr(Stdio::null())
        .env("RUST_BACKTRACE", "0")
        .spawn();
    let mut child = match child {
        Ok(c) => c,
        Err(e) => return format!("machinery(spawn:{e})"),
    };
    {
        let mut stdin = child.stdin.take().unwrap();
        let _ = stdin.write_all(request.as_bytes());
        let _ = stdin.write_all(b"\n");
    }
    let out = match child.wait_with_output() {
        Ok(o) => o,
        Err(e) => return format!("machinery(wait:{e})"),
    };
    let text = String::from_utf8_lossy(&out.stdout);
    match text.lines().next() {
        Some(l) if out.status.success() => l.to_string(),
        _ => format!("died({})", status_name(out.status)),
    }
}

fn emit(lines: &[String], answers: &[String]) -> i32 {
    let mut out = Out::new();
    for (i, (l, a)) in lines.iter().zip(answers).enumerate() {
        out.line(a);
        if let Some(req) = parse(l) {
            if let Some(what) = oracle_check(&req, a) {
                eprintln!("ORACLE-FAIL {} {}", i + 1, what);
            }
        }
    }
    0
}

fn run(args: &[String]) -> i32 {
    let lines = util::stdin_lines();
    let exe = std::env::current_exe().expect("current_exe");
    let answers = parallel(&lines, jobs(args), |_i, l| {
        if parse(l).is_none() {
            return "bad-request".to_string();
        }
        run_one_subprocess(&exe, l)
    });
    emit(&lines, &answers)
}

// ------------------------------------------------------------------------------- cli (naija)

/// The echo script for `k` calls. Two shapes: straight-line code, and a loop (whose body runs on
/// the runtime's frame arena, reset on every iteration).
/// Third shape (`drop`): the result of the FIRST call goes into a variable nobody reads (the read-and-drop
/// idiom for a header line; seed C17-d2: `read_line` classed as a pure builtin, so the optimisation plan
/// removes the call and every later call returns the line before). The unused variable earns a warning on
/// stdout, so the program output is what follows the sentinel line.
const SENTINEL: &str = "@@c17-output-begins@@";

fn script_drop(k: usize) -> String {
    let mut s = format!("shout(\"{SENTINEL}\")\nmake header get read_line(\"\")\n");
    for i in 1..k {
        s.push_str(&format!("make l{i} get read_line(\"\")\nshout(l{i})\n"));
    }
    s
}

/// Fourth shape (`spawn`): between the first call and the others the script runs a child that INHERITS stdin
/// (the default of `command(..).run()`) and reads nothing from it: what `read_line` has read ahead must still be
/// there afterwards (seed C17-e1: the read-ahead "given back" with an `lseek` that fails on a pipe). The result
/// of the run is printed as one extra line (`true`), which is dropped from the answer.
fn script_spawn(k: usize) -> String {
    let mut s = String::from("make l0 get read_line(\"\")\nshout(l0)\nmake c get command(\"/bin/true\")\nmake r get c.run()\nshout(r.success())\n");
    for i in 1..k {
        s.push_str(&format!("make l{i} get read_line(\"\")\nshout(l{i})\n"));
    }
    s
}

fn script(k: usize, looped: bool) -> String {
    let mut s = String::new();
    if looped {
        s.push_str(&format!(
            "make i get 0\njasi (i small pass {k}) start\n    make l get read_line(\"\")\n    shout(l)\n    i get i add 1\nend\n"
        ));
    } else {
        for i in 0..k {
            s.push_str(&format!("make l{i} get read_line(\"\")\nshout(l{i})\n"));
        }
    }
    s
}

fn cli_case(naija: &str, tmp: &str, from_file: bool, i: usize, request: &str) -> String {
    let Some(req) = parse(request) else {
        return "bad-request".to_string();
    };
    let pid = std::process::id();
    let dropping = i % 3 == 2 && req.calls >= 2;
    let spawning = !dropping && i % 5 == 4 && req.calls >= 2;
    let looped = !dropping && !spawning && i % 2 == 1;
    let shape = if dropping { "drop" } else if spawning { "spawn" } else if looped { "loop" } else { "flat" };
    let script_path = format!("{tmp}/c17-{pid}-k{}-{shape}.ns", req.calls);
    if !std::path::Path::new(&script_path).exists() {
        // written under a private name and renamed, so that no other worker sees half a file
        let part = format!("{script_path}.{i}.part");
        let text = if dropping { script_drop(req.calls) } else if spawning { script_spawn(req.calls) } else { script(req.calls, looped) };
        if std::fs::write(&part, text).is_err() || std::fs::rename(&part, &script_path).is_err() {
            return "machinery(script)".to_string();
        }
    }
    let mut cmd = Command::new(naija);
    cmd.arg(&script_path).stdout(Stdio::piped()).stderr(Stdio::null()).env("RUST_BACKTRACE", "0").env("NO_COLOR", "1");
    let input_path = format!("{tmp}/c17-{pid}-{i}.in");
    if from_file {
        if std::fs::write(&input_path, req.chunks.concat()).is_err() {
            return "machinery(input-file)".to_string();
        }
        match std::fs::File::open(&input_path) {
            Ok(f) => cmd.stdin(Stdio::from(f)),
            Err(_) => return "machinery(input-file)".to_string(),
        };
    } else {
        cmd.stdin(Stdio::piped());
    }
    let mut child = match cmd.spawn() {
        Ok(c) => c,
        Err(e) => return format!("machinery(spawn:{e})"),
    };
    let mut stdout = child.stdout.take().unwrap();
    let reader = std::thread::spawn(move || {
        let mut buf = Vec::new();
        let _ = stdout.read_to_end(&mut buf);
        buf
    });
    if !from_file {
        let stdin = child.stdin.take().unwrap();
        let fd = stdin.as_raw_fd();
        if !grow_pipe(fd) && req.chunks.iter().any(|c| c.len() > 60_000) {
            let _ = child.kill();
            let _ = child.wait();
            return "machinery(pipe-size)".to_string();
        }
        feed(fd, &req.chunks, req.delay_us, &mut || matches!(child.try_wait(), Ok(None)));
        drop(stdin); // EOF
    }
    let status = child.wait();
    let output = reader.join().unwrap_or_default();
    if from_file {
        let _ = std::fs::remove_file(&input_path);
    }
    let status = match status {
        Ok(s) => s,
        Err(e) => return format!("machinery(wait:{e})"),
    };
    if !status.success() {
        return format!("died({})", status_name(status));
    }
    // `shout` prints the line and a newline; a line holds no newline, so cutting at `\n` is exact
    let mut pieces: Vec<&[u8]> = output.split(|&b| b == b'\n').collect();
    if pieces.pop().is_none_or(|last| !last.is_empty()) {
        return format!("malformed-output({} pieces for {} calls)", pieces.len(), req.calls);
    }
    if dropping {
        // program output follows the sentinel; the dropped first line is taken from the text itself (what is
        // compared is that the LATER calls return the later lines)
        let Some(at) = pieces.iter().position(|p| *p == SENTINEL.as_bytes()) else {
            return "malformed-output(no sentinel)".to_string();
        };
        let rest = pieces.split_off(at + 1);
        if rest.len() + 1 != req.calls {
            return format!("malformed-output({} pieces after the sentinel for {} calls)", rest.len(), req.calls);
        }
        let first = oracle_lines(&req.chunks.concat(), 1).pop().unwrap_or_default();
        let mut results = vec![CallResult::Line(first)];
        results.extend(rest.into_iter().map(|p| CallResult::Line(p.to_vec())));
        return render(&results);
    }
    if spawning {
        // the second output line is the child's `success()`
        if pieces.len() != req.calls + 1 || pieces[1] != b"true" {
            return format!("malformed-output({} pieces for {} calls and a child; second piece {:?})", pieces.len(), req.calls,
                String::from_utf8_lossy(pieces.get(1).copied().unwrap_or_default()));
        }
        pieces.remove(1);
    }
    if pieces.len() != req.calls {
        return format!("malformed-output({} pieces for {} calls)", pieces.len(), req.calls);
    }
    let results: Vec<CallResult> = pieces.into_iter().map(|p| CallResult::Line(p.to_vec())).collect();
    render(&results)
}

fn cli(args: &[String]) -> i32 {
    let (Some(naija), Some(tmp)) = (util::opt(args, "--naija"), util::opt(args, "--tmp")) else {
        eprintln!("usage: nvh readline cli --naija PATH --tmp DIR [--file] [--jobs J]");
        return 2;
    };
    let from_file = util::flag(args, "--file");
    let lines = util::stdin_lines();
    let answers = parallel(&lines, jobs(args), |i, l| cli_case(naija, tmp, from_file, i, l));
    // leave no scripts behind
    let pid = std::process::id();
    if let Ok(rd) = std::fs::read_dir(tmp) {
        for e in rd.flatten() {
            if e.file_name().to_string_lossy().starts_with(&format!("c17-{pid}-")) {
                let _ = std::fs::remove_file(e.path());
            }
        }
    }
    emit(&lines, &answers)
}

// ----------------------------------------------------------------------------------- generator

const UNITS_VALID: &[&str] = &["a", "b", "z", "0", " ", "\t", "é", "ñ", "€", "語", "😀", "\r"];

/// Line lengths around the buffer's initial capacity and its doublings.
fn long_lengths(cap: usize) -> Vec<usize> {
    let c = cap.clamp(4, 16384);
    vec![c - 2, c - 1, c, c + 1, c + 2, c + c / 2, 2 * c - 1, 2 * c, 2 * c + 1, 3 * c + 1, 4 * c + 232]
}

fn push_units(rng: &mut Rng, line: &mut Vec<u8>, n: u64, valid_only: bool) {
    for _ in 0..n {
        if !valid_only && rng.chance(1, 12) {
            // bytes that are not UTF-8: a lone continuation byte, a truncated lead, 0xFF
            line.extend_from_slice(*rng.pick(&[&[0x80u8][..], &[0xC3], &[0xFF], &[0xE2, 0x82], &[0xF0, 0x9F]]));
        } else {
            line.extend_from_slice(rng.pick(UNITS_VALID).as_bytes());
        }
    }
}

/// A line of exactly `len` bytes (no `\n`), built from a repeated unit so that multi-byte characters
/// straddle the 8 KiB buffer edges, padded with ASCII.
fn long_line(rng: &mut Rng, len: usize) -> Vec<u8> {
    let mut line = Vec::with_capacity(len);
    for _ in 0..rng.below(4) {
        line.push(b'p');
    }
    let unit = *rng.pick(&["x", "é", "€", "😀", "a€", "é😀b"]);
    while line.len() + unit.len() <= len {
        line.extend_from_slice(unit.as_bytes());
    }
    while line.len() < len {
        line.push(b'y');
    }
    line.truncate(len);
    line
}

struct Text {
    bytes: Vec<u8>,
    lines: usize, // number of calls that return something from the text
}

fn gen_text(rng: &mut Rng, valid_only: bool, allow_long: bool, cap: usize) -> Text {
    let nlines = *rng.pick(&[0u64, 1, 1, 2, 2, 2, 3, 3, 3, 4, 4, 5, 6]);
    let mut bytes = Vec::new();
    let mut longs = 0;
    // bytes that are not UTF-8 only in one text out of six
    let valid_only = valid_only || !rng.chance(1, 6);
    for i in 0..nlines {
        let mut line = Vec::new();
        match rng.below(100) {
            0..=54 => {
                let n = rng.below(4);
                push_units(rng, &mut line, n, valid_only);
            }
            55..=69 => {
                let n = 4 + rng.below(37);
                push_units(rng, &mut line, n, valid_only);
            }
            70..=81 if allow_long && longs < 2 => {
                longs += 1;
                let len = *rng.pick(&long_lengths(cap));
                line = long_line(rng, len);
            }
            82..=89 => {
                // CRLF ending (the `\r` is part of the line for this code)
                let n = rng.below(4);
                push_units(rng, &mut line, n, valid_only);
                line.push(b'\r');
            }
            _ => {} // empty line
        }
        // keep the generator honest: no newline inside a line
        line.retain(|&b| b != b'\n');
        bytes.extend_from_slice(&line);
        let last = i + 1 == nlines;
        if !last || rng.chance(7, 10) {
            bytes.push(b'\n');
        }
    }
    let newlines = bytes.iter().filter(|&&b| b == b'\n').count();
    let partial = usize::from(bytes.last().is_some_and(|&b| b != b'\n'));
    Text { bytes, lines: newlines + partial }
}

/// A very long line — around the later doublings of the buffer (8x, 12x, 16x the initial capacity,
/// i.e. 64 KiB and 128 KiB for the real code) — followed by several medium lines (2–5 KB each), so
/// that much more than one chunk of further input is already buffered when the long line is
/// returned and whatever the code does to its buffer afterwards (shrink, compact, re-scan) is
/// visible within the next few calls.
fn gen_long_tail(rng: &mut Rng, cap: usize) -> Text {
    let c = cap.clamp(4, 8192);
    let len = *rng.pick(&[8 * c - 1, 8 * c, 8 * c + 1, 8 * c + c / 2, 12 * c, 16 * c - 1, 16 * c, 16 * c + 1]);
    let mut bytes = Vec::new();
    if rng.chance(1, 3) {
        bytes.extend_from_slice(b"first\n");
    }
    bytes.extend(long_line(rng, len));
    bytes.push(b'\n');
    let tail = 3 + rng.below(6);
    for i in 0..tail {
        let l = (c / 4 + rng.below((c / 2) as u64 + 1) as usize).max(1);
        let mut line = format!("t{i}:").into_bytes();
        line.extend(long_line(rng, l));
        bytes.extend_from_slice(&line);
        if i + 1 < tail || rng.chance(7, 10) {
            bytes.push(b'\n');
        }
    }
    let newlines = bytes.iter().filter(|&&b| b == b'\n').count();
    let partial = usize::from(bytes.last().is_some_and(|&b| b != b'\n'));
    Text { bytes, lines: newlines + partial }
}

fn cut_at(text: &[u8], cuts: &mut Vec<usize>) -> Vec<Vec<u8>> {
    cuts.retain(|&c| c > 0 && c < text.len());
    cuts.sort_unstable();
    cuts.dedup();
    let mut out = Vec::new();
    let mut prev = 0;
    for &c in cuts.iter() {
        out.push(text[prev..c].to_vec());
        prev = c;
    }
    out.push(text[prev..].to_vec());
    out
}

fn gen_chunking(rng: &mut Rng, text: &[u8], cap: usize) -> Vec<Vec<u8>> {
    let n = text.len();
    if n == 0 {
        return vec![Vec::new()];
    }
    let newlines: Vec<usize> = (0..n).filter(|&i| text[i] == b'\n').collect();
    let mut cuts: Vec<usize> = Vec::new();
    let mut kind = rng.below(10);
    if kind == 1 && n > 48 {
        kind = 5;
    }
    match kind {
        0 => {}                                                   // all at once
        1 => cuts.extend(1..n),                                   // one byte at a time
        2 => cuts.extend(newlines.iter().map(|&i| i + 1)),        // newline ends a chunk
        3 => cuts.extend(newlines.iter().copied()),               // newline starts a chunk
        4 => cuts.extend(newlines.iter().skip(1).step_by(2).map(|&i| i + 1)), // two lines per chunk
        5 => {
            for _ in 0..1 + rng.below(6) {
                cuts.push(rng.below(n as u64) as usize);
            }
        }
        6 => {
            // around the buffer edges (initial capacity and its doublings), relative to the text
            // and to the start of each line
            let mut bases = vec![0usize];
            bases.extend(newlines.iter().map(|&i| i + 1));
            for b in bases {
                for edge in [cap, 2 * cap, 4 * cap] {
                    if rng.chance(1, 2) {
                        cuts.push((b + edge).wrapping_add_signed(rng.range(-2, 2) as isize));
                    }
                }
            }
            if rng.chance(1, 2) {
                cuts.push(rng.below(n as u64) as usize);
            }
        }
        7 => {
            // every newline alone in its chunk
            for &i in &newlines {
                cuts.push(i);
                cuts.push(i + 1);
            }
        }
        8 => {
            // inside multi-byte characters (the kernel does not care about character boundaries)
            let inside: Vec<usize> = (1..n).filter(|&i| text[i] & 0xC0 == 0x80).collect();
            for _ in 0..1 + rng.below(4) {
                if !inside.is_empty() {
                    cuts.push(*rng.pick(&inside));
                } else {
                    cuts.push(rng.below(n as u64) as usize);
                }
            }
        }
        _ => {
            // a mix: some newline edges, some random cuts
            for &i in &newlines {
                match rng.below(4) {
                    0 => cuts.push(i),
                    1 => cuts.push(i + 1),
                    _ => {}
                }
            }
            cuts.push(rng.below(n as u64) as usize);
        }
    }
    let mut chunks = cut_at(text, &mut cuts);
    if rng.chance(1, 20) {
        // an empty chunk somewhere: nothing for the reader to see
        let at = rng.below(chunks.len() as u64 + 1) as usize;
        chunks.insert(at, Vec::new());
    }
    chunks
}

fn generate(args: &[String]) -> i32 {
    let seed = util::opt_u64(args, "--seed", 1);
    let n = util::opt_u64(args, "--n", 500);
    let valid_only = util::flag(args, "--valid-utf8");
    let allow_long = !util::flag(args, "--no-long");
    let cap = util::opt_u64(args, "--cap", 8192) as usize;
    let mut rng = Rng::new(seed ^ 0xC17);
    let mut out = Out::new();
    for _ in 0..n {
        let long_tail = allow_long && rng.chance(1, 12);
        let text = if long_tail { gen_long_tail(&mut rng, cap) } else { gen_text(&mut rng, valid_only, allow_long, cap) };
        let chunks = if long_tail && text.bytes.len() <= MAX_CHUNK && rng.chance(1, 2) {
            vec![text.bytes.clone()] // everything is in the pipe before the first read
        } else if long_tail {
            // big pieces: the tail arrives together with the end of the long line
            let mut cuts = vec![text.bytes.len() / 2, text.bytes.len() / 2 + rng.below(4096) as usize];
            cut_at(&text.bytes, &mut cuts)
        } else {
            gen_chunking(&mut rng, &text.bytes, cap)
        };
        let l = text.lines;
        let calls = match rng.below(10) {
            0..=5 => l + 1,
            6 => l + 2,
            7 => l,
            8 => rng.below(l as u64 + 1) as usize,
            _ => 1,
        }
        .min(10);
        let delay = if chunks.len() <= 8 && rng.chance(1, 10) { 300 } else { 0 };
        let mut line = request_line(&chunks, calls, delay);
        if calls >= 2 && rng.chance(1, 6) {
            line.push_str(" threads=1");
        }
        if tty_deliverable(&chunks) && rng.chance(1, 3) {
            line.push_str(" tty=1");
        }
        out.line(&line);
    }
    0
}
