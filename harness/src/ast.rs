//! Family `ast`: print the real front end's AST in the canonical form.
//! ```text
//! p <hex src>   -> diags=<...> ast=<AST without annotations>
//! r <hex src>   -> pdiags=<...> rdiags=<...> ast=<AST with the resolver's annotations>   (rdiags=skipped if parse diagnostics)
//! ```

use naijascript::arena::Arena;

use crate::astio::{self, Opts};
use crate::pipeline;
use crate::util::{self, Out};

pub fn main(args: &[String]) -> i32 {
    match args.first().map(String::as_str) {
        Some("run") => run(),
        _ => {
            eprintln!("usage: nvh ast run < requests");
            2
        }
    }
}

fn run() -> i32 {
    util::silence_panics();
    let mut out = Out::new();
    for line in util::stdin_lines() {
        let w: Vec<&str> = line.split_whitespace().collect();
        let ans = util::catch(|| answer(&w)).unwrap_or_else(|m| format!("panic {}", m.replace('\n', " ")));
        out.line(&ans);
    }
    0
}

fn answer(w: &[&str]) -> String {
    match w {
        [kind @ ("p" | "r"), src] => {
            let Some(bytes) = util::unhex(src) else { return "bad-op".into() };
            let Ok(text) = String::from_utf8(bytes) else { return "bad-utf8".into() };
            let arena = Arena::new(pipeline::ARENA_CAP).unwrap();
            if *kind == "p" {
                pipeline::with_parsed(&text, &arena, |root, d| {
                    format!("diags={} ast={}", pipeline::diags_str(d), astio::program(&Opts { spans: true, facts: None }, root))
                })
            } else {
                pipeline::with_resolved(&text, &arena, |root, d, res| match res {
                    None => format!(
                        "pdiags={} rdiags=skipped ast={}",
                        pipeline::diags_str(d),
                        astio::program(&Opts { spans: true, facts: None }, root)
                    ),
                    Some(r) => format!(
                        "pdiags={} rdiags={} ast={}",
                        pipeline::diags_str(d),
                        pipeline::diags_str(&r.errors),
                        astio::program(&Opts { spans: true, facts: Some(&r.facts) }, root)
                    ),
                })
            }
        }
        _ => "bad-op".into(),
    }
}
