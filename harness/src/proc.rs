//! Family `proc` (C15): the `ProcessCommand` builder, `validate`, the host-policy gate and what a
//! spawned child really receives.
//!
//! Protocol (one request per line, one answer per line; texts are hex, `-` = empty):
//! ```text
//! caps <14 numbers in struct order>   -> ok        limits for the following requests
//! new <program>                       -> ok        start a history: ProcessCommand::new
//! arg <v> | cwd <v> | env <k> <v> | stdin_text <v> | stdin_inherit | stdin_null
//!   | stdout_capture | stdout_inherit | stdout_null | stderr_capture | stderr_inherit | stderr_null
//!   | timeout <u32> | clone           -> ok        the real builder method is called
//! timeout_num <n>                     -> ok | refused   script-level `timeout_ms(n)` (real Runtime)
//! show                                -> program=… args=[…] cwd=… env=[k=v,…] stdin=… out=… err=… timeout=<n|none>
//! validate                            -> ok program=… … timeout=<n> | err <name>      (real validate)
//! run <allow:0|1> [flat|loop|fn|box]  -> denied spawn=<0|1> | invalid <name> spawn=<0|1>
//!                                        | spawned argv=[…] cwd=… env=[k=v,… sorted] stdin=… out=… err=…
//!                                        the history is rendered as a NaijaScript program and run through
//!                                        lexer → parser → resolver → Runtime::new_with_host_policy;
//!                                        `spawn=` is whether the echo child left its report file, and the
//!                                        `spawned` line is what the *child* observed. The optional shape
//!                                        says how the calls are laid out: straight-line (default), one
//!                                        call per iteration of a `jasi` loop over arrays of the texts, by
//!                                        a function mutating the captured command, or on a command made by
//!                                        a function, kept in an array element and passed through a function
//! spawn                               -> as `run 1`, through the public API (validate + sys::process::run)
//! ```
//! `run`/`spawn` need a history of the form `new <this binary>`, `arg "proc"`, `arg "child"`,
//! `arg <report path>`, …: the child is `nvh proc child <report> …` — it writes its argv, environment,
//! working directory, the kind of its three standard descriptors and everything it can read from
//! stdin into the report file (hex) and exits 0.
//!
//! `nvh proc run` also evaluates implementation-level oracles that need no Lean model:
//! * a shadow of the request lines (arguments in order, last value per key in first-insertion
//!   order, last cwd/stdin/stdio/timeout) against `show`, against the spec of an accepted `validate`
//!   and against the child's report (argv, *full* environment = parent's ⊕ overrides, cwd, stdin);
//! * acceptance = "every limit respected" (a plain conjunction, not the ordered routine);
//! * refused or denied ⇒ no report file.
//!
//! Failures go to stderr as `ORACLE-FAIL <line> <what>`.

use std::collections::BTreeMap;
use std::ffi::OsString;
use std::os::unix::ffi::{OsStrExt, OsStringExt};
use std::path::{Path, PathBuf};

use naijascript::arena::{Arena, ArenaString};
use naijascript::process::{
    HostPolicy, OutputPolicy, ProcessCaps, ProcessCommand, ProcessError, ProcessSpec, StdinPolicy,
};
use naijascript::resolver::Resolver;
use naijascript::runtime::Runtime;
use naijascript::syntax::parser::Parser;
use naijascript::syntax::scanner::Lexer;
use naijascript::sys::ProcessRunner;

use crate::util::{self, Out, Rng, hex, unhex};

pub fn main(args: &[String]) -> i32 {
    match args.first().map(String::as_str) {
        Some("gen") => generate(&args[1..]),
        Some("run") => run(&args[1..]),
        Some("child") => child(),
        Some("render") => render(),
        Some("script-worker") => script_worker(&args[1..]),
        _ => {
            eprintln!(
                "usage: nvh proc gen --seed S --n N --spawn M --dir D [--big 0|1] | nvh proc run --dir D < requests"
            );
            2
        }
    }
}

/// Constants/tables of the compiled crate this family wants in `nvh dump-tables`.
pub fn dump_tables(out: &mut Vec<(String, String)>) {
    let c = ProcessCaps::defaults();
    for (k, v) in caps_fields(&c) {
        out.push((format!("proc_caps_{k}"), v.to_string()));
    }
    out.push(("proc_native_allow_process".into(), HostPolicy::native_default().allow_process.to_string()));
    out.push(("proc_wasm_allow_process".into(), HostPolicy::wasm_default().allow_process.to_string()));
    let same = HostPolicy::native_default().process == c && HostPolicy::wasm_default().process == c;
    out.push(("proc_policies_use_default_caps".into(), same.to_string()));
}

fn caps_fields(c: &ProcessCaps) -> [(&'static str, u32); 14] {
    [
        ("max_program_bytes", c.max_program_bytes),
        ("max_cwd_bytes", c.max_cwd_bytes),
        ("max_args", c.max_args),
        ("max_arg_bytes", c.max_arg_bytes),
        ("max_total_arg_bytes", c.max_total_arg_bytes),
        ("max_env_pairs", c.max_env_pairs),
        ("max_env_key_bytes", c.max_env_key_bytes),
        ("max_env_value_bytes", c.max_env_value_bytes),
        ("max_total_env_bytes", c.max_total_env_bytes),
        ("max_stdin_bytes", c.max_stdin_bytes),
        ("max_capture_bytes_per_stream", c.max_capture_bytes_per_stream),
        ("default_timeout_ms", c.default_timeout_ms),
        ("max_timeout_ms", c.max_timeout_ms),
        ("wait_poll_ms", c.wait_poll_ms),
    ]
}

fn caps_from(v: &[u32]) -> ProcessCaps {
    ProcessCaps {
        max_program_bytes: v[0],
        max_cwd_bytes: v[1],
        max_args: v[2],
        max_arg_bytes: v[3],
        max_total_arg_bytes: v[4],
        max_env_pairs: v[5],
        max_env_key_bytes: v[6],
        max_env_value_bytes: v[7],
        max_total_env_bytes: v[8],
        max_stdin_bytes: v[9],
        max_capture_bytes_per_stream: v[10],
        default_timeout_ms: v[11],
        max_timeout_ms: v[12],
        wait_poll_ms: v[13],
    }
}

fn caps_line(c: &ProcessCaps) -> String {
    let nums: Vec<String> = caps_fields(c).iter().map(|(_, v)| v.to_string()).collect();
    format!("caps {}", nums.join(" "))
}

/// Sub-directories of the work directory that `cwd` requests of spawn histories point to.
const SUBDIRS: &[&str] = &["sub dir", "$HOME", "st*r", "ünï", "a;b", "q\"uote"];

// ------------------------------------------------------------------------------------ shadow

#[derive(Clone, Debug, PartialEq)]
enum SIn {
    Inherit,
    Null,
    Text(String),
}

#[derive(Clone, Debug)]
enum OpRec {
    Arg(String),
    Cwd(String),
    Env(String, String),
    StdinText(String),
    StdinInherit,
    StdinNull,
    Out(OutputPolicy),
    Err(OutputPolicy),
    Timeout(u32),
    TimeoutNum(u64),
    Clone,
}

/// What the request lines configured, computed without the implementation: arguments in call
/// order; one pair per key in first-insertion order holding the last value; last cwd, stdin,
/// stdio policies and timeout.
#[derive(Clone, Debug)]
struct Shadow {
    args: Vec<String>,
    env: Vec<(String, String)>,
    cwd: Option<String>,
    stdin: SIn,
    out: OutputPolicy,
    err: OutputPolicy,
    timeout: Option<u32>,
}

fn shadow(ops: &[OpRec]) -> Shadow {
    let mut s = Shadow {
        args: Vec::new(),
        env: Vec::new(),
        cwd: None,
        stdin: SIn::Inherit,
        out: OutputPolicy::Inherit,
        err: OutputPolicy::Inherit,
        timeout: None,
    };
    for op in ops {
        match op {
            OpRec::Arg(v) => s.args.push(v.clone()),
            OpRec::Cwd(v) => s.cwd = Some(v.clone()),
            OpRec::Env(k, v) => {
                let mut found = false;
                for p in s.env.iter_mut() {
                    if p.0 == *k {
                        p.1 = v.clone();
                        found = true;
                    }
                }
                if !found {
                    s.env.push((k.clone(), v.clone()));
                }
            }
            OpRec::StdinText(v) => s.stdin = SIn::Text(v.clone()),
            OpRec::StdinInherit => s.stdin = SIn::Inherit,
            OpRec::StdinNull => s.stdin = SIn::Null,
            OpRec::Out(p) => s.out = *p,
            OpRec::Err(p) => s.err = *p,
            OpRec::Timeout(t) => s.timeout = Some(*t),
            OpRec::TimeoutNum(n) => {
                if *n > 0 {
                    s.timeout = Some(u32::try_from(*n).unwrap_or(u32::MAX));
                }
            }
            OpRec::Clone => {}
        }
    }
    s
}

/// The limits as a plain conjunction: `None` = every limit respected, otherwise one violated item.
fn violated(program: &str, s: &Shadow, c: &ProcessCaps) -> Option<&'static str> {
    let nul = |t: &str| t.as_bytes().contains(&0);
    let over = |n: usize, cap: u32| n as u64 > u64::from(cap);
    if program.is_empty() || nul(program) || over(program.len(), c.max_program_bytes) {
        return Some("program");
    }
    if over(s.args.len(), c.max_args) {
        return Some("argument count");
    }
    if over(s.env.len(), c.max_env_pairs) {
        return Some("environment pair count");
    }
    if s.args.iter().any(|a| nul(a) || over(a.len(), c.max_arg_bytes)) {
        return Some("argument");
    }
    if over(s.args.iter().map(String::len).sum(), c.max_total_arg_bytes) {
        return Some("argument bytes");
    }
    if let Some(d) = &s.cwd
        && (d.is_empty() || nul(d) || over(d.len(), c.max_cwd_bytes))
    {
        return Some("cwd");
    }
    if s.env.iter().any(|(k, _)| k.is_empty() || nul(k) || k.contains('=') || over(k.len(), c.max_env_key_bytes)) {
        return Some("environment key");
    }
    if s.env.iter().any(|(_, v)| nul(v) || over(v.len(), c.max_env_value_bytes)) {
        return Some("environment value");
    }
    if over(s.env.iter().map(|(k, v)| k.len() + v.len()).sum(), c.max_total_env_bytes) {
        return Some("environment bytes");
    }
    if let SIn::Text(t) = &s.stdin
        && (nul(t) || over(t.len(), c.max_stdin_bytes))
    {
        return Some("stdin text");
    }
    let t = s.timeout.unwrap_or(c.default_timeout_ms);
    if t == 0 || t > c.max_timeout_ms {
        return Some("timeout");
    }
    None
}

// ------------------------------------------------------------------------------- canonical text

fn hex_s(s: &str) -> String {
    hex(s.as_bytes())
}

fn hex_list<'a>(it: impl Iterator<Item = &'a [u8]>) -> String {
    format!("[{}]", it.map(hex).collect::<Vec<_>>().join(","))
}

fn env_str<'a>(it: impl Iterator<Item = (&'a [u8], &'a [u8])>) -> String {
    format!("[{}]", it.map(|(k, v)| format!("{}={}", hex(k), hex(v))).collect::<Vec<_>>().join(","))
}

fn out_name(p: OutputPolicy) -> &'static str {
    match p {
        OutputPolicy::Inherit => "inherit",
        OutputPolicy::Null => "null",
        OutputPolicy::Capture => "capture",
    }
}

fn stdin_name(p: &StdinPolicy<'_>) -> String {
    match p {
        StdinPolicy::Inherit => "inherit".into(),
        StdinPolicy::Null => "null".into(),
        StdinPolicy::Text(t) => format!("text:{}", hex_s(t.as_str())),
    }
}

fn show_cmd(c: &ProcessCommand<'_>) -> String {
    format!(
        "program={} args={} cwd={} env={} stdin={} out={} err={} timeout={}",
        hex_s(c.program.as_str()),
        hex_list(c.args.iter().map(|a| a.as_str().as_bytes())),
        c.cwd.as_ref().map_or("none".to_string(), |d| hex_s(d.as_str())),
        env_str(c.env.iter().map(|p| (p.key.as_str().as_bytes(), p.value.as_str().as_bytes()))),
        stdin_name(&c.stdin),
        out_name(c.stdout),
        out_name(c.stderr),
        c.timeout_ms.map_or("none".to_string(), |t| t.to_string()),
    )
}

fn show_spec(s: &ProcessSpec<'_>) -> String {
    format!(
        "program={} args={} cwd={} env={} stdin={} out={} err={} timeout={}",
        hex_s(s.program),
        hex_list(s.args.iter().map(|a| a.as_str().as_bytes())),
        s.cwd.map_or("none".to_string(), hex_s),
        env_str(s.env.iter().map(|p| (p.key.as_str().as_bytes(), p.value.as_str().as_bytes()))),
        stdin_name(s.stdin),
        out_name(s.stdout),
        out_name(s.stderr),
        s.timeout_ms,
    )
}

fn show_shadow(program: &str, s: &Shadow, timeout: Option<u32>) -> String {
    format!(
        "program={} args={} cwd={} env={} stdin={} out={} err={} timeout={}",
        hex_s(program),
        hex_list(s.args.iter().map(String::as_bytes)),
        s.cwd.as_ref().map_or("none".to_string(), |d| hex_s(d)),
        env_str(s.env.iter().map(|(k, v)| (k.as_bytes(), v.as_bytes()))),
        match &s.stdin {
            SIn::Inherit => "inherit".to_string(),
            SIn::Null => "null".to_string(),
            SIn::Text(t) => format!("text:{}", hex_s(t)),
        },
        out_name(s.out),
        out_name(s.err),
        timeout.map_or("none".to_string(), |t| t.to_string()),
    )
}

fn err_token(name: &str) -> String {
    name.replace(' ', "_")
}

// --------------------------------------------------------------------------------------- child

#[derive(Clone, Copy, Debug, PartialEq, Eq)]
struct FdStat {
    kind: u8, // b'f' fifo, b'n' /dev/null, b'c' other chr, b'r' regular, b'd' dir, b's' socket, b'o' other, b'x' closed
    dev: u64,
    ino: u64,
}

fn fd_stat(fd: i32) -> FdStat {
    let mut st: libc::stat = unsafe { std::mem::zeroed() };
    let rc = unsafe { libc::fstat(fd, &mut st) };
    if rc != 0 {
        return FdStat { kind: b'x', dev: 0, ino: 0 };
    }
    let fmt = st.st_mode & libc::S_IFMT;
    let kind = if fmt == libc::S_IFIFO {
        b'f'
    } else if fmt == libc::S_IFCHR {
        if libc::major(st.st_rdev) == 1 && libc::minor(st.st_rdev) == 3 { b'n' } else { b'c' }
    } else if fmt == libc::S_IFREG {
        b'r'
    } else if fmt == libc::S_IFDIR {
        b'd'
    } else if fmt == libc::S_IFSOCK {
        b's'
    } else {
        b'o'
    };
    FdStat { kind, dev: st.st_dev as u64, ino: st.st_ino as u64 }
}

/// FNV-1a, 64 bit.
fn fnv64(b: &[u8]) -> u64 {
    let mut h: u64 = 0xcbf2_9ce4_8422_2325;
    for &x in b {
        h ^= u64::from(x);
        h = h.wrapping_mul(0x0000_0100_0000_01b3);
    }
    h
}

/// `nvh proc child <report> …`: write what this process received into `<report>` and exit 0.
/// Nothing is written to stdout or stderr.
fn child() -> i32 {
    use std::io::Read;
    let argv: Vec<OsString> = std::env::args_os().collect();
    let Some(report) = argv.get(3) else { return 64 };
    let mut text = String::new();
    text.push_str("argv");
    for a in &argv {
        text.push(' ');
        text.push_str(&hex(a.as_bytes()));
    }
    text.push('\n');
    // values of inherited variables may be secrets: only their length and a 64-bit digest are written
    for (k, v) in std::env::vars_os() {
        text.push_str(&format!("env {} {} {:016x}\n", hex(k.as_bytes()), v.as_bytes().len(), fnv64(v.as_bytes())));
    }
    match std::env::current_dir() {
        Ok(d) => text.push_str(&format!("cwd {}\n", hex(d.as_os_str().as_bytes()))),
        Err(_) => text.push_str("cwd !\n"),
    }
    for fd in 0..3 {
        let s = fd_stat(fd);
        text.push_str(&format!("fd {fd} {} {} {}\n", s.kind as char, s.dev, s.ino));
    }
    let mut input = Vec::new();
    let read_ok = std::io::stdin().lock().read_to_end(&mut input).is_ok();
    text.push_str(&format!("stdin {} {}\n", if read_ok { "ok" } else { "err" }, hex(&input)));
    text.push_str("done\n");
    let tmp = PathBuf::from(format!("{}.tmp", Path::new(report).display()));
    if std::fs::write(&tmp, text.as_bytes()).is_err() {
        return 65;
    }
    if std::fs::rename(&tmp, report).is_err() {
        return 66;
    }
    0
}

#[derive(Debug, Default)]
struct Report {
    argv: Vec<Vec<u8>>,
    env: BTreeMap<Vec<u8>, (usize, u64)>,
    cwd: Option<Vec<u8>>,
    fds: Vec<FdStat>,
    stdin: Vec<u8>,
    stdin_ok: bool,
    done: bool,
}

fn read_report(path: &str) -> Option<Report> {
    let text = std::fs::read_to_string(path).ok()?;
    let mut r = Report::default();
    for line in text.lines() {
        let w: Vec<&str> = line.split(' ').collect();
        match w.as_slice() {
            ["argv", rest @ ..] => r.argv = rest.iter().map(|h| unhex(h).unwrap_or_default()).collect(),
            ["env", k, len, digest] => {
                r.env.insert(unhex(k)?, (len.parse().ok()?, u64::from_str_radix(digest, 16).ok()?));
            }
            ["cwd", "!"] => r.cwd = None,
            ["cwd", d] => r.cwd = unhex(d),
            ["fd", _, kind, dev, ino] => r.fds.push(FdStat {
                kind: kind.as_bytes()[0],
                dev: dev.parse().ok()?,
                ino: ino.parse().ok()?,
            }),
            ["stdin", ok, data] => {
                r.stdin_ok = *ok == "ok";
                r.stdin = unhex(data)?;
            }
            ["done"] => r.done = true,
            _ => {}
        }
    }
    Some(r)
}

// ------------------------------------------------------------------------------------ history

/// One history on the implementation side. `cmd` borrows from `arena` (declared after it so that it
/// is dropped first).
struct Hist {
    cmd: ProcessCommand<'static>,
    arena: Box<Arena>,
    program: String,
    ops: Vec<OpRec>,
}

impl Hist {
    fn new(program: &str) -> Hist {
        let arena = Box::new(Arena::new(64 << 20).unwrap());
        let aref: &'static Arena = unsafe { &*(&*arena as *const Arena) };
        let cmd = ProcessCommand::new(program, aref);
        Hist { cmd, arena, program: program.to_string(), ops: Vec::new() }
    }
    fn aref(&self) -> &'static Arena {
        unsafe { &*(&*self.arena as *const Arena) }
    }
    fn text(&self, s: &str) -> ArenaString<'static> {
        ArenaString::from_str(self.aref(), s)
    }
}

/// NaijaScript double-quoted literal for `s`, if the language can express it: no CR (a raw CR or LF
/// ends the literal and only `\n` has an escape), and `{` only in a literal that also needs an escape
/// (an escaped literal is never treated as an interpolation template).
fn ns_literal(s: &str) -> Option<String> {
    if s.contains('\r') {
        return None;
    }
    let has_escape = s.contains(['"', '\\', '\n', '\t']);
    if s.contains('{') && !has_escape {
        return None;
    }
    let mut q = String::with_capacity(s.len() + 2);
    q.push('"');
    for ch in s.chars() {
        match ch {
            '\\' => q.push_str("\\\\"),
            '"' => q.push_str("\\\""),
            '\n' => q.push_str("\\n"),
            '\t' => q.push_str("\\t"),
            c => q.push(c),
        }
    }
    q.push('"');
    Some(q)
}

fn representable(program: &str, ops: &[OpRec]) -> bool {
    ns_literal(program).is_some()
        && ops.iter().all(|op| match op {
            OpRec::Arg(v) | OpRec::Cwd(v) | OpRec::StdinText(v) => ns_literal(v).is_some(),
            OpRec::Env(k, v) => ns_literal(k).is_some() && ns_literal(v).is_some(),
            _ => true,
        })
}

/// How the builder calls of a history are laid out in the rendered NaijaScript program. The op
/// sequence — and therefore the expected command — is the same for every shape.
#[derive(Clone, Copy, Debug, PartialEq, Eq)]
enum Shape {
    /// straight-line calls at top level
    Flat,
    /// one builder call per iteration of a `jasi` loop over arrays holding the texts, with frame
    /// traffic in the body and after the loop
    Loop,
    /// every call made by a function that takes no command and mutates the captured `cmd`
    Func,
    /// the command is made by a function, stored in an array element and mutated there; then taken
    /// out, passed through a function that mutates its parameter and returns it, call by call
    Boxed,
}

fn parse_shape(w: &str) -> Option<Shape> {
    match w {
        "flat" => Some(Shape::Flat),
        "loop" => Some(Shape::Loop),
        "fn" => Some(Shape::Func),
        "box" => Some(Shape::Boxed),
        _ => None,
    }
}

fn shape_name(s: Shape) -> &'static str {
    match s {
        Shape::Flat => "flat",
        Shape::Loop => "loop",
        Shape::Func => "fn",
        Shape::Boxed => "box",
    }
}

/// `(kind, text 1, text 2, number)` of a builder call, the texts as NaijaScript literals.
fn op_fields(op: &OpRec) -> Option<Option<(u32, String, String, String)>> {
    let e = || "\"\"".to_string();
    let z = || "0".to_string();
    let pol = |p: OutputPolicy| match p {
        OutputPolicy::Capture => 0,
        OutputPolicy::Inherit => 1,
        OutputPolicy::Null => 2,
    };
    Some(Some(match op {
        OpRec::Arg(v) => (0, ns_literal(v)?, e(), z()),
        OpRec::Env(k, v) => (1, ns_literal(k)?, ns_literal(v)?, z()),
        OpRec::Cwd(v) => (2, ns_literal(v)?, e(), z()),
        OpRec::StdinText(v) => (3, ns_literal(v)?, e(), z()),
        OpRec::StdinInherit => (4, e(), e(), z()),
        OpRec::StdinNull => (5, e(), e(), z()),
        OpRec::Out(p) => (6 + pol(*p), e(), e(), z()),
        OpRec::Err(p) => (9 + pol(*p), e(), e(), z()),
        OpRec::Timeout(t) => (12, e(), e(), t.to_string()),
        OpRec::TimeoutNum(n) => (12, e(), e(), n.to_string()),
        OpRec::Clone => return Some(None),
    }))
}

/// One direct builder call on `recv`.
fn direct_call(recv: &str, op: &OpRec) -> Option<String> {
    Some(match op {
        OpRec::Arg(v) => format!("{recv}.arg({})\n", ns_literal(v)?),
        OpRec::Cwd(v) => format!("{recv}.cwd({})\n", ns_literal(v)?),
        OpRec::Env(k, v) => format!("{recv}.env({}, {})\n", ns_literal(k)?, ns_literal(v)?),
        OpRec::StdinText(v) => format!("{recv}.stdin_text({})\n", ns_literal(v)?),
        OpRec::StdinInherit => format!("{recv}.stdin_inherit()\n"),
        OpRec::StdinNull => format!("{recv}.stdin_null()\n"),
        OpRec::Out(p) => format!("{recv}.stdout_{}()\n", out_name(*p)),
        OpRec::Err(p) => format!("{recv}.stderr_{}()\n", out_name(*p)),
        OpRec::Timeout(t) => format!("{recv}.timeout_ms({t})\n"),
        OpRec::TimeoutNum(n) => format!("{recv}.timeout_ms({n})\n"),
        OpRec::Clone => String::new(),
    })
}

/// `if` chain that makes the builder call number `k` on `recv` with the operands `x`, `y`, `n`.
fn dispatch(recv: &str, k: &str, x: &str, y: &str, n: &str) -> String {
    let calls = [
        format!("{recv}.arg({x})"),
        format!("{recv}.env({x}, {y})"),
        format!("{recv}.cwd({x})"),
        format!("{recv}.stdin_text({x})"),
        format!("{recv}.stdin_inherit()"),
        format!("{recv}.stdin_null()"),
        format!("{recv}.stdout_capture()"),
        format!("{recv}.stdout_inherit()"),
        format!("{recv}.stdout_null()"),
        format!("{recv}.stderr_capture()"),
        format!("{recv}.stderr_inherit()"),
        format!("{recv}.stderr_null()"),
        format!("{recv}.timeout_ms({n})"),
    ];
    let mut s = String::new();
    for (i, c) in calls.iter().enumerate() {
        s.push_str(&format!("    if to say ({k} na {i}) start\n        {c}\n    end\n"));
    }
    s
}

/// The history as a NaijaScript program ending in `cmd.run()`.
fn render_script(program: &str, ops: &[OpRec], shape: Shape, with_run: bool) -> Option<String> {
    let prog = ns_literal(program)?;
    let mut fields: Vec<(u32, String, String, String)> = Vec::new();
    for op in ops {
        if let Some(f) = op_fields(op)? {
            fields.push(f);
        }
    }
    let mut s = String::new();
    match shape {
        Shape::Flat => {
            s.push_str(&format!("make cmd get command({prog})\n"));
            for op in ops {
                s.push_str(&direct_call("cmd", op)?);
            }
        }
        Shape::Loop => {
            let col = |f: &dyn Fn(&(u32, String, String, String)) -> String| {
                fields.iter().map(f).collect::<Vec<_>>().join(", ")
            };
            s.push_str(&format!("make cmd get command({prog})\n"));
            s.push_str(&format!("make kinds get [{}]\n", col(&|f| f.0.to_string())));
            s.push_str(&format!("make xs get [{}]\n", col(&|f| f.1.clone())));
            s.push_str(&format!("make ys get [{}]\n", col(&|f| f.2.clone())));
            s.push_str(&format!("make ns get [{}]\n", col(&|f| f.3.clone())));
            s.push_str("make i get 0\nmake junk get \"j\"\n");
            s.push_str(&format!("jasi (i small pass {}) start\n    make k get kinds[i]\n", fields.len()));
            s.push_str(&dispatch("cmd", "k", "xs[i]", "ys[i]", "ns[i]"));
            s.push_str("    junk get \"frame traffic \" add xs[i] add \" in round {i}\"\n    i get i add 1\nend\n");
            s.push_str("make note get \"after {i} rounds: \" add junk add \" / \" add junk\n");
            s.push_str("make note2 get note add \" and some more text built after the loop {i}\"\n");
        }
        Shape::Func => {
            s.push_str(&format!("make cmd get command({prog})\n"));
            s.push_str("do apply(k, x, y, n) start\n");
            s.push_str(&dispatch("cmd", "k", "x", "y", "n"));
            s.push_str("    make junk get \"frame traffic \" add x add \" in call {k}\"\nend\n");
            for f in &fields {
                s.push_str(&format!("apply({}, {}, {}, {})\n", f.0, f.1, f.2, f.3));
            }
            s.push_str("make done get \"done\"\n");
            s.push_str("make note get \"after the calls: {done} \" add done add \" / \" add done\n");
            s.push_str("make note2 get note add \" and some more text built afterwards {done}\"\n");
        }
        Shape::Boxed => {
            s.push_str("do mk(p) start\n    make c get command(p)\n    return c\nend\n");
            s.push_str("do via(c, k, x, y, n) start\n");
            s.push_str(&dispatch("c", "k", "x", "y", "n"));
            s.push_str("    make junk get \"frame traffic \" add x add \" in call {k}\"\n    return c\nend\n");
            s.push_str(&format!("make box get [0, mk({prog})]\n"));
            let direct: Vec<&OpRec> = ops.iter().filter(|o| !matches!(o, OpRec::Clone)).collect();
            let half = direct.len() / 2;
            for op in &direct[..half] {
                s.push_str(&direct_call("box[1]", op)?);
            }
            s.push_str("make cmd get box[1]\n");
            for f in &fields[half..] {
                s.push_str(&format!("cmd get via(cmd, {}, {}, {}, {})\n", f.0, f.1, f.2, f.3));
            }
            s.push_str("make done get \"done\"\n");
            s.push_str("make note get \"after the calls: {done} \" add done add \" / \" add done\n");
        }
    }
    if with_run {
        s.push_str("make res get cmd.run()\n");
    }
    Some(s)
}

/// Outcome of a script run: `Ok(())` or `Err((diagnostic message, first label))`.
enum ScriptEnd {
    Clean,
    Runtime(String, String),
    FrontEnd(String),
    /// the interpreter process died (abort, signal) while running the script
    Died(String),
}

/// Path of the binary that runs scripts in a process of its own (`--worker`, default: this binary).
static WORKER: std::sync::OnceLock<String> = std::sync::OnceLock::new();

/// `nvh proc script-worker <allow> <14 caps>`: run the script on stdin through the library pipeline
/// and print `fds …` (this process's standard descriptors: it is the parent of whatever the script
/// spawns) and the outcome. A corrupted interpreter may abort here without taking the harness along.
fn script_worker(args: &[String]) -> i32 {
    use std::io::Read;
    let nums: Vec<u32> = args.iter().skip(1).filter_map(|n| n.parse().ok()).collect();
    if args.is_empty() || nums.len() != 14 {
        return 2;
    }
    let mut src = String::new();
    if std::io::stdin().lock().read_to_string(&mut src).is_err() {
        return 2;
    }
    let fds: Vec<String> = (0..3)
        .map(|fd| {
            let s = fd_stat(fd);
            format!("{} {} {}", s.kind as char, s.dev, s.ino)
        })
        .collect();
    println!("fds {}", fds.join(" "));
    let policy = HostPolicy { allow_process: args[0] == "1", process: caps_from(&nums) };
    match run_script(&src, policy) {
        ScriptEnd::Clean => println!("clean"),
        ScriptEnd::Runtime(m, l) => println!("runtime {} {}", hex_s(&m), hex_s(&l)),
        ScriptEnd::FrontEnd(m) => println!("frontend {}", hex_s(&m)),
        ScriptEnd::Died(m) => println!("frontend {}", hex_s(&m)),
    }
    0
}

/// Run a script in a worker process; also returns the worker's standard descriptors.
fn run_script_isolated(src: &str, policy: HostPolicy) -> (ScriptEnd, Option<[FdStat; 3]>) {
    use std::io::Write;
    use std::process::{Command, Stdio};
    let exe = WORKER
        .get()
        .cloned()
        .or_else(|| std::env::current_exe().ok().and_then(|p| p.to_str().map(str::to_string)))
        .unwrap_or_default();
    let mut cmd = Command::new(exe);
    cmd.args(["proc", "script-worker", if policy.allow_process { "1" } else { "0" }]);
    for (_, v) in caps_fields(&policy.process) {
        cmd.arg(v.to_string());
    }
    cmd.stdin(Stdio::piped()).stdout(Stdio::piped()).stderr(Stdio::inherit());
    let mut child = match cmd.spawn() {
        Ok(c) => c,
        Err(e) => return (ScriptEnd::Died(format!("worker not started: {e}")), None),
    };
    if let Some(mut stdin) = child.stdin.take() {
        let _ = stdin.write_all(src.as_bytes());
    }
    let out = match child.wait_with_output() {
        Ok(o) => o,
        Err(e) => return (ScriptEnd::Died(format!("worker not awaited: {e}")), None),
    };
    let text = String::from_utf8_lossy(&out.stdout);
    let mut fds = None;
    let mut end = None;
    for line in text.lines() {
        let w: Vec<&str> = line.split(' ').collect();
        match w.as_slice() {
            ["fds", rest @ ..] if rest.len() == 9 => {
                let mut a = [FdStat { kind: b'x', dev: 0, ino: 0 }; 3];
                for i in 0..3 {
                    a[i] = FdStat {
                        kind: rest[3 * i].as_bytes()[0],
                        dev: rest[3 * i + 1].parse().unwrap_or(0),
                        ino: rest[3 * i + 2].parse().unwrap_or(0),
                    };
                }
                fds = Some(a);
            }
            ["clean"] => end = Some(ScriptEnd::Clean),
            ["runtime", m, l] => {
                end = Some(ScriptEnd::Runtime(utf8(m).unwrap_or_default(), utf8(l).unwrap_or_default()))
            }
            ["frontend", m] => end = Some(ScriptEnd::FrontEnd(utf8(m).unwrap_or_default())),
            _ => {}
        }
    }
    match end {
        Some(e) if out.status.success() => (e, fds),
        _ => (ScriptEnd::Died(format!("{}", out.status)), fds),
    }
}

fn run_script(src: &str, policy: HostPolicy) -> ScriptEnd {
    let arena = Arena::new(256 << 20).unwrap();
    let frame = Arena::new(64 << 20).unwrap();
    let lexer = Lexer::new(src, &arena);
    let mut parser = Parser::new(lexer, &arena);
    let (root, perr) = parser.parse_program();
    if !perr.diagnostics.is_empty() {
        return ScriptEnd::FrontEnd(format!("parse: {}", perr.diagnostics[0].message));
    }
    let mut resolver = Resolver::new(&arena);
    resolver.resolve(root);
    if resolver.errors.has_errors() {
        return ScriptEnd::FrontEnd(format!("resolve: {}", resolver.errors.diagnostics[0].message));
    }
    let mut runtime = Runtime::new_with_host_policy(&arena, Some(&frame), policy);
    runtime.run_with_analysis(root, &resolver.facts, resolver.optimization_plan.as_ref());
    match runtime.errors.diagnostics.iter().find(|d| d.severity == naijascript::diagnostics::Severity::Error) {
        None => ScriptEnd::Clean,
        Some(d) => {
            let label = d.labels.first().map_or(String::new(), |l| l.message.to_string());
            ScriptEnd::Runtime(d.message.to_string(), label)
        }
    }
}

/// The report path of a history in child form.
fn report_path(h: &Hist) -> Option<String> {
    let s = shadow(&h.ops);
    if s.args.len() >= 3 && s.args[0] == "proc" && s.args[1] == "child" && !s.args[2].is_empty() {
        Some(s.args[2].clone())
    } else {
        None
    }
}

fn classify_fd(st: FdStat, parent: FdStat, expected: &str) -> String {
    let mut cands: Vec<&str> = Vec::new();
    if st == parent && st.kind != b'x' {
        cands.push("inherit");
    }
    if st.kind == b'n' {
        cands.push("null");
    }
    if st.kind == b'f' && st != parent {
        cands.push("piped");
    }
    if cands.contains(&expected) {
        expected.to_string()
    } else if let Some(c) = cands.first() {
        (*c).to_string()
    } else {
        format!("!{}", st.kind as char)
    }
}

fn stdio_of(p: OutputPolicy) -> &'static str {
    match p {
        OutputPolicy::Inherit => "inherit",
        OutputPolicy::Null => "null",
        OutputPolicy::Capture => "piped",
    }
}

/// The `spawned …` answer from the child's report, plus oracle complaints.
fn spawned_line(
    h: &Hist,
    rep: &Report,
    parent_env: &BTreeMap<Vec<u8>, Vec<u8>>,
    parent_fds: [FdStat; 3],
    parent_cwd: &Path,
) -> (String, Vec<String>) {
    let s = shadow(&h.ops);
    let mut bad: Vec<String> = Vec::new();
    if !rep.done || !rep.stdin_ok || rep.fds.len() != 3 {
        bad.push("child report incomplete".into());
    }
    // argv
    let mut want_argv: Vec<&[u8]> = vec![h.program.as_bytes()];
    want_argv.extend(s.args.iter().map(String::as_bytes));
    if rep.argv.iter().map(Vec::as_slice).collect::<Vec<_>>() != want_argv {
        bad.push(format!(
            "child argv {} differs from the configured {}",
            hex_list(rep.argv.iter().map(Vec::as_slice)),
            hex_list(want_argv.iter().copied())
        ));
    }
    // environment: parent's with the overrides applied, nothing else (compared by length + digest;
    // no value of an inherited variable is ever printed)
    let sig = |v: &[u8]| (v.len(), fnv64(v));
    let mut want_env: BTreeMap<Vec<u8>, (usize, u64)> = parent_env.iter().map(|(k, v)| (k.clone(), sig(v))).collect();
    for (k, v) in &s.env {
        want_env.insert(k.as_bytes().to_vec(), sig(v.as_bytes()));
    }
    if rep.env != want_env {
        let key = want_env
            .iter()
            .find(|(k, v)| rep.env.get(*k) != Some(v))
            .map(|(k, _)| k.clone())
            .or_else(|| rep.env.keys().find(|k| !want_env.contains_key(*k)).cloned())
            .unwrap_or_default();
        let describe = |m: &BTreeMap<Vec<u8>, (usize, u64)>| match m.get(&key) {
            Some((len, _)) => format!("{len} bytes"),
            None => "unset".to_string(),
        };
        bad.push(format!(
            "child environment differs from parent+overrides at key {} (child: {}, wanted: {}{})",
            hex(&key),
            describe(&rep.env),
            describe(&want_env),
            if s.env.iter().any(|(k, _)| k.as_bytes() == key.as_slice()) { ", an override" } else { ", inherited" }
        ));
    }
    let mut keys: Vec<(&[u8], &[u8])> = s.env.iter().map(|(k, v)| (k.as_bytes(), v.as_bytes())).collect();
    keys.sort();
    let env_txt = format!(
        "[{}]",
        keys.iter()
            .map(|(k, v)| {
                let seen = match rep.env.get(*k) {
                    Some(x) if *x == sig(v) => hex(v),
                    Some((len, _)) => format!("!differs:{len}"),
                    None => "!missing".to_string(),
                };
                format!("{}={}", hex(k), seen)
            })
            .collect::<Vec<_>>()
            .join(",")
    );
    // cwd
    let child_cwd = rep.cwd.clone().unwrap_or_default();
    let want_cwd = match &s.cwd {
        Some(d) => std::fs::canonicalize(parent_cwd.join(d)).ok(),
        None => std::fs::canonicalize(parent_cwd).ok(),
    };
    let cwd_ok = want_cwd.as_ref().is_some_and(|p| p.as_os_str().as_bytes() == child_cwd.as_slice());
    let cwd_txt = if cwd_ok {
        s.cwd.as_ref().map_or("none".to_string(), |d| hex_s(d))
    } else {
        bad.push(format!("child cwd {} is not the configured directory", hex(&child_cwd)));
        format!("!{}", hex(&child_cwd))
    };
    // stdio
    let fds: Vec<FdStat> = (0..3).map(|i| rep.fds.get(i).copied().unwrap_or(FdStat { kind: b'x', dev: 0, ino: 0 })).collect();
    let want_in = match &s.stdin {
        SIn::Inherit => "inherit",
        SIn::Null => "null",
        SIn::Text(_) => "piped",
    };
    let in_kind = classify_fd(fds[0], parent_fds[0], want_in);
    let out_kind = classify_fd(fds[1], parent_fds[1], stdio_of(s.out));
    let err_kind = classify_fd(fds[2], parent_fds[2], stdio_of(s.err));
    let want_data: &[u8] = match &s.stdin {
        SIn::Text(t) => t.as_bytes(),
        _ => b"",
    };
    if in_kind != want_in || rep.stdin != want_data {
        bad.push(format!(
            "child stdin {in_kind}:{} differs from the configured {want_in}:{}",
            hex(&rep.stdin),
            hex(want_data)
        ));
    }
    if out_kind != stdio_of(s.out) || err_kind != stdio_of(s.err) {
        bad.push(format!("child stdout/stderr {out_kind}/{err_kind} differ from the configured policies"));
    }
    let stdin_txt = if in_kind == "piped" || !rep.stdin.is_empty() {
        format!("{in_kind}:{}", hex(&rep.stdin))
    } else {
        in_kind.clone()
    };
    let line = format!(
        "spawned argv={} cwd={} env={} stdin={} out={} err={}",
        hex_list(rep.argv.iter().map(Vec::as_slice)),
        cwd_txt,
        env_txt,
        stdin_txt,
        out_kind,
        err_kind
    );
    (line, bad)
}

fn parent_env() -> BTreeMap<Vec<u8>, Vec<u8>> {
    std::env::vars_os().map(|(k, v)| (k.into_vec(), v.into_vec())).collect()
}

/// `run <allow>` (script route) or `spawn` (API route).
fn do_run(h: &Hist, caps: &ProcessCaps, allow: Option<bool>, shape: Shape) -> (String, Vec<String>) {
    let Some(report) = report_path(h) else { return ("bad-op".into(), vec![]) };
    let _ = std::fs::remove_file(&report);
    let _ = std::fs::remove_file(format!("{report}.tmp"));
    let penv = parent_env();
    let mut pfds = [fd_stat(0), fd_stat(1), fd_stat(2)];
    let pcwd = std::env::current_dir().unwrap_or_else(|_| PathBuf::from("/"));
    let s = shadow(&h.ops);
    let mut bad: Vec<String> = Vec::new();
    // outcome: Ok(()) spawned and finished, Err(kind text)
    let outcome: Result<(), String> = match allow {
        Some(allow) => {
            let Some(src) = render_script(&h.program, &h.ops, shape, true) else {
                return ("bad-op".into(), vec![]);
            };
            let (end, worker_fds) = run_script_isolated(&src, HostPolicy { allow_process: allow, process: *caps });
            if let Some(f) = worker_fds {
                pfds = f;
            }
            match end {
                ScriptEnd::Clean => Ok(()),
                ScriptEnd::Runtime(msg, label) => match msg.as_str() {
                    "Process execution denied" => Err("denied".into()),
                    "Invalid process configuration" => Err(format!("invalid {}", err_token(&label))),
                    other => Err(format!("error:{}", err_token(other))),
                },
                ScriptEnd::FrontEnd(m) => Err(format!("script-error:{}", err_token(&m))),
                ScriptEnd::Died(m) => {
                    bad.push(format!("the interpreter died while running the script ({m})"));
                    Err(format!("died:{}", err_token(&m)))
                }
            }
        }
        None => match h.cmd.validate(caps) {
            Err(ProcessError::SpecInvalid(name)) => Err(format!("invalid {}", err_token(name))),
            Err(e) => Err(format!("error:{}", err_token(&format!("{e:?}")))),
            Ok(spec) => {
                let arena = Arena::new(16 << 20).unwrap();
                match naijascript::sys::process::run(&spec, caps, &arena) {
                    Ok(res) => {
                        if res.exit_code != Some(0) {
                            bad.push(format!("child exit code {:?}", res.exit_code));
                        }
                        Ok(())
                    }
                    Err(e) => Err(format!("error:{}", err_token(&format!("{e:?}")))),
                }
            }
        },
    };
    let exists = Path::new(&report).exists();
    let want_refusal = if allow == Some(false) { Some("denied") } else { violated(&h.program, &s, caps) };
    let line = match outcome {
        Ok(()) => {
            if let Some(what) = want_refusal {
                bad.push(format!("command was run although it must be refused ({what})"));
            }
            match read_report(&report) {
                Some(rep) => {
                    let (line, mut b) = spawned_line(h, &rep, &penv, pfds, &pcwd);
                    bad.append(&mut b);
                    line
                }
                None => {
                    bad.push("run reported success but the child left no report".into());
                    "spawned !no-report".to_string()
                }
            }
        }
        Err(kind) => {
            if exists {
                bad.push(format!("a child was spawned although the command was refused ({kind})"));
            }
            if want_refusal.is_none() {
                bad.push(format!("command respects every limit and the policy allows it, but got {kind}"));
            }
            format!("{kind} spawn={}", u8::from(exists))
        }
    };
    let _ = std::fs::remove_file(&report);
    (line, bad)
}

fn parse_policy(w: &str) -> Option<OutputPolicy> {
    match w {
        "capture" => Some(OutputPolicy::Capture),
        "inherit" => Some(OutputPolicy::Inherit),
        "null" => Some(OutputPolicy::Null),
        _ => None,
    }
}

fn utf8(h: &str) -> Option<String> {
    String::from_utf8(unhex(h)?).ok()
}

fn step(w: &[&str], caps: &mut ProcessCaps, hist: &mut Option<Hist>) -> (String, Vec<String>) {
    let bad = || ("bad-op".to_string(), Vec::new());
    let ok = || ("ok".to_string(), Vec::new());
    match w {
        ["caps", nums @ ..] => {
            let v: Vec<u32> = nums.iter().filter_map(|n| n.parse().ok()).collect();
            if v.len() != 14 || nums.len() != 14 {
                return bad();
            }
            *caps = caps_from(&v);
            ok()
        }
        ["new", p] => {
            let Some(p) = utf8(p) else { return bad() };
            *hist = None;
            *hist = Some(Hist::new(&p));
            ok()
        }
        _ => {
            let Some(h) = hist.as_mut() else { return bad() };
            match w {
                ["arg", v] => {
                    let Some(v) = utf8(v) else { return bad() };
                    let t = h.text(&v);
                    h.cmd.push_arg(t);
                    h.ops.push(OpRec::Arg(v));
                    ok()
                }
                ["cwd", v] => {
                    let Some(v) = utf8(v) else { return bad() };
                    let t = h.text(&v);
                    h.cmd.set_cwd(t);
                    h.ops.push(OpRec::Cwd(v));
                    ok()
                }
                ["env", k, v] => {
                    let (Some(k), Some(v)) = (utf8(k), utf8(v)) else { return bad() };
                    let (tk, tv) = (h.text(&k), h.text(&v));
                    h.cmd.set_env(tk, tv);
                    h.ops.push(OpRec::Env(k, v));
                    ok()
                }
                ["stdin_text", v] => {
                    let Some(v) = utf8(v) else { return bad() };
                    let t = h.text(&v);
                    h.cmd.set_stdin_text(t);
                    h.ops.push(OpRec::StdinText(v));
                    ok()
                }
                ["stdin_inherit"] => {
                    h.cmd.set_stdin_policy(StdinPolicy::Inherit);
                    h.ops.push(OpRec::StdinInherit);
                    ok()
                }
                ["stdin_null"] => {
                    h.cmd.set_stdin_policy(StdinPolicy::Null);
                    h.ops.push(OpRec::StdinNull);
                    ok()
                }
                [op] if op.starts_with("stdout_") => {
                    let Some(p) = parse_policy(&op[7..]) else { return bad() };
                    h.cmd.set_stdout_policy(p);
                    h.ops.push(OpRec::Out(p));
                    ok()
                }
                [op] if op.starts_with("stderr_") => {
                    let Some(p) = parse_policy(&op[7..]) else { return bad() };
                    h.cmd.set_stderr_policy(p);
                    h.ops.push(OpRec::Err(p));
                    ok()
                }
                ["timeout", n] => {
                    let Ok(t) = n.parse::<u32>() else { return bad() };
                    h.cmd.set_timeout_ms(t);
                    h.ops.push(OpRec::Timeout(t));
                    ok()
                }
                ["timeout_num", n] => {
                    let Ok(n) = n.parse::<u64>() else { return bad() };
                    if n >= (1u64 << 53) {
                        return bad();
                    }
                    // ask the real runtime whether `timeout_ms(n)` is accepted by the builder call
                    let src = format!("make c get command(\"x\")\nc.timeout_ms({n})\n");
                    match run_script(&src, HostPolicy { allow_process: false, process: *caps }) {
                        ScriptEnd::Clean => {
                            // the builder's own u32 is private to the runtime; the API-side command gets
                            // the saturated value, the script route gets the literal
                            h.cmd.set_timeout_ms(u32::try_from(n).unwrap_or(u32::MAX));
                            h.ops.push(OpRec::TimeoutNum(n));
                            ok()
                        }
                        ScriptEnd::Runtime(_, label) if label == "Timeout must be positive whole number" => {
                            ("refused".to_string(), vec![])
                        }
                        ScriptEnd::Runtime(m, l) => (format!("error:{}:{}", err_token(&m), err_token(&l)), vec![]),
                        ScriptEnd::FrontEnd(m) | ScriptEnd::Died(m) => {
                            (format!("script-error:{}", err_token(&m)), vec![])
                        }
                    }
                }
                ["clone"] => {
                    let c = h.cmd.clone_into(h.aref());
                    h.cmd = c;
                    h.ops.push(OpRec::Clone);
                    ok()
                }
                ["show"] => {
                    let line = show_cmd(&h.cmd);
                    let s = shadow(&h.ops);
                    let want = show_shadow(&h.program, &s, s.timeout);
                    let bad = if line == want {
                        vec![]
                    } else {
                        vec![format!("builder state differs from what the calls configured: {line} vs {want}")]
                    };
                    (line, bad)
                }
                ["validate"] => {
                    let s = shadow(&h.ops);
                    let v = violated(&h.program, &s, caps);
                    match h.cmd.validate(caps) {
                        Ok(spec) => {
                            let line = show_spec(&spec);
                            let mut bad = vec![];
                            if let Some(what) = v {
                                bad.push(format!("accepted although a limit is violated: {what}"));
                            }
                            let want =
                                show_shadow(&h.program, &s, Some(s.timeout.unwrap_or(caps.default_timeout_ms)));
                            if line != want {
                                bad.push(format!("spec differs from what the calls configured: {line} vs {want}"));
                            }
                            (format!("ok {line}"), bad)
                        }
                        Err(ProcessError::SpecInvalid(name)) => {
                            let bad = if v.is_none() {
                                vec![format!("refused ({name}) although every limit is respected")]
                            } else {
                                vec![]
                            };
                            (format!("err {}", err_token(name)), bad)
                        }
                        Err(e) => (format!("err other:{}", err_token(&format!("{e:?}"))), vec![]),
                    }
                }
                ["run", a @ ("0" | "1")] => do_run(h, caps, Some(*a == "1"), Shape::Flat),
                ["run", a @ ("0" | "1"), shape] => {
                    let Some(shape) = parse_shape(shape) else { return bad() };
                    do_run(h, caps, Some(*a == "1"), shape)
                }
                ["spawn"] => do_run(h, caps, None, Shape::Flat),
                _ => bad(),
            }
        }
    }
}

/// `nvh proc render`: the NaijaScript program of the last `run` request of the history on stdin.
fn render() -> i32 {
    let mut hist: Option<Hist> = None;
    let mut caps = ProcessCaps::defaults();
    let mut last: Option<String> = None;
    for line in util::stdin_lines() {
        let w: Vec<&str> = line.split_whitespace().collect();
        match w.as_slice() {
            ["run", _] | ["run", _, _] => {
                let shape = w.get(2).and_then(|x| parse_shape(x)).unwrap_or(Shape::Flat);
                if let Some(h) = &hist {
                    last = render_script(&h.program, &h.ops, shape, true);
                }
            }
            ["spawn"] | ["show"] | ["validate"] | ["timeout_num", _] => {}
            _ => {
                let _ = step(&w, &mut caps, &mut hist);
            }
        }
        if let ["timeout_num", n] = w.as_slice()
            && let (Some(h), Ok(n)) = (hist.as_mut(), n.parse::<u64>())
            && n > 0
        {
            h.ops.push(OpRec::TimeoutNum(n));
        }
    }
    match last {
        Some(src) => {
            print!("{src}");
            0
        }
        None => 1,
    }
}

fn run(args: &[String]) -> i32 {
    util::silence_panics();
    if let Some(dir) = util::opt(args, "--dir") {
        for sub in SUBDIRS {
            let _ = std::fs::create_dir_all(Path::new(dir).join(sub));
        }
        let _ = std::fs::create_dir_all(dir);
        // relative program names (seed C15-c1): the child binary under `relbin/` of the work directory and
        // of every sub-directory a history may configure as cwd; this process (the "interpreter") runs
        // IN the work directory, so the same relative path also exists relative to the parent's cwd
        if let Some(w) = util::opt(args, "--worker") {
            for base in std::iter::once(PathBuf::from(dir)).chain(SUBDIRS.iter().map(|s| Path::new(dir).join(s))) {
                let d = base.join("relbin");
                let _ = std::fs::create_dir_all(&d);
                let dst = d.join("nvh-child");
                let fresh = match (std::fs::metadata(w), std::fs::metadata(&dst)) {
                    (Ok(a), Ok(b)) => {
                        use std::os::unix::fs::MetadataExt;
                        a.ino() == b.ino() && a.dev() == b.dev()
                    }
                    _ => false,
                };
                if !fresh {
                    let _ = std::fs::remove_file(&dst);
                    if std::fs::hard_link(w, &dst).is_err() {
                        let _ = std::os::unix::fs::symlink(w, &dst);
                    }
                }
            }
            let _ = std::env::set_current_dir(dir);
        }
    }
    if let Some(w) = util::opt(args, "--worker") {
        let _ = WORKER.set(w.to_string());
    }
    let lines = util::stdin_lines();
    let mut out = Out::new();
    let mut caps = ProcessCaps::defaults();
    let mut hist: Option<Hist> = None;
    let mut fails = 0u64;
    let mut spawns = 0u64;
    let mut skipping = false;
    // a change that makes children hang costs one full timeout per spawn: after a few failing
    // run/spawn requests the remaining ones are answered `skipped` (the check ignores those lines)
    let max_spawn_fails = util::opt_u64(args, "--max-spawn-fails", 3);
    let mut spawn_fails = 0u64;
    for (lineno, line) in lines.iter().enumerate() {
        let w: Vec<&str> = line.split_whitespace().collect();
        if matches!(w.first(), Some(&"new")) {
            skipping = false;
        }
        if skipping && !matches!(w.first(), Some(&"caps")) {
            out.line("skipped");
            continue;
        }
        let is_spawn_req = matches!(w.first(), Some(&"run") | Some(&"spawn"));
        if is_spawn_req && spawn_fails >= max_spawn_fails {
            out.line("skipped");
            continue;
        }
        match util::catch(|| step(&w, &mut caps, &mut hist)) {
            Ok((ans, bad)) => {
                if ans.starts_with("spawned") {
                    spawns += 1;
                }
                if is_spawn_req && !bad.is_empty() {
                    spawn_fails += 1;
                }
                out.line(&ans);
                for msg in bad {
                    fails += 1;
                    eprintln!("ORACLE-FAIL {} {}", lineno + 1, msg.replace('\n', " "));
                }
            }
            Err(msg) => {
                out.line("panic");
                eprintln!("PANIC {} {}", lineno + 1, msg.replace('\n', " "));
                skipping = true;
                if is_spawn_req {
                    spawn_fails += 1;
                }
            }
        }
    }
    eprintln!("ORACLE-SUMMARY fails={fails} lines={} spawned={spawns}", lines.len());
    0
}

// ------------------------------------------------------------------------------------ generator

/// Default timeout of spawn histories.
const SPAWN_TIMEOUT_MS: u32 = 10_000;

const NASTY: &[&str] = &[
    "", " ", "a b", "  lead", "trail  ", "a  b   c", "\"q\"", "'s'", "it's", "$HOME", "${PATH}", "$(id)", "`id`",
    "*", "*.rs", "?", "[a-z]", "~", ";", "a;b", "&&", "||", "|", "> out", "< in", "&", "\n", "a\nb", "line\n", "\t",
    "\\", "\\n", "\\\"", "é", "日本語", "😀", "a😀b", "-n", "--", "-", "a=b", "=", "#c", "%s", "!", "}", "{", "{x}",
    "{{", "a\"{b}", "\\{", "\r", "a\rb", "\u{7f}", "\u{1}", "\0", "a\0b", "\0\0",
];

const KEYS: &[&str] = &["NV_A", "NV_B", "NV C", "nv$d", "NV_é", "NV*", "NV;x", "NV\nL", "HOME", "PATH", "NV_A", "nv_a"];
const BAD_KEYS: &[&str] = &["", "A=B", "=", "K\0", "\0"];

/// A string of exactly `n` bytes (valid UTF-8) from a mixed alphabet.
fn sized(rng: &mut Rng, n: usize) -> String {
    let mut s = String::new();
    while s.len() < n {
        let left = n - s.len();
        let pick = rng.below(12);
        let piece = match pick {
            0 if left >= 2 => "é",
            1 if left >= 3 => "日",
            2 if left >= 4 => "😀",
            3 => " ",
            4 => "$",
            5 => "*",
            6 => ";",
            7 => "\n",
            8 => "\"",
            9 => "=",
            _ => "a",
        };
        s.push_str(piece);
    }
    s
}

fn text(rng: &mut Rng) -> String {
    match rng.below(10) {
        0..=3 => (*rng.pick(NASTY)).to_string(),
        4..=8 => {
            let n = rng.below(7) as usize;
            sized(rng, n)
        }
        _ => {
            let n = 7 + rng.below(30) as usize;
            sized(rng, n)
        }
    }
}

fn no_nul(mut s: String) -> String {
    s.retain(|c| c != '\0');
    s
}

fn line_of(op: &OpRec) -> String {
    match op {
        OpRec::Arg(v) => format!("arg {}", hex_s(v)),
        OpRec::Cwd(v) => format!("cwd {}", hex_s(v)),
        OpRec::Env(k, v) => format!("env {} {}", hex_s(k), hex_s(v)),
        OpRec::StdinText(v) => format!("stdin_text {}", hex_s(v)),
        OpRec::StdinInherit => "stdin_inherit".into(),
        OpRec::StdinNull => "stdin_null".into(),
        OpRec::Out(p) => format!("stdout_{}", out_name(*p)),
        OpRec::Err(p) => format!("stderr_{}", out_name(*p)),
        OpRec::Timeout(t) => format!("timeout {t}"),
        OpRec::TimeoutNum(n) => format!("timeout_num {n}"),
        OpRec::Clone => "clone".into(),
    }
}

/// The quantities the limits are compared with.
struct Metrics {
    v: [u64; 14],
}

fn metrics(program: &str, s: &Shadow, default_timeout: u32) -> Metrics {
    let t = s.timeout.unwrap_or(default_timeout);
    Metrics {
        v: [
            program.len() as u64,
            s.cwd.as_ref().map_or(0, String::len) as u64,
            s.args.len() as u64,
            s.args.iter().map(String::len).max().unwrap_or(0) as u64,
            s.args.iter().map(String::len).sum::<usize>() as u64,
            s.env.len() as u64,
            s.env.iter().map(|(k, _)| k.len()).max().unwrap_or(0) as u64,
            s.env.iter().map(|(_, v)| v.len()).max().unwrap_or(0) as u64,
            s.env.iter().map(|(k, v)| k.len() + v.len()).sum::<usize>() as u64,
            match &s.stdin {
                SIn::Text(t) => t.len() as u64,
                _ => 0,
            },
            1 << 20,
            u64::from(default_timeout),
            u64::from(t),
            10,
        ],
    }
}

fn clamp32(x: i128) -> u32 {
    x.clamp(0, i128::from(u32::MAX)) as u32
}

/// Limits placed around the metrics: each limit independently far above (most often), exactly at,
/// one above or one below its metric.
fn caps_around(rng: &mut Rng, m: &Metrics, p_below: u64) -> ProcessCaps {
    let mut v = [0u32; 14];
    for i in 0..14 {
        let base = m.v[i] as i128;
        let r = rng.below(100);
        let d: i128 = if r < p_below {
            -1
        } else if r < p_below + 22 {
            0
        } else if r < p_below + 32 {
            1
        } else {
            1000
        };
        v[i] = clamp32(base + d);
    }
    // default timeout is an input, not a limit; keep it
    v[11] = m.v[11] as u32;
    v[10] = 1 << 20;
    v[13] = 10;
    caps_from(&v)
}

fn gen_builder_history(rng: &mut Rng, out: &mut Out) {
    let program = match rng.below(24) {
        0 => String::new(),
        1 => "a\0".to_string(),
        2 | 3 => text(rng),
        _ => {
            let n = 1 + rng.below(6) as usize;
            no_nul(sized(rng, n))
        }
    };
    let nops = rng.below(11);
    let mut ops: Vec<OpRec> = Vec::new();
    let clean = rng.chance(1, 2); // half of the histories carry no NUL / bad key at all
    for _ in 0..nops {
        let t = |rng: &mut Rng| if clean { no_nul(text(rng)) } else { text(rng) };
        let op = match rng.below(100) {
            0..=34 => OpRec::Arg(t(rng)),
            35..=59 => {
                let k = if !clean && rng.chance(1, 6) {
                    (*rng.pick(BAD_KEYS)).to_string()
                } else if rng.chance(1, 8) {
                    no_nul(text(rng)).replace('=', "")
                } else {
                    (*rng.pick(KEYS)).to_string()
                };
                let k = if clean && k.is_empty() { "K".to_string() } else { k };
                OpRec::Env(k, t(rng))
            }
            60..=67 => {
                let d = t(rng);
                OpRec::Cwd(if clean && d.is_empty() { "/".into() } else { d })
            }
            68..=75 => OpRec::StdinText(t(rng)),
            76..=77 => OpRec::StdinInherit,
            78..=79 => OpRec::StdinNull,
            80..=85 => OpRec::Out(*rng.pick(&[OutputPolicy::Capture, OutputPolicy::Inherit, OutputPolicy::Null])),
            86..=89 => OpRec::Err(*rng.pick(&[OutputPolicy::Capture, OutputPolicy::Inherit, OutputPolicy::Null])),
            90..=95 => OpRec::Timeout(*rng.pick(&[0u32, 1, 2, 9, 10, 1000, 3_600_000, 3_600_001, u32::MAX - 1, u32::MAX])),
            _ => OpRec::Clone,
        };
        ops.push(op);
    }
    out.line(&format!("new {}", hex_s(&program)));
    for (i, op) in ops.iter().enumerate() {
        out.line(&line_of(op));
        if rng.chance(1, 12) && i + 1 < ops.len() {
            out.line("show");
        }
    }
    out.line("show");
    let s = shadow(&ops);
    for round in 0..3 {
        let default_timeout =
            if rng.chance(1, 12) { 0 } else { *rng.pick(&[1u32, 5, 900_000, 3_600_000, u32::MAX]) };
        let m = metrics(&program, &s, default_timeout);
        let caps = if rng.chance(1, 25) {
            let mut d = ProcessCaps::defaults();
            d.default_timeout_ms = default_timeout.max(1).min(d.max_timeout_ms);
            d
        } else if round == 1 {
            // exactly one limit one below its metric, every other limit met
            let mut c = caps_around(rng, &m, 0);
            let candidates: Vec<usize> =
                [0usize, 1, 2, 3, 4, 5, 6, 7, 8, 9, 12].into_iter().filter(|&i| m.v[i] > 0).collect();
            if !candidates.is_empty() {
                let which = *rng.pick(&candidates);
                let mut v: Vec<u32> = caps_fields(&c).iter().map(|(_, x)| *x).collect();
                v[which] = clamp32(m.v[which] as i128 - 1);
                c = caps_from(&v);
            }
            c
        } else {
            caps_around(rng, &m, if round == 0 { 0 } else { 6 })
        };
        out.line(&caps_line(&caps));
        out.line("validate");
    }
}

fn gen_spawn_history(rng: &mut Rng, out: &mut Out, nvh: &str, dir: &str, id: &str, big: bool) {
    let report = format!("{dir}/r-{id}");
    let mut ops: Vec<OpRec> =
        vec![OpRec::Arg("proc".into()), OpRec::Arg("child".into()), OpRec::Arg(report.clone())];
    // what kind of history: 0 plain accept, 1 content-invalid, 2 a limit one below, 3 denied
    let kind = match rng.below(100) {
        0..=49 => 0,
        50..=59 => 1,
        60..=77 => 2,
        _ => 3,
    };
    let nops = 2 + rng.below(9);
    let pick_text = |rng: &mut Rng| -> String {
        if big && rng.chance(1, 6) {
            let n = *rng.pick(&[4096usize, 16_384, 65_535, 65_536]);
            sized(rng, n)
        } else {
            no_nul(text(rng))
        }
    };
    for _ in 0..nops {
        let op = match rng.below(100) {
            0..=39 => OpRec::Arg(pick_text(rng)),
            40..=64 => {
                let k = if rng.chance(1, 8) {
                    let k = no_nul(text(rng)).replace('=', "");
                    if k.is_empty() { "NV_E".to_string() } else { k }
                } else {
                    (*rng.pick(KEYS)).to_string()
                };
                let mut v = pick_text(rng);
                if v.len() > 16_384 {
                    let mut cut = 16_384;
                    while !v.is_char_boundary(cut) {
                        cut -= 1;
                    }
                    v.truncate(cut);
                }
                // PATH/HOME overrides are welcome (absolute program path), but keep the loader sane
                OpRec::Env(k, v)
            }
            65..=74 => {
                let d = match rng.below(5) {
                    0 => dir.to_string(),
                    1 => "/".to_string(),
                    2 => ".".to_string(),
                    _ => format!("{dir}/{}", rng.pick(SUBDIRS)),
                };
                OpRec::Cwd(d)
            }
            75..=84 => OpRec::StdinText(pick_text(rng)),
            85..=86 => OpRec::StdinNull,
            87..=88 => OpRec::StdinInherit,
            89..=92 => OpRec::Out(*rng.pick(&[OutputPolicy::Capture, OutputPolicy::Inherit, OutputPolicy::Null])),
            93..=95 => OpRec::Err(*rng.pick(&[OutputPolicy::Capture, OutputPolicy::Inherit, OutputPolicy::Null])),
            // generous (hundreds of times a normal child run) but bounded: a change that makes children
            // hang must not cost a quarter of an hour per sample
            96..=97 => OpRec::TimeoutNum(*rng.pick(&[SPAWN_TIMEOUT_MS as u64, 15_000, 30_000])),
            _ => OpRec::Clone,
        };
        ops.push(op);
    }
    if kind == 1 || (kind == 3 && rng.chance(1, 2)) {
        // one invalid content item (also under a denying policy: the gate comes first)
        let op = match rng.below(7) {
            0 => OpRec::Arg("a\0b".into()),
            1 => OpRec::Env("A=B".into(), "v".into()),
            2 => OpRec::Env("K".into(), "v\0".into()),
            3 => OpRec::StdinText("\0".into()),
            4 => OpRec::Cwd("/\0".into()),
            5 => OpRec::TimeoutNum(*rng.pick(&[3_600_001u64, 4_294_967_295, 4_294_967_296, 5_000_000_000])),
            _ => OpRec::Env("\0K".into(), "v".into()),
        };
        let at = 3 + rng.below((ops.len() - 2) as u64) as usize;
        ops.insert(at.min(ops.len()), op);
    }
    // the final stdin setting is text or null nine times out of ten (an inherited stdin is the
    // harness's own, already drained, request pipe)
    if !matches!(shadow(&ops).stdin, SIn::Text(_) | SIn::Null) || rng.chance(1, 3) {
        if rng.chance(9, 10) {
            ops.push(if rng.chance(2, 3) { OpRec::StdinText(pick_text(rng)) } else { OpRec::StdinNull });
        }
    }
    // one history in six names the program by a RELATIVE path with a directory component: the child must get
    // exactly that string as argv[0], and the file is looked up under the configured cwd (it exists under
    // the work directory and each of its sub-directories, see `run`)
    let nvh = if rng.chance(1, 6) {
        let d = match rng.below(3) {
            0 => dir.to_string(),
            1 => ".".to_string(),
            _ => format!("{dir}/{}", rng.pick(SUBDIRS)),
        };
        ops.push(OpRec::Cwd(d));
        *rng.pick(&["relbin/nvh-child", "./relbin/nvh-child", "relbin/../relbin/nvh-child"])
    } else {
        nvh
    };
    let s = shadow(&ops);
    let mut caps = ProcessCaps::defaults();
    caps.default_timeout_ms = SPAWN_TIMEOUT_MS;
    let m = metrics(nvh, &s, caps.default_timeout_ms);
    // limits that may be set exactly to what the command uses; never the timeout limit when the
    // command asks for a long one (it must stay refused)
    let exact_ok = |i: usize| i != 12 || m.v[12] <= 60_000;
    if kind == 2 {
        // one limit exactly one below what the command needs, the others exactly met or default
        let candidates: Vec<usize> = [0usize, 1, 2, 3, 4, 5, 6, 7, 8, 9, 12]
            .into_iter()
            .filter(|&i| m.v[i] > 0 && !(i == 1 && s.cwd.is_none()) && !(i == 9 && !matches!(s.stdin, SIn::Text(_))))
            .collect();
        let which = *rng.pick(&candidates);
        let mut v: Vec<u32> = caps_fields(&caps).iter().map(|(_, x)| *x).collect();
        for i in [0usize, 1, 2, 3, 4, 5, 6, 7, 8, 9, 12] {
            if rng.chance(1, 2) && exact_ok(i) {
                v[i] = clamp32(m.v[i] as i128);
            }
        }
        v[which] = clamp32(m.v[which] as i128 - 1);
        caps = caps_from(&v);
    } else if rng.chance(1, 2) {
        // every limit met exactly
        let mut v: Vec<u32> = caps_fields(&caps).iter().map(|(_, x)| *x).collect();
        for i in [0usize, 1, 2, 3, 4, 5, 6, 7, 8, 9, 12] {
            if rng.chance(2, 3) && exact_ok(i) {
                v[i] = clamp32(m.v[i] as i128);
            }
        }
        caps = caps_from(&v);
    }
    out.line(&format!("new {}", hex_s(nvh)));
    out.line(&caps_line(&caps));
    for op in &ops {
        out.line(&line_of(op));
    }
    out.line("show");
    out.line("validate");
    let allow = kind != 3;
    if representable(nvh, &ops) {
        if allow && rng.chance(1, 4) {
            out.line("spawn");
        }
        // one or two script layouts per history; three in four are not straight-line
        let shapes = [Shape::Flat, Shape::Loop, Shape::Func, Shape::Boxed];
        let first = rng.below(4) as usize;
        out.line(&format!("run {} {}", u8::from(allow), shape_name(shapes[first])));
        if rng.chance(1, 2) {
            let second = (first + 1 + rng.below(3) as usize) % 4;
            out.line(&format!("run {} {}", u8::from(allow), shape_name(shapes[second])));
        }
    } else {
        out.line("spawn");
    }
}

fn generate(args: &[String]) -> i32 {
    let seed = util::opt_u64(args, "--seed", 1);
    let n = util::opt_u64(args, "--n", 1000);
    let spawn = util::opt_u64(args, "--spawn", 0);
    let big = util::opt_u64(args, "--big", 0) != 0;
    let dir = util::opt(args, "--dir").unwrap_or("/nonexistent-nvh-dir").to_string();
    let nvh = match util::opt(args, "--nvh") {
        Some(p) => p.to_string(),
        None => std::env::current_exe().ok().and_then(|p| p.to_str().map(str::to_string)).unwrap_or_default(),
    };
    let mut rng = Rng::new(seed ^ 0xC15);
    let mut out = Out::new();
    out.line(&caps_line(&ProcessCaps::defaults()));
    for _ in 0..n {
        let mut r = rng.fork();
        gen_builder_history(&mut r, &mut out);
    }
    for i in 0..spawn {
        let mut r = rng.fork();
        gen_spawn_history(&mut r, &mut out, &nvh, &dir, &format!("{seed}-{i}"), big);
    }
    0
}
