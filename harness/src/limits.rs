//! Family `limits` (C18): the analysis preflight (`count_program`, `first_exceeded_limit`), what
//! `Resolver::emit_analysis_warnings` does with its answer, and the run afterwards.
//!
//! Protocol (one request per line, one answer per line; `<caps>` = the 11 fields of `AnalysisCaps`
//! in declaration order):
//! ```text
//! lim <caps> <functions> <locals> <scopes> <statements> <totalOps> <totalBlocks> <calls> <k> <b:o:l>*k
//!       -> limit=<none|metric:observed:limit> sum=<summary bound> live=<liveness bound>
//!          the real `first_exceeded_limit` on synthetic `ProgramFacts`/`ProgramCounts` with exactly
//!          these sizes (k = functions; b:o:l = function_blocks, function_ops, locals_len)
//! prog <caps> <rootLo>:<rootHi> <hex src> F=<facts> <annotated AST, spans erased>
//!       -> counts=<functions>,<locals>,<scopes>,<statements>,<totalOps>,<totalBlocks>,<calls>;<b:o:l,...> limit=<…>
//!          real front end on src, real `count_program`, real `first_exceeded_limit` with these caps
//! e2e <rootLo>:<rootHi> <hex src> X=<hex expected output|?> F=<facts> <annotated AST, spans erased>
//!       -> counts=… limit=<… at DEFAULT_CAPS> warn=<n>[@lo:hi:severity] other=<n|*> plan=<none|some>
//!          the real pipeline (`Resolver::resolve`, hard-wired DEFAULT_CAPS) and the run afterwards;
//!          other = warnings of the analysis passes when a limit tripped (`*` within the limits)
//! crash <hex src>   -> ok | panic     a program on which the generator saw the front end panic
//! F=<functions>,<locals>,<scopes>,<statements>,<calls>;<locals_len of every function>
//! ```
//! `run` evaluates oracles that need no model and reports `ORACLE-FAIL <line> <what>` on stderr:
//! the staged answer vs. "first metric in stage order above its cap" computed naively (u128) from
//! the real counts; `total_ops == statements`; limit tripped ⇔ plan absent ⇔ exactly one `analysis`
//! warning on the root span and no other warning of the analysis passes; output with the plan ==
//! output without it (what a tripped limit turns the run into); output == the generator's expected
//! output (`X=`).  `E2E <line> …` lines on stderr carry what the model does not predict (number of
//! pass warnings, pruned statements, output) for the check script.
//!
//! Programs `shout` to the real stdout, so `run` moves its answers to a duplicate of fd 1 and
//! points fd 1 at /dev/null.

use std::fmt::Write as _;
use std::io::Write as _;
use std::os::fd::FromRawFd;

use naijascript::analysis::cfg::{self, ProgramCounts};
use naijascript::analysis::effects::ExprClass;
use naijascript::analysis::facts::{
    FunctionInfo, LocalInfo, LocalKind, ProgramFacts, ScopeInfo, StmtEffectFacts, UserCallBinding,
};
use naijascript::analysis::ids::{FunctionId, ScopeId};
use naijascript::analysis::limits::{AnalysisCaps, AnalysisLimit, DEFAULT_CAPS, first_exceeded_limit};
use naijascript::analysis::opt::OptimizationPlan;
use naijascript::arena::Arena;
use naijascript::diagnostics::{Diagnostics, Severity};
use naijascript::resolver::Resolver;
use naijascript::runtime::Runtime;
use naijascript::syntax::parser::{BlockRef, Parser, Stmt};
use naijascript::syntax::scanner::Lexer;

use crate::astio::{self, Opts};
use crate::pipeline;
use crate::util::{self, Rng};

pub fn main(args: &[String]) -> i32 {
    match args.first().map(String::as_str) {
        Some("gen") => generate(&args[1..]),
        Some("gen-e2e") => gen_e2e(&args[1..]),
        Some("src") => print_src(&args[1..]),
        Some("mk") => mk(),
        Some("run") => run(),
        _ => {
            eprintln!(
                "usage: nvh limits gen --seed S --n N [--lim M] | gen-e2e --case <name>:<delta>[,…] | \
                 src --case <name>:<delta> | mk < '<caps> <hex src>' lines | run < requests"
            );
            2
        }
    }
}

/// `DEFAULT_CAPS` for `Gen/Caps.lean`.
pub fn dump_tables(out: &mut Vec<(String, String)>) {
    let c = DEFAULT_CAPS;
    let caps: Vec<String> = caps_vec(&c).iter().map(u64::to_string).collect();
    out.push(("limits_default_caps".into(), format!("[{}]", caps.join(","))));
    let names: Vec<String> = CAP_FIELDS.iter().map(|s| util::jstr(s)).collect();
    out.push(("limits_cap_fields".into(), format!("[{}]", names.join(","))));
    let metrics: Vec<String> = METRICS.iter().map(|s| util::jstr(s)).collect();
    out.push(("limits_metric_names".into(), format!("[{}]", metrics.join(","))));
}

const CAP_FIELDS: [&str; 11] = [
    "max_functions",
    "max_locals",
    "max_scopes",
    "max_statements",
    "max_total_ops",
    "max_ops_per_function",
    "max_total_blocks",
    "max_blocks_per_function",
    "max_direct_user_calls",
    "max_summary_events",
    "max_liveness_events",
];

/// The metric strings of `first_exceeded_limit`, in stage order (as the documentation of the
/// property lists them; the real answer is compared against this order by the naive oracle).
const METRICS: [&str; 11] = [
    "functions",
    "locals",
    "scopes",
    "statements",
    "cfg ops",
    "ops in one function",
    "cfg blocks",
    "blocks in one function",
    "direct user calls",
    "summary events",
    "liveness events",
];

fn caps_vec(c: &AnalysisCaps) -> [u64; 11] {
    [
        u64::from(c.max_functions),
        u64::from(c.max_locals),
        u64::from(c.max_scopes),
        u64::from(c.max_statements),
        u64::from(c.max_total_ops),
        u64::from(c.max_ops_per_function),
        u64::from(c.max_total_blocks),
        u64::from(c.max_blocks_per_function),
        u64::from(c.max_direct_user_calls),
        c.max_summary_events,
        c.max_liveness_events,
    ]
}

fn caps_from(v: &[u64; 11]) -> Option<AnalysisCaps> {
    let u = |x: u64| u32::try_from(x).ok();
    Some(AnalysisCaps {
        max_functions: u(v[0])?,
        max_locals: u(v[1])?,
        max_scopes: u(v[2])?,
        max_statements: u(v[3])?,
        max_total_ops: u(v[4])?,
        max_ops_per_function: u(v[5])?,
        max_total_blocks: u(v[6])?,
        max_blocks_per_function: u(v[7])?,
        max_direct_user_calls: u(v[8])?,
        max_summary_events: v[9],
        max_liveness_events: v[10],
    })
}

fn parse_caps(w: &[&str]) -> Option<AnalysisCaps> {
    if w.len() != 11 {
        return None;
    }
    let mut v = [0u64; 11];
    for (i, s) in w.iter().enumerate() {
        v[i] = s.parse().ok()?;
    }
    caps_from(&v)
}

fn limit_str(l: Option<AnalysisLimit>) -> String {
    match l {
        None => "none".to_string(),
        Some(l) => format!("{}:{}:{}", l.metric.replace(' ', "_"), l.observed, l.limit),
    }
}

// ------------------------------------------------------------------------------------------------
// Naive reference (no staging, exact arithmetic): observed value of every metric.

fn observed_naive(facts: &ProgramFacts<'_, '_>, counts: &ProgramCounts<'_>) -> [u128; 11] {
    let f = facts.functions.len() as u128;
    let l = facts.locals.len() as u128;
    let max = u128::from(u64::MAX);
    let summary = (f * (f + 2 * l + 2)).min(max);
    let mut live: u128 = 0;
    for (i, (b, o)) in counts.function_blocks.iter().zip(counts.function_ops.iter()).enumerate() {
        let info = &facts.functions[i];
        let n = u128::from(info.locals_len);
        live += ((2 * u128::from(*b) + u128::from(*o)) * n).min(max);
    }
    let live = live.min(max);
    [
        f,
        l,
        facts.scopes.len() as u128,
        facts.stmt_effects.len() as u128,
        u128::from(counts.total_ops),
        counts.function_ops.iter().copied().max().map_or(0, u128::from),
        u128::from(counts.total_blocks),
        counts.function_blocks.iter().copied().max().map_or(0, u128::from),
        facts.user_calls.len() as u128,
        summary,
        live,
    ]
}

fn naive_first(obs: &[u128; 11], caps: &AnalysisCaps) -> String {
    let c = caps_vec(caps);
    for i in 0..11 {
        if obs[i] > u128::from(c[i]) {
            return format!("{}:{}:{}", METRICS[i].replace(' ', "_"), obs[i], c[i]);
        }
    }
    "none".to_string()
}

fn counts_str(facts: &ProgramFacts<'_, '_>, counts: &ProgramCounts<'_>) -> String {
    let mut s = format!(
        "{},{},{},{},{},{},{};",
        facts.functions.len(),
        facts.locals.len(),
        facts.scopes.len(),
        facts.stmt_effects.len(),
        counts.total_ops,
        counts.total_blocks,
        facts.user_calls.len()
    );
    let n = counts.function_blocks.len().min(counts.function_ops.len());
    for i in 0..n {
        if i > 0 {
            s.push(',');
        }
        let l = facts.functions.get(i).map_or(0, |f| f.locals_len);
        let _ = write!(s, "{}:{}:{}", counts.function_blocks[i], counts.function_ops[i], l);
    }
    if n == 0 {
        s.push('-');
    }
    s
}

/// The part of the facts the preflight reads, as text.
fn facts_min_str(facts: &ProgramFacts<'_, '_>) -> String {
    let mut s = format!(
        "F={},{},{},{},{};",
        facts.functions.len(),
        facts.locals.len(),
        facts.scopes.len(),
        facts.stmt_effects.len(),
        facts.user_calls.len()
    );
    for (i, f) in facts.functions.iter().enumerate() {
        if i > 0 {
            s.push(',');
        }
        let _ = write!(s, "{}", f.locals_len);
    }
    s
}

// ------------------------------------------------------------------------------------------------
// run

struct Answers {
    w: std::io::BufWriter<std::fs::File>,
}

impl Answers {
    /// Move the answer stream to a duplicate of fd 1 and silence fd 1 (programs print there).
    fn take_stdout() -> Self {
        let _ = std::io::stdout().flush();
        let saved = unsafe { libc::dup(1) };
        assert!(saved >= 0, "dup(1) failed");
        let devnull = unsafe { libc::open(c"/dev/null".as_ptr(), libc::O_WRONLY) };
        assert!(devnull >= 0, "open(/dev/null) failed");
        unsafe {
            libc::dup2(devnull, 1);
            libc::close(devnull);
        }
        let f = unsafe { std::fs::File::from_raw_fd(saved) };
        Answers { w: std::io::BufWriter::new(f) }
    }
    fn line(&mut self, s: &str) {
        self.w.write_all(s.as_bytes()).unwrap();
        self.w.write_all(b"\n").unwrap();
    }
}

fn run() -> i32 {
    util::silence_panics();
    let mut out = Answers::take_stdout();
    let stdin = std::io::stdin();
    let mut fails = 0u64;
    let mut lineno = 0usize;
    let mut line = String::new();
    loop {
        line.clear();
        let n = std::io::BufRead::read_line(&mut stdin.lock(), &mut line).unwrap();
        if n == 0 {
            break;
        }
        lineno += 1;
        let text = line.trim_end_matches(['\n', '\r']);
        let r = util::catch(|| answer(text, lineno));
        match r {
            Ok((ans, oracle, side)) => {
                out.line(&ans);
                for s in side {
                    eprintln!("{s}");
                }
                for msg in oracle {
                    fails += 1;
                    eprintln!("ORACLE-FAIL {lineno} {msg}");
                }
            }
            Err(msg) => {
                out.line("panic");
                eprintln!("PANIC {lineno} {}", msg.replace('\n', " "));
            }
        }
    }
    out.w.flush().unwrap();
    eprintln!("ORACLE-SUMMARY fails={fails} lines={lineno}");
    0
}

type Answer = (String, Vec<String>, Vec<String>);

fn bad() -> Answer {
    ("bad-op".to_string(), Vec::new(), Vec::new())
}

fn answer(line: &str, lineno: usize) -> Answer {
    let mut it = line.split(' ').filter(|s| !s.is_empty());
    match it.next() {
        Some("lim") => {
            let w: Vec<&str> = it.collect();
            answer_lim(&w)
        }
        Some("prog") => {
            let head: Vec<&str> = it.by_ref().take(13).collect();
            if head.len() != 13 {
                return bad();
            }
            let Some(caps) = parse_caps(&head[..11]) else { return bad() };
            answer_prog(Some(caps), head[11], head[12], None, lineno)
        }
        Some("crash") => {
            // a program the generator saw the front end panic on: re-run the library pipeline
            let Some(src) = it.next().and_then(util::unhex).and_then(|b| String::from_utf8(b).ok()) else {
                return bad();
            };
            match front(&src) {
                Ok(_) => ("ok".to_string(), Vec::new(), Vec::new()),
                Err(m) => ("panic".to_string(), vec![format!("the pipeline does not accept a valid program: {m}")], Vec::new()),
            }
        }
        Some("e2e") => {
            let head: Vec<&str> = it.by_ref().take(3).collect();
            if head.len() != 3 {
                return bad();
            }
            answer_prog(None, head[0], head[1], head[2].strip_prefix("X="), lineno)
        }
        _ => bad(),
    }
}

// ---- lim: synthetic facts and counts ---------------------------------------------------------

fn answer_lim(w: &[&str]) -> Answer {
    if w.len() < 19 {
        return bad();
    }
    let Some(caps) = parse_caps(&w[..11]) else { return bad() };
    let nums: Option<Vec<u64>> = w[11..19].iter().map(|s| s.parse().ok()).collect();
    let Some(nums) = nums else { return bad() };
    let (functions, locals, scopes, statements, total_ops, total_blocks, calls, k) =
        (nums[0], nums[1], nums[2], nums[3], nums[4], nums[5], nums[6], nums[7]);
    if k != functions || w.len() as u64 != 19 + k {
        return bad();
    }
    if functions > 100_000 || locals > 1_000_000 || scopes > 1_000_000 || statements > 1_000_000 || calls > 1_000_000 {
        return bad();
    }
    let mut per: Vec<(u32, u32, u32)> = Vec::new();
    for s in &w[19..] {
        let p: Vec<&str> = s.split(':').collect();
        if p.len() != 3 {
            return bad();
        }
        let (Ok(b), Ok(o), Ok(l)) = (p[0].parse::<u32>(), p[1].parse::<u32>(), p[2].parse::<u32>()) else {
            return bad();
        };
        per.push((b, o, l));
    }
    let (Ok(total_ops), Ok(total_blocks)) = (u32::try_from(total_ops), u32::try_from(total_blocks)) else {
        return bad();
    };
    let arena = Arena::new(512 << 20).unwrap();
    // One tiny real program supplies the node references the fact records must point at.
    let lexer = Lexer::new("make x get f()", &arena);
    let mut parser = Parser::new(lexer, &arena);
    let (root, _errs) = parser.parse_program();
    let stmt = root.stmts[0];
    let Stmt::Assign { expr, .. } = stmt else { panic!("seed program shape") };
    let mut facts: ProgramFacts<'_, '_> = ProgramFacts::new(&arena);
    for (i, p) in per.iter().enumerate() {
        facts.functions.push(FunctionInfo {
            name: "f",
            params: None,
            parent: if i == 0 { None } else { Some(FunctionId(0)) },
            defining_scope: ScopeId(0),
            def_span: root.span.clone(),
            body_span: root.span.clone(),
            body: root,
            def_stmt: None,
            locals_start: 0,
            locals_len: p.2,
        });
    }
    for _ in 0..locals {
        facts.locals.push(LocalInfo {
            name: "x",
            owner: FunctionId(0),
            declaring_scope: ScopeId(0),
            decl_span: root.span.clone(),
            decl_stmt: None,
            kind: LocalKind::Variable,
        });
    }
    for _ in 0..scopes {
        facts.scopes.push(ScopeInfo { parent: None, owner: FunctionId(0), span: root.span.clone() });
    }
    for _ in 0..statements {
        facts.stmt_effects.push(StmtEffectFacts {
            stmt,
            function: FunctionId(0),
            scope: ScopeId(0),
            reads: Vec::new_in(&arena),
            writes: Vec::new_in(&arena),
            direct_callees: Vec::new_in(&arena),
            expr_class: ExprClass::PureNoTrap,
        });
    }
    for _ in 0..calls {
        facts.user_calls.push(UserCallBinding { call: expr, caller: FunctionId(0), callee: FunctionId(0) });
    }
    let mut function_blocks = Vec::new_in(&arena);
    let mut function_ops = Vec::new_in(&arena);
    for p in &per {
        function_blocks.push(p.0);
        function_ops.push(p.1);
    }
    let counts = ProgramCounts {
        function_blocks,
        function_ops,
        total_blocks,
        total_ops,
        total_statements: statements as u32,
    };
    let real = first_exceeded_limit(&facts, &counts, caps);
    // The two private bounds, read back through the public function: everything else unlimited.
    let wide = AnalysisCaps {
        max_functions: u32::MAX,
        max_locals: u32::MAX,
        max_scopes: u32::MAX,
        max_statements: u32::MAX,
        max_total_ops: u32::MAX,
        max_ops_per_function: u32::MAX,
        max_total_blocks: u32::MAX,
        max_blocks_per_function: u32::MAX,
        max_direct_user_calls: u32::MAX,
        max_summary_events: u64::MAX,
        max_liveness_events: u64::MAX,
    };
    let sum = first_exceeded_limit(&facts, &counts, AnalysisCaps { max_summary_events: 0, ..wide })
        .map_or(0, |l| l.observed);
    let live = first_exceeded_limit(&facts, &counts, AnalysisCaps { max_liveness_events: 0, ..wide })
        .map_or(0, |l| l.observed);
    let obs = observed_naive(&facts, &counts);
    let mut oracle = Vec::new();
    let naive = naive_first(&obs, &caps);
    let real_s = limit_str(real);
    if naive != real_s {
        oracle.push(format!("staged answer {real_s} differs from the first metric above its cap {naive}"));
    }
    if u128::from(sum) != obs[9] || u128::from(live) != obs[10] {
        oracle.push(format!("event bounds {sum}/{live} differ from exact arithmetic {}/{}", obs[9], obs[10]));
    }
    (format!("limit={real_s} sum={sum} live={live}"), oracle, Vec::new())
}

// ---- prog / e2e: real front end ----------------------------------------------------------------

fn arena_for(src_len: usize) -> Arena {
    // 64 MiB is plenty for the random programs; the default-cap programs need a few GiB of
    // address space (lazily committed).
    let cap = if src_len < (256 << 10) { pipeline::ARENA_CAP } else { 12usize << 30 };
    Arena::new(cap).unwrap()
}

fn outcome(rt: &Runtime<'_>, errs: &Diagnostics<'_>) -> (String, String) {
    let mut out = String::new();
    for (i, v) in rt.output.iter().enumerate() {
        if i > 0 {
            out.push('\n');
        }
        let _ = write!(out, "{v}");
    }
    (out, pipeline::diags_str(errs))
}

fn run_once<'a>(
    root: BlockRef<'a>,
    facts: &ProgramFacts<'a, 'a>,
    plan: Option<&OptimizationPlan<'a>>,
    arena: &'a Arena,
    frame: &'a Arena,
) -> (String, String) {
    let mut rt = Runtime::new(arena, Some(frame));
    let _ = rt.run_with_analysis(root, facts, plan);
    let errs = std::mem::replace(&mut rt.errors, Diagnostics::new(arena));
    outcome(&rt, &errs)
}

/// Own locals of every function are exactly its `local_range` (the analyses index bit sets by it;
/// programs where this fails are finding D-18 and are kept out of the run oracle).
fn ranges_contiguous(facts: &ProgramFacts<'_, '_>) -> bool {
    facts.locals.iter().enumerate().all(|(i, l)| {
        let r = facts.local_range(l.owner);
        r.contains(&(i as u32))
    })
}

const PASS_WARNINGS: [&str; 4] = ["Unreachable code", "Unused assignment", "Unused variable", "Unused function"];

fn answer_prog(caps: Option<AnalysisCaps>, rootspan: &str, hexsrc: &str, expect: Option<&str>, lineno: usize) -> Answer {
    let Some(bytes) = util::unhex(hexsrc) else { return bad() };
    let Ok(src) = String::from_utf8(bytes) else { return bad() };
    let arena = arena_for(src.len());
    let frame = Arena::new(pipeline::ARENA_CAP).unwrap();
    let lexer = Lexer::new(&src, &arena);
    let mut parser = Parser::new(lexer, &arena);
    let (root, perrs) = parser.parse_program();
    if !perrs.diagnostics.is_empty() {
        return ("parse-error".to_string(), Vec::new(), Vec::new());
    }
    let mut oracle = Vec::new();
    let mut side = Vec::new();
    if format!("{}:{}", root.span.start, root.span.end) != rootspan {
        oracle.push(format!("request says root span {rootspan}, parser says {}:{}", root.span.start, root.span.end));
    }
    let mut resolver = Resolver::new(&arena);
    resolver.resolve(root);
    let facts = &resolver.facts;
    let counts = cfg::count_program(facts, &arena);
    let e2e = caps.is_none();
    let caps = caps.unwrap_or(DEFAULT_CAPS);
    let real = first_exceeded_limit(facts, &counts, caps);
    let real_s = limit_str(real);
    let obs = observed_naive(facts, &counts);
    let naive = naive_first(&obs, &caps);
    if naive != real_s {
        oracle.push(format!("staged answer {real_s} differs from the first metric above its cap {naive}"));
    }
    if u64::from(counts.total_ops) != facts.stmt_effects.len() as u64 {
        oracle.push(format!("total_ops {} != statements {}", counts.total_ops, facts.stmt_effects.len()));
    }
    if counts.total_ops != counts.function_ops.iter().sum::<u32>()
        || counts.total_blocks != counts.function_blocks.iter().sum::<u32>()
    {
        oracle.push("totals are not the sums of the per-function counters".to_string());
    }
    let mut ans = format!("counts={} limit={real_s}", counts_str(facts, &counts));

    // What the pipeline (hard-wired DEFAULT_CAPS) did.
    let default_limit = first_exceeded_limit(facts, &counts, DEFAULT_CAPS);
    let analysis: Vec<_> = resolver.errors.diagnostics.iter().filter(|d| d.code == "analysis").collect();
    let others = resolver
        .errors
        .diagnostics
        .iter()
        .filter(|d| d.severity == Severity::Warning && d.code == "semantic" && PASS_WARNINGS.contains(&d.message))
        .count();
    let plan = resolver.optimization_plan.as_ref();
    if default_limit.is_some() {
        if plan.is_some() {
            oracle.push("limit tripped but an optimisation plan was kept".to_string());
        }
        if analysis.len() != 1 {
            oracle.push(format!("limit tripped but {} analysis warnings", analysis.len()));
        }
        if others != 0 {
            oracle.push(format!("limit tripped but {others} warnings of the analysis passes were emitted"));
        }
        for d in &analysis {
            if d.span != root.span || d.severity != Severity::Warning || d.labels.len() != 1 || d.labels[0].span != root.span {
                oracle.push("limit warning is not a single-label warning on the root body span".to_string());
            } else if let Some(l) = default_limit {
                // the label names the metric that tripped with its observed value and cap
                let want = format!("{} for {} (observed {}, limit {})", d.message, l.metric, l.observed, l.limit);
                if d.labels[0].message.as_ref() != want {
                    oracle.push(format!("limit warning label {:?} does not name the tripped metric ({want:?})", clip(d.labels[0].message.as_ref())));
                }
            }
        }
    } else {
        if plan.is_none() {
            oracle.push("no limit tripped but there is no optimisation plan".to_string());
        }
        if !analysis.is_empty() {
            oracle.push("no limit tripped but an analysis warning was emitted".to_string());
        }
    }
    if e2e {
        let w = match analysis.first() {
            Some(d) => format!("{}@{}:{}:{}", analysis.len(), d.span.start, d.span.end, pipeline::sev_name(d.severity)),
            None => "0".to_string(),
        };
        // above a limit the model says: no warning of the passes; within, they are abstract (`*`)
        let o = if default_limit.is_some() { others.to_string() } else { "*".to_string() };
        let _ = write!(ans, " warn={w} other={o} plan={}", if plan.is_some() { "some" } else { "none" });
    }

    // The run: with what the pipeline would use under *these* caps vs. with the default plan.
    let runnable = !resolver.errors.has_errors() && ranges_contiguous(facts);
    let mut run_info = String::from("run=skipped");
    if runnable {
        let with_plan = run_once(root, facts, plan, &arena, &frame);
        let tripped_here = real.is_some();
        let without = if plan.is_some() { run_once(root, facts, None, &arena, &frame) } else { with_plan.clone() };
        if with_plan != without {
            oracle.push(format!(
                "output differs between the run with the plan and the run a tripped limit gives (no plan){}: {:?} vs {:?}",
                if tripped_here { " [these caps trip]" } else { "" },
                clip(&with_plan.0),
                clip(&without.0)
            ));
        }
        if let Some(x) = expect
            && x != "?"
        {
            let want = util::unhex(x).map(|b| String::from_utf8_lossy(&b).into_owned()).unwrap_or_default();
            if want != with_plan.0 || with_plan.1 != "-" {
                oracle.push(format!("output {:?} ({}) differs from the expected {:?}", clip(&with_plan.0), with_plan.1, clip(&want)));
            }
        }
        run_info = format!("out={} rt={}", util::hex(clip(&with_plan.0).as_bytes()), with_plan.1);
    }
    if e2e {
        side.push(format!(
            "E2E {lineno} other={others} pruned={} {run_info}",
            plan.map_or(0, |p| p.removable_stmts.len() + p.removable_function_defs.len())
        ));
    } else if runnable {
        side.push(format!(
            "RUN {lineno} tripped={} pruned={}",
            u8::from(real.is_some()),
            plan.map_or(0, |p| p.removable_stmts.len() + p.removable_function_defs.len())
        ));
    }
    (ans, oracle, side)
}

fn clip(s: &str) -> String {
    if s.len() <= 200 { s.to_string() } else { format!("{}…[{} bytes]", &s[..s.floor_char_boundary(200)], s.len()) }
}

// ------------------------------------------------------------------------------------------------
// Front end for the generators: source -> (root span, facts text, AST text, counts, observed)

struct Front {
    rootspan: String,
    facts: String,
    ast: String,
    obs: [u128; 11],
    errors: bool,
}

fn front(src: &str) -> Result<Front, String> {
    util::catch(|| {
        let arena = arena_for(src.len());
        let lexer = Lexer::new(src, &arena);
        let mut parser = Parser::new(lexer, &arena);
        let (root, perrs) = parser.parse_program();
        if !perrs.diagnostics.is_empty() {
            return Err(format!("parse error in generated program: {}", pipeline::diags_str(perrs)));
        }
        let mut resolver = Resolver::new(&arena);
        resolver.resolve(root);
        let counts = cfg::count_program(&resolver.facts, &arena);
        Ok(Front {
            rootspan: format!("{}:{}", root.span.start, root.span.end),
            facts: facts_min_str(&resolver.facts),
            ast: astio::program(&Opts { spans: false, facts: Some(&resolver.facts) }, root),
            obs: observed_naive(&resolver.facts, &counts),
            errors: resolver.errors.has_errors(),
        })
    })
    .unwrap_or_else(|m| Err(format!("front end panicked: {}", m.replace('\n', " "))))
}

// ------------------------------------------------------------------------------------------------
// gen: random small programs with caps around the observed values, and synthetic `lim` requests

fn generate(args: &[String]) -> i32 {
    let seed = util::opt_u64(args, "--seed", 1);
    let n = util::opt_u64(args, "--n", 500);
    let nlim = util::opt_u64(args, "--lim", n);
    let mut rng = Rng::new(seed ^ 0xC18);
    let mut out = util::Out::new();
    let mut stats = std::collections::BTreeMap::<String, u64>::new();
    let mut bump = |k: &str| *stats.entry(k.to_string()).or_insert(0) += 1;
    for _ in 0..nlim {
        out.line(&gen_lim(&mut rng));
        bump("lim");
    }
    let mut made = 0u64;
    let mut attempts = 0u64;
    while made < n && attempts < n * 4 + 16 {
        attempts += 1;
        let mut pg = ProgGen::new(rng.fork());
        let src = pg.program();
        match front(&src) {
            Err(m) => {
                bump("front_end_failure");
                if m.contains("panicked") {
                    out.line(&format!("crash {}", util::hex(src.as_bytes())));
                    made += 1;
                }
            }
            Ok(f) => {
                // several cap vectors per program
                let reps = 1 + rng.below(3);
                for _ in 0..reps {
                    let (caps, target) = caps_around(&mut rng, &f.obs);
                    let caps_s: Vec<String> = caps.iter().map(u64::to_string).collect();
                    out.line(&format!(
                        "prog {} {} {} {} {}",
                        caps_s.join(" "),
                        f.rootspan,
                        util::hex(src.as_bytes()),
                        f.facts,
                        f.ast
                    ));
                    bump(&format!("prog_target_{target}"));
                    made += 1;
                }
                if f.errors {
                    bump("prog_with_resolver_errors");
                }
            }
        }
    }
    let s: Vec<String> = stats.iter().map(|(k, v)| format!("{k}={v}")).collect();
    eprintln!("GEN-STATS {}", s.join(" "));
    0
}

/// Caps chosen so that a chosen stage is the first to trip (or none), with the other caps at or
/// around the observed values so that every `>` / `>=` confusion and every order swap shows.
fn caps_around(rng: &mut Rng, obs: &[u128; 11]) -> ([u64; 11], String) {
    let lim = |i: usize| if i < 9 { u128::from(u32::MAX) } else { u128::from(u64::MAX) };
    let target = rng.below(13) as usize; // 0..10 = that stage trips first, 11 = none, 12 = free-for-all
    let mut caps = [0u64; 11];
    for i in 0..11 {
        let o = obs[i].min(lim(i));
        let at = o as u64;
        let above = (o + 1).min(lim(i)) as u64;
        let below = o.saturating_sub(1) as u64;
        caps[i] = if target == 12 {
            *rng.pick(&[below, at, above, 0, lim(i) as u64])
        } else if i < target {
            // must not trip: cap >= observed, mostly exactly at the boundary
            if rng.chance(3, 4) { at } else { *rng.pick(&[above, lim(i) as u64, at.saturating_add(7).min(lim(i) as u64)]) }
        } else if i == target {
            if o == 0 { 0 } else { if rng.chance(3, 4) { below } else { rng.below(at) } }
        } else {
            *rng.pick(&[below, at, above, 0, lim(i) as u64])
        };
    }
    let name = match target {
        11 => "none".to_string(),
        12 => "free".to_string(),
        t => METRICS[t].replace(' ', "_"),
    };
    (caps, name)
}

fn gen_lim(rng: &mut Rng) -> String {
    let functions = match rng.below(8) {
        0 => 0,
        1 => 1,
        _ => 1 + rng.below(6),
    };
    let small = |rng: &mut Rng| match rng.below(6) {
        0 => 0,
        1 => 1,
        2 => rng.below(2000),
        _ => rng.below(40),
    };
    let u32ish = |rng: &mut Rng| -> u64 {
        match rng.below(10) {
            0 => u64::from(u32::MAX),
            1 => u64::from(u32::MAX) - rng.below(3),
            2 => 1 << 31,
            3 => 0,
            4 => rng.below(1 << 20),
            _ => rng.below(60),
        }
    };
    let locals = small(rng);
    let scopes = small(rng);
    let statements = small(rng);
    let calls = small(rng);
    let mut per = Vec::new();
    for _ in 0..functions {
        per.push((u32ish(rng), u32ish(rng), u32ish(rng)));
    }
    // totals: usually the true sums when they fit, sometimes arbitrary
    let sum_b: u64 = per.iter().map(|p| p.0).sum();
    let sum_o: u64 = per.iter().map(|p| p.1).sum();
    let total_blocks = if sum_b <= u64::from(u32::MAX) && rng.chance(3, 4) { sum_b } else { u32ish(rng) };
    let total_ops = if sum_o <= u64::from(u32::MAX) && rng.chance(3, 4) { sum_o } else { u32ish(rng) };
    // observed values for cap selection
    let f = u128::from(functions);
    let l = u128::from(locals);
    let max = u128::from(u64::MAX);
    let live: u128 = per
        .iter()
        .map(|p| ((2 * u128::from(p.0) + u128::from(p.1)) * u128::from(p.2)).min(max))
        .sum::<u128>()
        .min(max);
    let obs: [u128; 11] = [
        f,
        l,
        u128::from(scopes),
        u128::from(statements),
        u128::from(total_ops),
        per.iter().map(|p| u128::from(p.1)).max().unwrap_or(0),
        u128::from(total_blocks),
        per.iter().map(|p| u128::from(p.0)).max().unwrap_or(0),
        u128::from(calls),
        (f * (f + 2 * l + 2)).min(max),
        live,
    ];
    let (caps, _t) = caps_around(rng, &obs);
    let caps_s: Vec<String> = caps.iter().map(u64::to_string).collect();
    let mut s = format!(
        "lim {} {functions} {locals} {scopes} {statements} {total_ops} {total_blocks} {calls} {functions}",
        caps_s.join(" ")
    );
    for p in &per {
        let _ = write!(s, " {}:{}:{}", p.0, p.1, p.2);
    }
    s
}

// ---- random programs -----------------------------------------------------------------------------

struct Var {
    name: String,
    fn_depth: usize,
    writable: bool,
    array: bool,
}

struct FnSig {
    name: String,
    arity: usize,
    index: u64,
}

struct ProgGen {
    rng: Rng,
    out: String,
    vars: Vec<Vec<Var>>,
    fns: Vec<Vec<FnSig>>,
    next_id: u64,
    budget: i64,
    fn_depth: usize,
    /// index of the function being generated (root = u64::MAX): calls go to smaller indices only,
    /// so the call graph is acyclic and every run terminates
    cur_fn: u64,
}

impl ProgGen {
    fn new(rng: Rng) -> Self {
        ProgGen {
            rng,
            out: String::new(),
            vars: vec![Vec::new()],
            fns: vec![Vec::new()],
            next_id: 0,
            budget: 0,
            fn_depth: 0,
            cur_fn: u64::MAX,
        }
    }

    fn fresh(&mut self) -> u64 {
        self.next_id += 1;
        self.next_id
    }

    fn program(&mut self) -> String {
        self.budget = 3 + self.rng.below(40) as i64;
        let err_mode = self.rng.chance(1, 10);
        self.stmts(0, false, true);
        if err_mode {
            let bad = match self.rng.below(5) {
                0 => "comot\n".to_string(),
                1 => "return 1\n".to_string(),
                2 => "do dup() start end\ndo dup() start make q get 1 end\n".to_string(),
                3 => "nowhere get 1\n".to_string(),
                _ => "next\nshout(1)\n".to_string(),
            };
            if self.rng.chance(1, 2) {
                self.out.push_str(&bad);
            } else {
                self.out = bad + &self.out;
            }
        }
        self.out.push_str("shout(0)\n");
        std::mem::take(&mut self.out)
    }

    fn visible_nums(&self, writable_here: bool) -> Vec<String> {
        let mut v = Vec::new();
        for sc in &self.vars {
            for x in sc {
                if x.array {
                    continue;
                }
                if writable_here && !(x.writable && x.fn_depth == self.fn_depth) {
                    continue;
                }
                v.push(x.name.clone());
            }
        }
        // a later declaration of the same name shadows an earlier one: keep names whose innermost
        // declaration qualifies
        v.retain(|n| {
            let inner = self.vars.iter().rev().flat_map(|s| s.iter().rev()).find(|x| &x.name == n).unwrap();
            !inner.array && (!writable_here || (inner.writable && inner.fn_depth == self.fn_depth))
        });
        v.sort();
        v.dedup();
        v
    }

    fn atom(&mut self) -> String {
        let vs = self.visible_nums(false);
        if !vs.is_empty() && self.rng.chance(1, 2) {
            self.rng.pick(&vs).clone()
        } else {
            self.rng.below(10).to_string()
        }
    }

    fn callable(&self) -> Vec<(String, usize)> {
        let mut seen = std::collections::BTreeSet::new();
        let mut v = Vec::new();
        for sc in self.fns.iter().rev() {
            for f in sc.iter().rev() {
                if seen.insert(f.name.clone()) && f.index < self.cur_fn {
                    v.push((f.name.clone(), f.arity));
                }
            }
        }
        v
    }

    fn call(&mut self) -> Option<String> {
        let fs = self.callable();
        if fs.is_empty() {
            return None;
        }
        let (name, arity) = self.rng.pick(&fs).clone();
        let args: Vec<String> = (0..arity).map(|_| self.atom()).collect();
        Some(format!("{name}({})", args.join(", ")))
    }

    fn expr(&mut self, depth: u32) -> String {
        match self.rng.below(8) {
            0 | 1 if depth < 2 => {
                let op = *self.rng.pick(&["add", "minus", "times"]);
                let l = self.expr(depth + 1);
                let r = self.expr(depth + 1);
                format!("({l} {op} {r})")
            }
            2 => self.call().unwrap_or_else(|| self.atom()),
            _ => self.atom(),
        }
    }

    fn cond(&mut self) -> String {
        match self.rng.below(6) {
            0 => "true".to_string(),
            1 => "false".to_string(),
            _ => {
                let op = *self.rng.pick(&["pass", "small pass", "na"]);
                let l = self.atom();
                let r = self.atom();
                format!("{l} {op} {r}")
            }
        }
    }

    fn block(&mut self, depth: u32, in_loop: bool, prelude: &str) {
        self.out.push_str("start\n");
        self.out.push_str(prelude);
        self.vars.push(Vec::new());
        self.fns.push(Vec::new());
        self.stmts(depth + 1, in_loop, false);
        self.vars.pop();
        self.fns.pop();
        self.out.push_str("end\n");
    }

    fn stmts(&mut self, depth: u32, in_loop: bool, top: bool) {
        let n = if top { 2 + self.rng.below(10) } else { self.rng.below(5) };
        for _ in 0..n {
            if self.budget <= 0 {
                break;
            }
            self.budget -= 1;
            self.stmt(depth, in_loop);
        }
    }

    fn stmt(&mut self, depth: u32, in_loop: bool) {
        let k = self.rng.below(100);
        match k {
            0..=17 => {
                // declaration (names from a small pool so that shadowing and re-declaration happen)
                let name = format!("v{}", self.rng.below(6));
                let e = self.expr(0);
                let _ = writeln!(self.out, "make {name} get {e}");
                let fd = self.fn_depth;
                self.vars.last_mut().unwrap().push(Var { name, fn_depth: fd, writable: true, array: false });
            }
            18..=31 => {
                let vs = self.visible_nums(true);
                if vs.is_empty() {
                    let e = self.expr(0);
                    let _ = writeln!(self.out, "shout({e})");
                } else {
                    let x = self.rng.pick(&vs).clone();
                    let e = self.expr(0);
                    let _ = writeln!(self.out, "{x} get {e}");
                }
            }
            32..=41 => {
                let e = self.expr(0);
                let _ = writeln!(self.out, "shout({e})");
            }
            42..=53 if depth < 3 => {
                let c = self.cond();
                let _ = write!(self.out, "if to say ({c}) ");
                self.block(depth, in_loop, "");
                if self.rng.chance(1, 2) {
                    self.out.push_str("if not so ");
                    self.block(depth, in_loop, "");
                }
            }
            54..=61 if depth < 3 => {
                let id = self.fresh();
                let i = format!("i{id}");
                let bound = 1 + self.rng.below(3);
                let _ = writeln!(self.out, "make {i} get 0");
                let fd = self.fn_depth;
                self.vars.last_mut().unwrap().push(Var { name: i.clone(), fn_depth: fd, writable: false, array: false });
                let _ = write!(self.out, "jasi ({i} small pass {bound}) ");
                self.block(depth, true, &format!("{i} get {i} add 1\n"));
            }
            62..=67 if depth < 3 => {
                self.block(depth, in_loop, "");
            }
            68..=79 if depth < 3 => {
                let id = self.fresh();
                let name = format!("f{id}");
                let arity = self.rng.below(3) as usize;
                let params: Vec<String> = (0..arity).map(|j| format!("p{id}x{j}")).collect();
                let _ = write!(self.out, "do {name}({}) start\n", params.join(", "));
                // the body: own scope stack entry, parameters writable, function not yet callable
                // from itself (no recursion)
                let saved_fn = self.cur_fn;
                self.cur_fn = id;
                self.fn_depth += 1;
                let fd = self.fn_depth;
                self.vars.push(params.iter().map(|p| Var { name: p.clone(), fn_depth: fd, writable: true, array: false }).collect());
                self.fns.push(Vec::new());
                self.stmts(depth + 1, false, false);
                let e = self.expr(0);
                let _ = writeln!(self.out, "return {e}");
                if self.rng.chance(1, 4) {
                    // dead tail after the final return
                    let e = self.expr(0);
                    let _ = writeln!(self.out, "shout({e})");
                }
                self.vars.pop();
                self.fns.pop();
                self.fn_depth -= 1;
                self.cur_fn = saved_fn;
                self.out.push_str("end\n");
                self.fns.last_mut().unwrap().push(FnSig { name, arity, index: id });
            }
            80..=87 => match self.call() {
                Some(c) => {
                    let _ = writeln!(self.out, "{c}");
                }
                None => {
                    let e = self.expr(0);
                    let _ = writeln!(self.out, "shout({e})");
                }
            },
            88..=91 if self.fn_depth > 0 => {
                let e = self.expr(0);
                let _ = writeln!(self.out, "return {e}");
            }
            92..=95 if in_loop => {
                let w = if self.rng.chance(1, 2) { "comot" } else { "next" };
                let _ = writeln!(self.out, "{w}");
            }
            96..=97 => {
                let id = self.fresh();
                let a = format!("arr{id}");
                let x = self.atom();
                let y = self.atom();
                let _ = writeln!(self.out, "make {a} get [{x}, 2, 3]");
                let _ = writeln!(self.out, "{a}[0] get {y}");
                let fd = self.fn_depth;
                self.vars.last_mut().unwrap().push(Var { name: a, fn_depth: fd, writable: false, array: true });
            }
            _ => {
                let e = self.expr(0);
                let _ = writeln!(self.out, "shout({e})");
            }
        }
    }
}

// ------------------------------------------------------------------------------------------------
// gen-e2e: programs sized at / around one DEFAULT cap each

/// (source, expected output) of the boundary program `name` at `cap + delta` (see the module docs
/// of `checks/c18.py` for the shapes).  All sizes are derived from the crate's DEFAULT_CAPS.
fn e2e_source(name: &str, delta: i64) -> Option<(String, String)> {
    let c = DEFAULT_CAPS;
    let at = |cap: u64| -> u64 { (cap as i64 + delta).max(0) as u64 };
    let mut s = String::new();
    // two root locals; `canary` is never read: below the limits it earns an "Unused variable"
    // warning and its declaration is pruned, above them neither happens
    s.push_str("make x get 0\nmake canary get 7\n");
    let expected: String;
    match name {
        // functions = 1 + k
        "functions" | "summaryf" => {
            let total = if name == "functions" {
                at(u64::from(c.max_functions))
            } else {
                // largest f with f * (f + 2*2 + 2) <= max_summary_events, then + delta (delta 0 = the
                // last size below the cap, +1 = the first above)
                let cap = u128::from(c.max_summary_events);
                let mut f: u128 = 1;
                while (f + 1) * (f + 1 + 6) <= cap {
                    f += 1;
                }
                (f as i64 + delta).max(1) as u64
            };
            for i in 0..total.saturating_sub(1) {
                let _ = writeln!(s, "do f{i}() start end");
            }
            expected = "0".into();
        }
        // locals = 2 + parameters of 62 (locals) / 63 (summary) functions
        "locals" | "summary" => {
            let (nfn, total) = if name == "locals" {
                (62u64, at(u64::from(c.max_locals)))
            } else {
                // f = 64 functions: f * (f + 2l + 2) = cap  <=>  l = (cap / 64 - 66) / 2
                (63u64, at((c.max_summary_events / 64 - 66) / 2))
            };
            let q = total.saturating_sub(2);
            for i in 0..nfn {
                let n = q / nfn + u64::from(i < q % nfn);
                let _ = write!(s, "do p{i}(");
                for j in 0..n {
                    if j > 0 {
                        s.push_str(", ");
                    }
                    let _ = write!(s, "a{j}");
                }
                s.push_str(") start end\n");
            }
            expected = "0".into();
        }
        // scopes = 1 + k
        "scopes" => {
            for _ in 0..at(u64::from(c.max_scopes)).saturating_sub(1) {
                s.push_str("start end\n");
            }
            expected = "0".into();
        }
        // statements = 3 + k
        "statements" => {
            let k = at(u64::from(c.max_statements)).saturating_sub(3);
            for _ in 0..k {
                s.push_str("x get x add 1\n");
            }
            expected = k.to_string();
        }
        // blocks of one function = 2 + t.  (The *total* block cap cannot be the first stage to trip
        // at the default caps: an `if`/loop is 3 blocks for 1 scope and 1 statement, a statement after
        // `return`/`comot`/`next` 1 block for 1 statement, so blocks <= 2 + 2*scopes + statements
        // <= 524288 while the scope and statement stages pass.)
        "fnblocks" => {
            let t = at(u64::from(c.max_blocks_per_function)).saturating_sub(2);
            let (m, d) = (t / 3, t % 3);
            s.push_str("do g0() start\n");
            for _ in 0..m {
                s.push_str("if to say (true) start end\n");
            }
            s.push_str("return 1\n");
            for _ in 0..d {
                // a statement after `return` opens one more (unreachable) block
                s.push_str("shout(0)\nreturn 1\n");
            }
            s.push_str("end\nx get x add g0()\n");
            expected = "1".into();
        }
        // direct user calls = k, 16 per statement
        "calls" => {
            let k = at(u64::from(c.max_direct_user_calls));
            s.push_str("do one() start return 1 end\n");
            let mut left = k;
            while left > 0 {
                let n = left.min(16);
                s.push_str("x get x");
                for _ in 0..n {
                    s.push_str(" add one()");
                }
                s.push('\n');
                left -= n;
            }
            expected = k.to_string();
        }
        // liveness: one function (the root) with 4096 locals and (cap/4096 - 4) ops
        "liveness" => {
            let l = 4096u64;
            let ops = at(c.max_liveness_events / l - 4);
            for i in 0..l - 2 {
                let _ = writeln!(s, "make w{i} get 0");
            }
            let k = ops.saturating_sub(l + 1);
            for _ in 0..k {
                s.push_str("x get x add 1\n");
            }
            expected = k.to_string();
        }
        _ => return None,
    }
    s.push_str("shout(x)\n");
    Some((s, expected))
}

fn parse_case(s: &str) -> Option<(String, i64)> {
    let (n, d) = s.split_once(':')?;
    Some((n.to_string(), d.parse().ok()?))
}

fn gen_e2e(args: &[String]) -> i32 {
    let Some(cases) = util::opt(args, "--case") else {
        eprintln!("--case <name>:<delta>[,...]");
        return 2;
    };
    let mut out = util::Out::new();
    for case in cases.split(',') {
        let Some((name, delta)) = parse_case(case) else {
            eprintln!("bad case {case}");
            return 2;
        };
        let Some((src, expected)) = e2e_source(&name, delta) else {
            eprintln!("unknown case {name}");
            return 2;
        };
        match front(&src) {
            Err(m) => {
                eprintln!("GEN-FAIL {case} {m}");
                return 3;
            }
            Ok(f) => {
                out.line(&format!(
                    "e2e {} {} X={} {} {}",
                    f.rootspan,
                    util::hex(src.as_bytes()),
                    util::hex(expected.as_bytes()),
                    f.facts,
                    f.ast
                ));
            }
        }
    }
    0
}

/// `<caps> <hex src>` per line -> a `prog` request line (or `invalid <why>`).
fn mk() -> i32 {
    util::silence_panics();
    let mut out = util::Out::new();
    for line in util::stdin_lines() {
        let w: Vec<&str> = line.split_whitespace().collect();
        if w.len() != 12 || parse_caps(&w[..11]).is_none() {
            out.line("invalid request");
            continue;
        }
        let Some(src) = util::unhex(w[11]).and_then(|b| String::from_utf8(b).ok()) else {
            out.line("invalid hex");
            continue;
        };
        match front(&src) {
            Err(m) if m.contains("panicked") => out.line(&format!("crash {}", w[11])),
            Err(m) => out.line(&format!("invalid {m}")),
            Ok(f) => out.line(&format!("prog {} {} {} {} {}", w[..11].join(" "), f.rootspan, w[11], f.facts, f.ast)),
        }
    }
    0
}

fn print_src(args: &[String]) -> i32 {
    let Some((name, delta)) = util::opt(args, "--case").and_then(parse_case) else { return 2 };
    match e2e_source(&name, delta) {
        Some((src, _)) => {
            print!("{src}");
            0
        }
        None => 2,
    }
}
