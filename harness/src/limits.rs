//! Family `limits` (C18): the analysis preflight (`count_program`, `first_exceeded_limit`), what
//! `Resolver::emit_analysis_warnings` does with its answer, and the run afterwards.
//!
//! Protocol (one request per line, one answer per line; `<caps>` = the 11 fields of `AnalysisCaps`
//! in declaration order):
//! ```text
//! lim <caps> <functions> <locals> <scopes> <statements> <totalOps> <totalBlocks> <calls> <k> <b:o:l>*k
//!       -> limit=<none|metric:observed:limit> sum=<summary bound> live=<liveness bound>
//!          the real `first_exceeded_limit` on synthetic `ProgramFacts`/`ProgramCounts` with exactly
//!          these sizes (k = functions; b:o:l = function_blocks, function_ops, locals_len)
//! prog <caps> <rootLo>:<rootHi> <hex src> F=<facts> <annotated AST, spans erased>
//!       -> counts=<functions>,<locals>,<scopes>,<statements>,<totalOps>,<totalBlocks>,<calls>;<b:o:l,...> limit=<…>
//!          real front end on src, real `count_program`, real `first_exceeded_limit` with these caps
//! e2e <rootLo>:<rootHi> <hex src> X=<hex expected output|?> F=<facts> <annotated AST, spans erased>
//!       -> counts=… limit=<… at DEFAULT_CAPS> warn=<n>[@lo:hi:severity] other=<n|*> plan=<none|some>
//!          the real pipeline (`Resolver::resolve`, hard-wired DEFAULT_CAPS) and the run afterwards;
//!          other = warnings of the analysis passes when a limit tripped (`*` within the limits)
//! crash <hex src>   -> ok | panic     a program on which the generator saw the front end panic
//! summ <budget> <f> <l> <callees;reads;writes;stmts>*f
//!       -> <available>:<callees>:<reads>:<writes>:<class>:<body class> per function | panic
//!          the real `compute_summaries_with_max_events` on synthetic facts holding exactly these
//!          direct facts, with this event budget (see the section `summ` below)
//! F=<functions>,<locals>,<scopes>,<statements>,<calls>;<locals_len of every function>
//! ```
//! The `X=` token of an `e2e` request may carry a *twin* (the model ignores the whole token):
//! `X=<hex|?>,T=<hex twin src>,P=<payload offset>:<payload offset in the twin>:<payload length>,`
//! `O=<output lines before the payload>,A=<hex expected output before the payload>,G=<generator spec>`.
//! Both sources contain the same *payload* text; everything around it (the scalable part: a large
//! strongly connected call-graph component, independent functions, padding) differs only in size.
//! Metamorphic oracle (`gen-scc`, see `Scc`): while no configured limit is exceeded the warnings
//! inside the payload (message, label, span relative to the payload), the multiset of warnings
//! outside it, the pruned statements / function definitions inside the payload (relative spans),
//! their number outside it and the payload's output are those of the twin - the size of a
//! component must not matter below the limits; above a limit only the output is compared.
//! `run` evaluates oracles that need no model and reports `ORACLE-FAIL <line> <what>` on stderr:
//! the staged answer vs. "first metric in stage order above its cap" computed naively (u128) from
//! the real counts; `total_ops == statements`; limit tripped ⇔ plan absent ⇔ exactly one `analysis`
//! warning on the root span and no other warning of the analysis passes; output with the plan ==
//! output without it (what a tripped limit turns the run into); output == the generator's expected
//! output (`X=`).  `E2E <line> …` lines on stderr carry what the model does not predict (number of
//! pass warnings, pruned statements, output) for the check script.
//!
//! Programs `shout` to the real stdout, so `run` moves its answers to a duplicate of fd 1 and
//! points fd 1 at /dev/null.

use std::fmt::Write as _;
use std::io::Write as _;
use std::os::fd::FromRawFd;

use naijascript::analysis::cfg::{self, ProgramCounts};
use naijascript::analysis::effects::ExprClass;
use naijascript::analysis::facts::{
    FunctionInfo, LocalInfo, LocalKind, ProgramFacts, ScopeInfo, StmtEffectFacts, UserCallBinding,
};
use naijascript::analysis::ids::{FunctionId, ScopeId};
use naijascript::analysis::limits::{AnalysisCaps, AnalysisLimit, DEFAULT_CAPS, first_exceeded_limit};
use naijascript::analysis::opt::OptimizationPlan;
use naijascript::analysis::summary;
use naijascript::arena::Arena;
use naijascript::diagnostics::{Diagnostics, Severity, Span};
use naijascript::resolver::Resolver;
use naijascript::runtime::Runtime;
use naijascript::syntax::parser::{BlockRef, Parser, Stmt};
use naijascript::syntax::scanner::Lexer;

use crate::astio::{self, Opts};
use crate::pipeline;
use crate::util::{self, Rng};

pub fn main(args: &[String]) -> i32 {
    match args.first().map(String::as_str) {
        Some("gen") => generate(&args[1..]),
        Some("gen-e2e") => gen_e2e(&args[1..]),
        Some("gen-scc") => gen_scc(&args[1..]),
        Some("gen-summ") => gen_summ(&args[1..]),
        Some("src") => print_src(&args[1..]),
        Some("mk") => mk(),
        Some("run") => run(),
        _ => {
            eprintln!(
                "usage: nvh limits gen --seed S --n N [--lim M] | gen-e2e --case <name>:<delta>[,…] | \
                 gen-scc [--case <scc/k=..>[,…]] [--seed S --n N [--big]] | gen-summ --seed S --n N [--fmax F] | \
                 src --case <name>:<delta> | src --case <scc/k=..> [--twin] | mk < '<caps> <hex src>' lines | run < requests"
            );
            2
        }
    }
}

/// `DEFAULT_CAPS` for `Gen/Caps.lean`.
pub fn dump_tables(out: &mut Vec<(String, String)>) {
    let c = DEFAULT_CAPS;
    let caps: Vec<String> = caps_vec(&c).iter().map(u64::to_string).collect();
    out.push(("limits_default_caps".into(), format!("[{}]", caps.join(","))));
    let names: Vec<String> = CAP_FIELDS.iter().map(|s| util::jstr(s)).collect();
    out.push(("limits_cap_fields".into(), format!("[{}]", names.join(","))));
    let metrics: Vec<String> = METRICS.iter().map(|s| util::jstr(s)).collect();
    out.push(("limits_metric_names".into(), format!("[{}]", metrics.join(","))));
}

const CAP_FIELDS: [&str; 11] = [
    "max_functions",
    "max_locals",
    "max_scopes",
    "max_statements",
    "max_total_ops",
    "max_ops_per_function",
    "max_total_blocks",
    "max_blocks_per_function",
    "max_direct_user_calls",
    "max_summary_events",
    "max_liveness_events",
];

/// The metric strings of `first_exceeded_limit`, in stage order (as the documentation of the
/// property lists them; the real answer is compared against this order by the naive oracle).
const METRICS: [&str; 11] = [
    "functions",
    "locals",
    "scopes",
    "statements",
    "cfg ops",
    "ops in one function",
    "cfg blocks",
    "blocks in one function",
    "direct user calls",
    "summary events",
    "liveness events",
];

fn caps_vec(c: &AnalysisCaps) -> [u64; 11] {
    [
        u64::from(c.max_functions),
        u64::from(c.max_locals),
        u64::from(c.max_scopes),
        u64::from(c.max_statements),
        u64::from(c.max_total_ops),
        u64::from(c.max_ops_per_function),
        u64::from(c.max_total_blocks),
        u64::from(c.max_blocks_per_function),
        u64::from(c.max_direct_user_calls),
        c.max_summary_events,
        c.max_liveness_events,
    ]
}

fn caps_from(v: &[u64; 11]) -> Option<AnalysisCaps> {
    let u = |x: u64| u32::try_from(x).ok();
    Some(AnalysisCaps {
        max_functions: u(v[0])?,
        max_locals: u(v[1])?,
        max_scopes: u(v[2])?,
        max_statements: u(v[3])?,
        max_total_ops: u(v[4])?,
        max_ops_per_function: u(v[5])?,
        max_total_blocks: u(v[6])?,
        max_blocks_per_function: u(v[7])?,
        max_direct_user_calls: u(v[8])?,
        max_summary_events: v[9],
        max_liveness_events: v[10],
    })
}

fn parse_caps(w: &[&str]) -> Option<AnalysisCaps> {
    if w.len() != 11 {
        return None;
    }
    let mut v = [0u64; 11];
    for (i, s) in w.iter().enumerate() {
        v[i] = s.parse().ok()?;
    }
    caps_from(&v)
}

fn limit_str(l: Option<AnalysisLimit>) -> String {
    match l {
        None => "none".to_string(),
        Some(l) => format!("{}:{}:{}", l.metric.replace(' ', "_"), l.observed, l.limit),
    }
}

// ------------------------------------------------------------------------------------------------
// Naive reference (no staging, exact arithmetic): observed value of every metric.

fn observed_naive(facts: &ProgramFacts<'_, '_>, counts: &ProgramCounts<'_>) -> [u128; 11] {
    let f = facts.functions.len() as u128;
    let l = facts.locals.len() as u128;
    let max = u128::from(u64::MAX);
    let summary = (f * (f + 2 * l + 2)).min(max);
    let mut live: u128 = 0;
    for (i, (b, o)) in counts.function_blocks.iter().zip(counts.function_ops.iter()).enumerate() {
        let info = &facts.functions[i];
        let n = u128::from(info.locals_len);
        live += ((2 * u128::from(*b) + u128::from(*o)) * n).min(max);
    }
    let live = live.min(max);
    [
        f,
        l,
        facts.scopes.len() as u128,
        facts.stmt_effects.len() as u128,
        u128::from(counts.total_ops),
        counts.function_ops.iter().copied().max().map_or(0, u128::from),
        u128::from(counts.total_blocks),
        counts.function_blocks.iter().copied().max().map_or(0, u128::from),
        facts.user_calls.len() as u128,
        summary,
        live,
    ]
}

fn naive_first(obs: &[u128; 11], caps: &AnalysisCaps) -> String {
    let c = caps_vec(caps);
    for i in 0..11 {
        if obs[i] > u128::from(c[i]) {
            return format!("{}:{}:{}", METRICS[i].replace(' ', "_"), obs[i], c[i]);
        }
    }
    "none".to_string()
}

fn counts_str(facts: &ProgramFacts<'_, '_>, counts: &ProgramCounts<'_>) -> String {
    let mut s = format!(
        "{},{},{},{},{},{},{};",
        facts.functions.len(),
        facts.locals.len(),
        facts.scopes.len(),
        facts.stmt_effects.len(),
        counts.total_ops,
        counts.total_blocks,
        facts.user_calls.len()
    );
    let n = counts.function_blocks.len().min(counts.function_ops.len());
    for i in 0..n {
        if i > 0 {
            s.push(',');
        }
        let l = facts.functions.get(i).map_or(0, |f| f.locals_len);
        let _ = write!(s, "{}:{}:{}", counts.function_blocks[i], counts.function_ops[i], l);
    }
    if n == 0 {
        s.push('-');
    }
    s
}

/// The part of the facts the preflight reads, as text.
fn facts_min_str(facts: &ProgramFacts<'_, '_>) -> String {
    let mut s = format!(
        "F={},{},{},{},{};",
        facts.functions.len(),
        facts.locals.len(),
        facts.scopes.len(),
        facts.stmt_effects.len(),
        facts.user_calls.len()
    );
    for (i, f) in facts.functions.iter().enumerate() {
        if i > 0 {
            s.push(',');
        }
        let _ = write!(s, "{}", f.locals_len);
    }
    s
}

// ------------------------------------------------------------------------------------------------
// run

struct Answers {
    w: std::io::BufWriter<std::fs::File>,
}

impl Answers {
    /// Move the answer stream to a duplicate of fd 1 and silence fd 1 (programs print there).
    fn take_stdout() -> Self {
        let _ = std::io::stdout().flush();
        let saved = unsafe { libc::dup(1) };
        assert!(saved >= 0, "dup(1) failed");
        let devnull = unsafe { libc::open(c"/dev/null".as_ptr(), libc::O_WRONLY) };
        assert!(devnull >= 0, "open(/dev/null) failed");
        unsafe {
            libc::dup2(devnull, 1);
            libc::close(devnull);
        }
        let f = unsafe { std::fs::File::from_raw_fd(saved) };
        Answers { w: std::io::BufWriter::new(f) }
    }
    fn line(&mut self, s: &str) {
        self.w.write_all(s.as_bytes()).unwrap();
        self.w.write_all(b"\n").unwrap();
    }
}

fn run() -> i32 {
    util::silence_panics();
    let mut out = Answers::take_stdout();
    let stdin = std::io::stdin();
    let mut fails = 0u64;
    let mut lineno = 0usize;
    let mut line = String::new();
    loop {
        line.clear();
        let n = std::io::BufRead::read_line(&mut stdin.lock(), &mut line).unwrap();
        if n == 0 {
            break;
        }
        lineno += 1;
        let text = line.trim_end_matches(['\n', '\r']);
        let r = util::catch(|| answer(text, lineno));
        match r {
            Ok((ans, oracle, side)) => {
                out.line(&ans);
                for s in side {
                    eprintln!("{s}");
                }
                for msg in oracle {
                    fails += 1;
                    eprintln!("ORACLE-FAIL {lineno} {msg}");
                }
            }
            Err(msg) => {
                out.line("panic");
                eprintln!("PANIC {lineno} {}", msg.replace('\n', " "));
            }
        }
    }
    out.w.flush().unwrap();
    eprintln!("ORACLE-SUMMARY fails={fails} lines={lineno}");
    0
}

type Answer = (String, Vec<String>, Vec<String>);

fn bad() -> Answer {
    ("bad-op".to_string(), Vec::new(), Vec::new())
}

fn answer(line: &str, lineno: usize) -> Answer {
    let mut it = line.split(' ').filter(|s| !s.is_empty());
    match it.next() {
        Some("lim") => {
            let w: Vec<&str> = it.collect();
            answer_lim(&w)
        }
        Some("prog") => {
            let head: Vec<&str> = it.by_ref().take(13).collect();
            if head.len() != 13 {
                return bad();
            }
            let Some(caps) = parse_caps(&head[..11]) else { return bad() };
            answer_prog(Some(caps), head[11], head[12], None, lineno)
        }
        Some("summ") => {
            let w: Vec<&str> = it.collect();
            answer_summ(&w, lineno)
        }
        Some("crash") => {
            // a program the generator saw the front end panic on: re-run the library pipeline
            let Some(src) = it.next().and_then(util::unhex).and_then(|b| String::from_utf8(b).ok()) else {
                return bad();
            };
            match front(&src) {
                Ok(_) => ("ok".to_string(), Vec::new(), Vec::new()),
                Err(m) => ("panic".to_string(), vec![format!("the pipeline does not accept a valid program: {m}")], Vec::new()),
            }
        }
        Some("e2e") => {
            let head: Vec<&str> = it.by_ref().take(3).collect();
            if head.len() != 3 {
                return bad();
            }
            answer_prog(None, head[0], head[1], head[2].strip_prefix("X="), lineno)
        }
        _ => bad(),
    }
}

// ---- lim: synthetic facts and counts ---------------------------------------------------------

fn answer_lim(w: &[&str]) -> Answer {
    if w.len() < 19 {
        return bad();
    }
    let Some(caps) = parse_caps(&w[..11]) else { return bad() };
    let nums: Option<Vec<u64>> = w[11..19].iter().map(|s| s.parse().ok()).collect();
    let Some(nums) = nums else { return bad() };
    let (functions, locals, scopes, statements, total_ops, total_blocks, calls, k) =
        (nums[0], nums[1], nums[2], nums[3], nums[4], nums[5], nums[6], nums[7]);
    if k != functions || w.len() as u64 != 19 + k {
        return bad();
    }
    if functions > 100_000 || locals > 1_000_000 || scopes > 1_000_000 || statements > 1_000_000 || calls > 1_000_000 {
        return bad();
    }
    let mut per: Vec<(u32, u32, u32)> = Vec::new();
    for s in &w[19..] {
        let p: Vec<&str> = s.split(':').collect();
        if p.len() != 3 {
            return bad();
        }
        let (Ok(b), Ok(o), Ok(l)) = (p[0].parse::<u32>(), p[1].parse::<u32>(), p[2].parse::<u32>()) else {
            return bad();
        };
        per.push((b, o, l));
    }
    let (Ok(total_ops), Ok(total_blocks)) = (u32::try_from(total_ops), u32::try_from(total_blocks)) else {
        return bad();
    };
    let arena = Arena::new(512 << 20).unwrap();
    // One tiny real program supplies the node references the fact records must point at.
    let lexer = Lexer::new("make x get f()", &arena);
    let mut parser = Parser::new(lexer, &arena);
    let (root, _errs) = parser.parse_program();
    let stmt = root.stmts[0];
    let Stmt::Assign { expr, .. } = stmt else { panic!("seed program shape") };
    let mut facts: ProgramFacts<'_, '_> = ProgramFacts::new(&arena);
    for (i, p) in per.iter().enumerate() {
        facts.functions.push(FunctionInfo {
            name: "f",
            params: None,
            parent: if i == 0 { None } else { Some(FunctionId(0)) },
            defining_scope: ScopeId(0),
            def_span: root.span.clone(),
            body_span: root.span.clone(),
            body: root,
            def_stmt: None,
            locals_start: 0,
            locals_len: p.2,
        });
    }
    for _ in 0..locals {
        facts.locals.push(LocalInfo {
            name: "x",
            owner: FunctionId(0),
            declaring_scope: ScopeId(0),
            decl_span: root.span.clone(),
            decl_stmt: None,
            kind: LocalKind::Variable,
        });
    }
    for _ in 0..scopes {
        facts.scopes.push(ScopeInfo { parent: None, owner: FunctionId(0), span: root.span.clone() });
    }
    for _ in 0..statements {
        facts.stmt_effects.push(StmtEffectFacts {
            stmt,
            function: FunctionId(0),
            scope: ScopeId(0),
            reads: Vec::new_in(&arena),
            writes: Vec::new_in(&arena),
            direct_callees: Vec::new_in(&arena),
            expr_class: ExprClass::PureNoTrap,
        });
    }
    for _ in 0..calls {
        facts.user_calls.push(UserCallBinding { call: expr, caller: FunctionId(0), callee: FunctionId(0) });
    }
    let mut function_blocks = Vec::new_in(&arena);
    let mut function_ops = Vec::new_in(&arena);
    for p in &per {
        function_blocks.push(p.0);
        function_ops.push(p.1);
    }
    let counts = ProgramCounts {
        function_blocks,
        function_ops,
        total_blocks,
        total_ops,
        total_statements: statements as u32,
    };
    let real = first_exceeded_limit(&facts, &counts, caps);
    // The two private bounds, read back through the public function: everything else unlimited.
    let wide = AnalysisCaps {
        max_functions: u32::MAX,
        max_locals: u32::MAX,
        max_scopes: u32::MAX,
        max_statements: u32::MAX,
        max_total_ops: u32::MAX,
        max_ops_per_function: u32::MAX,
        max_total_blocks: u32::MAX,
        max_blocks_per_function: u32::MAX,
        max_direct_user_calls: u32::MAX,
        max_summary_events: u64::MAX,
        max_liveness_events: u64::MAX,
    };
    let sum = first_exceeded_limit(&facts, &counts, AnalysisCaps { max_summary_events: 0, ..wide })
        .map_or(0, |l| l.observed);
    let live = first_exceeded_limit(&facts, &counts, AnalysisCaps { max_liveness_events: 0, ..wide })
        .map_or(0, |l| l.observed);
    let obs = observed_naive(&facts, &counts);
    let mut oracle = Vec::new();
    let naive = naive_first(&obs, &caps);
    let real_s = limit_str(real);
    if naive != real_s {
        oracle.push(format!("staged answer {real_s} differs from the first metric above its cap {naive}"));
    }
    if u128::from(sum) != obs[9] || u128::from(live) != obs[10] {
        oracle.push(format!("event bounds {sum}/{live} differ from exact arithmetic {}/{}", obs[9], obs[10]));
    }
    (format!("limit={real_s} sum={sum} live={live}"), oracle, Vec::new())
}

// ---- prog / e2e: real front end ----------------------------------------------------------------

fn arena_for(src_len: usize) -> Arena {
    // 64 MiB is plenty for the random programs; the default-cap programs need a few GiB of
    // address space (lazily committed).
    let cap = if src_len < (256 << 10) { pipeline::ARENA_CAP } else { 12usize << 30 };
    Arena::new(cap).unwrap()
}

fn outcome(rt: &Runtime<'_>, errs: &Diagnostics<'_>) -> (String, String) {
    let mut out = String::new();
    for (i, v) in rt.output.iter().enumerate() {
        if i > 0 {
            out.push('\n');
        }
        let _ = write!(out, "{v}");
    }
    (out, pipeline::diags_str(errs))
}

fn run_once<'a>(
    root: BlockRef<'a>,
    facts: &ProgramFacts<'a, 'a>,
    plan: Option<&OptimizationPlan<'a>>,
    arena: &'a Arena,
    frame: &'a Arena,
) -> (String, String) {
    let mut rt = Runtime::new(arena, Some(frame));
    let _ = rt.run_with_analysis(root, facts, plan);
    let errs = std::mem::replace(&mut rt.errors, Diagnostics::new(arena));
    outcome(&rt, &errs)
}

/// Own locals of every function are exactly its `local_range` (the analyses index bit sets by it;
/// programs where this fails are finding D-18 and are kept out of the run oracle).
fn ranges_contiguous(facts: &ProgramFacts<'_, '_>) -> bool {
    facts.locals.iter().enumerate().all(|(i, l)| {
        let r = facts.local_range(l.owner);
        r.contains(&(i as u32))
    })
}

const PASS_WARNINGS: [&str; 4] = ["Unreachable code", "Unused assignment", "Unused variable", "Unused function"];

/// The optional parts of an `e2e` request's `X=` token (see the module docs).
#[derive(Default)]
struct Extras {
    expect: Option<String>,
    twin: Option<String>,
    off: usize,
    twin_off: usize,
    pay_len: usize,
    pre_lines: usize,
    pre_expect: Option<String>,
    spec: String,
}

fn parse_extras(x: Option<&str>) -> Option<Extras> {
    let mut e = Extras::default();
    let Some(x) = x else { return Some(e) };
    let text = |h: &str| util::unhex(h).and_then(|b| String::from_utf8(b).ok());
    for (i, part) in x.split(',').enumerate() {
        if i == 0 {
            if part != "?" {
                e.expect = Some(text(part)?);
            }
        } else if let Some(h) = part.strip_prefix("T=") {
            e.twin = Some(text(h)?);
        } else if let Some(p) = part.strip_prefix("P=") {
            let v: Vec<usize> = p.split(':').map(|n| n.parse().ok()).collect::<Option<_>>()?;
            if v.len() != 3 {
                return None;
            }
            (e.off, e.twin_off, e.pay_len) = (v[0], v[1], v[2]);
        } else if let Some(n) = part.strip_prefix("O=") {
            e.pre_lines = n.parse().ok()?;
        } else if let Some(h) = part.strip_prefix("A=") {
            e.pre_expect = Some(text(h)?);
        } else if let Some(g) = part.strip_prefix("G=") {
            e.spec = g.to_string();
        } else {
            return None;
        }
    }
    Some(e)
}

fn stmt_span(s: &Stmt<'_>) -> Span {
    match s {
        Stmt::FunctionDef { span, .. }
        | Stmt::Assign { span, .. }
        | Stmt::AssignExisting { span, .. }
        | Stmt::AssignIndex { span, .. }
        | Stmt::If { span, .. }
        | Stmt::Loop { span, .. }
        | Stmt::Block { span, .. }
        | Stmt::Return { span, .. }
        | Stmt::Break { span }
        | Stmt::Continue { span }
        | Stmt::Expression { span, .. } => span.clone(),
    }
}

/// What the metamorphic oracle compares between a program and its twin: everything the analysis
/// stage produced, with positions relative to the shared payload text.
#[derive(Default)]
struct Digest {
    limit: String,
    /// warnings whose span starts inside the payload: `message|label|lo:hi` (relative), sorted
    pay_warn: Vec<String>,
    /// messages of the warnings outside the payload, sorted (a multiset)
    out_warn: Vec<String>,
    /// pruned statements / function definitions inside the payload: `stmt lo:hi` / `fn lo:hi`
    pay_plan: Vec<String>,
    out_plan: usize,
    /// output lines after the first `pre_lines`, and the runtime diagnostics
    pay_out: Vec<String>,
    pre_out: Vec<String>,
    rt: String,
    /// the two components `c0..c<k-1>` and `p0..p<kp-1>` (defined outside the payload, called only from
    /// it and from each other): number of definitions, how many of them carry a warning, how many are
    /// pruned. When the payload never calls a component it is unused as a whole - `k` warnings here, 3 in
    /// the twin.
    comp_total: [usize; 2],
    comp_warn: [usize; 2],
    comp_plan: [usize; 2],
}

fn digest_of(
    resolver: &Resolver<'_, '_>,
    src: &str,
    off: usize,
    pay_len: usize,
    pre_lines: usize,
    limit: String,
    ran: &(String, String),
) -> Digest {
    let inside = |start: usize| start >= off && start < off + pay_len;
    // relative span and, for the reader, the first line of the text it covers
    let rel = |r: &Span| {
        let text = src.get(r.start..r.end.min(src.len())).and_then(|t| t.lines().next()).unwrap_or("");
        format!("{}:{} `{}`", r.start - off, r.end.saturating_sub(off), text)
    };
    let mut d = Digest { limit, rt: ran.1.clone(), ..Digest::default() };
    // does the line containing byte `at` define a function of the side-effect-free component?
    let comp_line = |l: &str| {
        ["do c", "do p"].iter().position(|pre| l.strip_prefix(pre).is_some_and(|r| r.starts_with(|c: char| c.is_ascii_digit())))
    };
    let comp_def = |at: usize| {
        let at = at.min(src.len());
        let lo = src[..at].rfind('\n').map_or(0, |i| i + 1);
        comp_line(&src[lo..])
    };
    for l in src.lines() {
        if let Some(i) = comp_line(l) {
            d.comp_total[i] += 1;
        }
    }
    for w in resolver.errors.diagnostics.iter().filter(|w| w.code != "analysis") {
        if let (false, Some(i)) = (inside(w.span.start), comp_def(w.span.start)) {
            d.comp_warn[i] += 1;
        } else if inside(w.span.start) {
            let label = w.labels.first().map_or(String::new(), |l| l.message.as_ref().to_string());
            d.pay_warn.push(format!("{}|{}|{}", w.message, label, rel(&w.span)));
        } else {
            d.out_warn.push(w.message.to_string());
        }
    }
    if let Some(plan) = resolver.optimization_plan.as_ref() {
        for &id in &plan.removable_stmts {
            let sp = stmt_span(resolver.facts.stmt_effect(id).stmt);
            if inside(sp.start) {
                d.pay_plan.push(format!("stmt {}", rel(&sp)));
            } else if let Some(i) = comp_def(sp.start) {
                d.comp_plan[i] += 1;
            } else {
                d.out_plan += 1;
            }
        }
        for &f in &plan.removable_function_defs {
            let sp = resolver.facts.function(f).def_span.clone();
            if inside(sp.start) {
                d.pay_plan.push(format!("fn {}", rel(&sp)));
            } else if let Some(i) = comp_def(sp.start) {
                d.comp_plan[i] += 1;
            } else {
                d.out_plan += 1;
            }
        }
    }
    d.pay_warn.sort();
    d.out_warn.sort();
    d.pay_plan.sort();
    let lines: Vec<String> = if ran.0.is_empty() { Vec::new() } else { ran.0.split('\n').map(str::to_string).collect() };
    let cut = pre_lines.min(lines.len());
    d.pre_out = lines[..cut].to_vec();
    d.pay_out = lines[cut..].to_vec();
    d
}

/// The twin through the same pipeline (own arenas): resolve, preflight, run with the plan.
fn twin_digest(src: &str, off: usize, pay_len: usize, pre_lines: usize) -> Result<Digest, String> {
    util::catch(|| {
        let arena = arena_for(src.len());
        let frame = Arena::new(pipeline::ARENA_CAP).unwrap();
        let lexer = Lexer::new(src, &arena);
        let mut parser = Parser::new(lexer, &arena);
        let (root, perrs) = parser.parse_program();
        if !perrs.diagnostics.is_empty() {
            return Err(format!("the twin does not parse: {}", pipeline::diags_str(perrs)));
        }
        let mut resolver = Resolver::new(&arena);
        resolver.resolve(root);
        if resolver.errors.has_errors() {
            return Err(format!("the twin is rejected: {}", pipeline::diags_str(&resolver.errors)));
        }
        let counts = cfg::count_program(&resolver.facts, &arena);
        let limit = limit_str(first_exceeded_limit(&resolver.facts, &counts, DEFAULT_CAPS));
        let ran = run_once(root, &resolver.facts, resolver.optimization_plan.as_ref(), &arena, &frame);
        Ok(digest_of(&resolver, src, off, pay_len, pre_lines, limit, &ran))
    })
    .unwrap_or_else(|m| Err(format!("the twin makes the pipeline panic: {}", m.replace('\n', " "))))
}

/// Multiset difference of two sorted lists: (only in `a`, only in `b`).
fn diff_sorted(a: &[String], b: &[String]) -> (Vec<String>, Vec<String>) {
    let (mut i, mut j) = (0, 0);
    let (mut only_a, mut only_b) = (Vec::new(), Vec::new());
    while i < a.len() || j < b.len() {
        if j >= b.len() || (i < a.len() && a[i] < b[j]) {
            only_a.push(a[i].clone());
            i += 1;
        } else if i >= a.len() || b[j] < a[i] {
            only_b.push(b[j].clone());
            j += 1;
        } else {
            i += 1;
            j += 1;
        }
    }
    (only_a, only_b)
}

fn show_list(v: &[String]) -> String {
    let mut s = v.iter().take(6).map(|x| format!("{x:?}")).collect::<Vec<_>>().join(", ");
    if v.len() > 6 {
        let _ = write!(s, ", … {} more", v.len() - 6);
    }
    format!("[{s}]")
}

/// The metamorphic comparison; `tripped` = a configured limit is exceeded for the big program.
fn twin_oracle(big: &Digest, twin: &Digest, tripped: bool, oracle: &mut Vec<String>) {
    if twin.limit != "none" {
        oracle.push(format!("twin generator: the small twin itself exceeds a limit ({})", twin.limit));
        return;
    }
    if big.pay_out != twin.pay_out || big.rt != twin.rt {
        oracle.push(format!(
            "twin payload output differs from the small-component twin: {:?} ({}) vs {:?} ({})",
            clip(&big.pay_out.join("\n")),
            big.rt,
            clip(&twin.pay_out.join("\n")),
            twin.rt
        ));
    }
    if tripped {
        return;
    }
    let (twin_only, big_only) = diff_sorted(&twin.pay_warn, &big.pay_warn);
    if !twin_only.is_empty() || !big_only.is_empty() {
        oracle.push(format!(
            "twin payload warnings differ from the small-component twin although no limit is exceeded and no \
             resource-limit warning was emitted: missing {} extra {}",
            show_list(&twin_only),
            show_list(&big_only)
        ));
    }
    let (twin_only, big_only) = diff_sorted(&twin.pay_plan, &big.pay_plan);
    if !twin_only.is_empty() || !big_only.is_empty() {
        oracle.push(format!(
            "twin payload plan differs from the small-component twin although no limit is exceeded: not pruned {} \
             pruned only here {}",
            show_list(&twin_only),
            show_list(&big_only)
        ));
    }
    let (twin_only, big_only) = diff_sorted(&twin.out_warn, &big.out_warn);
    if !twin_only.is_empty() || !big_only.is_empty() || twin.out_plan != big.out_plan {
        oracle.push(format!(
            "twin surroundings differ from the small-component twin (warnings outside the payload: missing {} extra {}; \
             pruned outside the payload {} vs {})",
            show_list(&twin_only),
            show_list(&big_only),
            big.out_plan,
            twin.out_plan
        ));
    }
    // the side-effect-free component is used or unused as a whole, and alike in both programs
    let whole = |total: usize, n: usize| if n == 0 { Some(false) } else if n == total { Some(true) } else { None };
    for i in 0..2 {
        let b = (whole(big.comp_total[i], big.comp_warn[i]), whole(big.comp_total[i], big.comp_plan[i]));
        let t = (whole(twin.comp_total[i], twin.comp_warn[i]), whole(twin.comp_total[i], twin.comp_plan[i]));
        if b.0.is_none() || b.1.is_none() || b != t {
            oracle.push(format!(
                "twin surroundings differ from the small-component twin (definitions of component `{}` warned about / pruned: \
                 {}/{} of {} here, {}/{} of {} in the twin)",
                ["c", "p"][i], big.comp_warn[i], big.comp_plan[i], big.comp_total[i], twin.comp_warn[i], twin.comp_plan[i], twin.comp_total[i]
            ));
        }
    }
}

fn answer_prog(caps: Option<AnalysisCaps>, rootspan: &str, hexsrc: &str, extras: Option<&str>, lineno: usize) -> Answer {
    let Some(bytes) = util::unhex(hexsrc) else { return bad() };
    let Ok(src) = String::from_utf8(bytes) else { return bad() };
    let Some(extras) = parse_extras(extras) else { return bad() };
    let expect = extras.expect.as_deref();
    let arena = arena_for(src.len());
    let frame = Arena::new(pipeline::ARENA_CAP).unwrap();
    let lexer = Lexer::new(&src, &arena);
    let mut parser = Parser::new(lexer, &arena);
    let (root, perrs) = parser.parse_program();
    if !perrs.diagnostics.is_empty() {
        return ("parse-error".to_string(), Vec::new(), Vec::new());
    }
    let mut oracle = Vec::new();
    let mut side = Vec::new();
    if format!("{}:{}", root.span.start, root.span.end) != rootspan {
        oracle.push(format!("request says root span {rootspan}, parser says {}:{}", root.span.start, root.span.end));
    }
    let mut resolver = Resolver::new(&arena);
    resolver.resolve(root);
    let facts = &resolver.facts;
    let counts = cfg::count_program(facts, &arena);
    let e2e = caps.is_none();
    let caps = caps.unwrap_or(DEFAULT_CAPS);
    let real = first_exceeded_limit(facts, &counts, caps);
    let real_s = limit_str(real);
    let obs = observed_naive(facts, &counts);
    let naive = naive_first(&obs, &caps);
    if naive != real_s {
        oracle.push(format!("staged answer {real_s} differs from the first metric above its cap {naive}"));
    }
    if u64::from(counts.total_ops) != facts.stmt_effects.len() as u64 {
        oracle.push(format!("total_ops {} != statements {}", counts.total_ops, facts.stmt_effects.len()));
    }
    if counts.total_ops != counts.function_ops.iter().sum::<u32>()
        || counts.total_blocks != counts.function_blocks.iter().sum::<u32>()
    {
        oracle.push("totals are not the sums of the per-function counters".to_string());
    }
    // The preflight bound is what justifies the fixpoint's event budget: with a budget of exactly
    // f·(f + 2l + 2) events (never more than the configured cap once the preflight passed) the
    // interprocedural summaries must all come out available - however the call graph is shaped.
    if !resolver.errors.has_errors() && (first_exceeded_limit(facts, &counts, DEFAULT_CAPS).is_none() || facts.functions.len() <= 300) {
        let budget = u64::try_from(obs[9]).unwrap_or(u64::MAX);
        let summaries = summary::compute_summaries_with_max_events(facts, budget, &arena);
        let lost = summaries.iter().filter(|s| !s.available).count();
        if lost != 0 {
            oracle.push(format!(
                "summary budget: {lost} of {} function summaries are unavailable although the event budget equals the preflight bound {budget}",
                summaries.len()
            ));
        }
    }
    // What the budget theorem assumes of the direct facts (`Summary.DirectsOK`): one entry per
    // function, no duplicates, ids in range.
    if !resolver.errors.has_errors() {
        let (nl, dfs) = directs_of_facts(facts);
        if dfs.len() != facts.functions.len() || !directs_wellformed(nl, &dfs) {
            oracle.push(
                "summary facts: function_directs is not one duplicate-free list of in-range ids per function (the hypotheses of the event-budget theorem)"
                    .to_string(),
            );
        }
    }
    let mut ans = format!("counts={} limit={real_s}", counts_str(facts, &counts));

    // What the pipeline (hard-wired DEFAULT_CAPS) did.
    let default_limit = first_exceeded_limit(facts, &counts, DEFAULT_CAPS);
    let analysis: Vec<_> = resolver.errors.diagnostics.iter().filter(|d| d.code == "analysis").collect();
    let others = resolver
        .errors
        .diagnostics
        .iter()
        .filter(|d| d.severity == Severity::Warning && d.code == "semantic" && PASS_WARNINGS.contains(&d.message))
        .count();
    let plan = resolver.optimization_plan.as_ref();
    if default_limit.is_some() {
        if plan.is_some() {
            oracle.push("limit tripped but an optimisation plan was kept".to_string());
        }
        if analysis.len() != 1 {
            oracle.push(format!("limit tripped but {} analysis warnings", analysis.len()));
        }
        if others != 0 {
            oracle.push(format!("limit tripped but {others} warnings of the analysis passes were emitted"));
        }
        for d in &analysis {
            if d.span != root.span || d.severity != Severity::Warning || d.labels.len() != 1 || d.labels[0].span != root.span {
                oracle.push("limit warning is not a single-label warning on the root body span".to_string());
            } else if let Some(l) = default_limit {
                // the label names the metric that tripped with its observed value and cap
                let want = format!("{} for {} (observed {}, limit {})", d.message, l.metric, l.observed, l.limit);
                if d.labels[0].message.as_ref() != want {
                    oracle.push(format!("limit warning label {:?} does not name the tripped metric ({want:?})", clip(d.labels[0].message.as_ref())));
                }
            }
        }
    } else {
        if plan.is_none() {
            oracle.push("no limit tripped but there is no optimisation plan".to_string());
        }
        if !analysis.is_empty() {
            oracle.push("no limit tripped but an analysis warning was emitted".to_string());
        }
    }
    if e2e {
        let w = match analysis.first() {
            Some(d) => format!("{}@{}:{}:{}", analysis.len(), d.span.start, d.span.end, pipeline::sev_name(d.severity)),
            None => "0".to_string(),
        };
        // above a limit the model says: no warning of the passes; within, they are abstract (`*`)
        let o = if default_limit.is_some() { others.to_string() } else { "*".to_string() };
        let _ = write!(ans, " warn={w} other={o} plan={}", if plan.is_some() { "some" } else { "none" });
    }

    // The run: with what the pipeline would use under *these* caps vs. with the default plan.
    let runnable = !resolver.errors.has_errors() && ranges_contiguous(facts);
    let mut run_info = String::from("run=skipped");
    if runnable {
        let with_plan = run_once(root, facts, plan, &arena, &frame);
        let tripped_here = real.is_some();
        let without = if plan.is_some() { run_once(root, facts, None, &arena, &frame) } else { with_plan.clone() };
        if with_plan != without {
            oracle.push(format!(
                "output differs between the run with the plan and the run a tripped limit gives (no plan){}: {:?} vs {:?}",
                if tripped_here { " [these caps trip]" } else { "" },
                clip(&with_plan.0),
                clip(&without.0)
            ));
        }
        if let Some(want) = expect
            && (want != with_plan.0 || with_plan.1 != "-")
        {
            oracle.push(format!("output {:?} ({}) differs from the expected {:?}", clip(&with_plan.0), with_plan.1, clip(want)));
        }
        run_info = format!("out={} rt={}", util::hex(clip(&with_plan.0).as_bytes()), with_plan.1);
        if let Some(twin_src) = extras.twin.as_deref() {
            let tripped = default_limit.is_some();
            let big = digest_of(&resolver, &src, extras.off, extras.pay_len, extras.pre_lines, limit_str(default_limit), &with_plan);
            if let Some(want) = extras.pre_expect.as_deref()
                && big.pre_out.join("\n") != want
            {
                oracle.push(format!(
                    "output before the payload {:?} differs from the expected {:?}",
                    clip(&big.pre_out.join("\n")),
                    clip(want)
                ));
            }
            let n0 = oracle.len();
            match twin_digest(twin_src, extras.twin_off, extras.pay_len, extras.pre_lines) {
                Ok(twin) => {
                    twin_oracle(&big, &twin, tripped, &mut oracle);
                    side.push(format!(
                        "SCC {lineno} spec={} obs={} limit={} paywarn={} payplan={} twinwarn={} twinplan={} same={}",
                        if extras.spec.is_empty() { "-" } else { &extras.spec },
                        obs.iter().map(u128::to_string).collect::<Vec<_>>().join(","),
                        big.limit,
                        big.pay_warn.len(),
                        big.pay_plan.len(),
                        twin.pay_warn.len(),
                        twin.pay_plan.len(),
                        u8::from(oracle.len() == n0)
                    ));
                }
                Err(m) => oracle.push(format!("twin generator: {m}")),
            }
        }
    } else if extras.twin.is_some() {
        oracle.push("twin generator: the program is rejected or not runnable".to_string());
    }
    if e2e {
        side.push(format!(
            "E2E {lineno} other={others} pruned={} {run_info}",
            plan.map_or(0, |p| p.removable_stmts.len() + p.removable_function_defs.len())
        ));
    } else if runnable {
        side.push(format!(
            "RUN {lineno} tripped={} pruned={}",
            u8::from(real.is_some()),
            plan.map_or(0, |p| p.removable_stmts.len() + p.removable_function_defs.len())
        ));
    }
    (ans, oracle, side)
}

fn clip(s: &str) -> String {
    if s.len() <= 200 { s.to_string() } else { format!("{}…[{} bytes]", &s[..s.floor_char_boundary(200)], s.len()) }
}

// ------------------------------------------------------------------------------------------------
// Front end for the generators: source -> (root span, facts text, AST text, counts, observed)

struct Front {
    rootspan: String,
    facts: String,
    ast: String,
    obs: [u128; 11],
    errors: bool,
}

fn front(src: &str) -> Result<Front, String> {
    util::catch(|| {
        let arena = arena_for(src.len());
        let lexer = Lexer::new(src, &arena);
        let mut parser = Parser::new(lexer, &arena);
        let (root, perrs) = parser.parse_program();
        if !perrs.diagnostics.is_empty() {
            return Err(format!("parse error in generated program: {}", pipeline::diags_str(perrs)));
        }
        let mut resolver = Resolver::new(&arena);
        resolver.resolve(root);
        let counts = cfg::count_program(&resolver.facts, &arena);
        Ok(Front {
            rootspan: format!("{}:{}", root.span.start, root.span.end),
            facts: facts_min_str(&resolver.facts),
            ast: astio::program(&Opts { spans: false, facts: Some(&resolver.facts) }, root),
            obs: observed_naive(&resolver.facts, &counts),
            errors: resolver.errors.has_errors(),
        })
    })
    .unwrap_or_else(|m| Err(format!("front end panicked: {}", m.replace('\n', " "))))
}

// ------------------------------------------------------------------------------------------------
// gen: random small programs with caps around the observed values, and synthetic `lim` requests

fn generate(args: &[String]) -> i32 {
    let seed = util::opt_u64(args, "--seed", 1);
    let n = util::opt_u64(args, "--n", 500);
    let nlim = util::opt_u64(args, "--lim", n);
    let mut rng = Rng::new(seed ^ 0xC18);
    let mut out = util::Out::new();
    let mut stats = std::collections::BTreeMap::<String, u64>::new();
    let mut bump = |k: &str| *stats.entry(k.to_string()).or_insert(0) += 1;
    for _ in 0..nlim {
        out.line(&gen_lim(&mut rng));
        bump("lim");
    }
    let mut made = 0u64;
    let mut attempts = 0u64;
    while made < n && attempts < n * 4 + 16 {
        attempts += 1;
        let mut pg = ProgGen::new(rng.fork());
        let src = pg.program();
        match front(&src) {
            Err(m) => {
                bump("front_end_failure");
                if m.contains("panicked") {
                    out.line(&format!("crash {}", util::hex(src.as_bytes())));
                    made += 1;
                }
            }
            Ok(f) => {
                // several cap vectors per program
                let reps = 1 + rng.below(3);
                for _ in 0..reps {
                    let (caps, target) = caps_around(&mut rng, &f.obs);
                    let caps_s: Vec<String> = caps.iter().map(u64::to_string).collect();
                    out.line(&format!(
                        "prog {} {} {} {} {}",
                        caps_s.join(" "),
                        f.rootspan,
                        util::hex(src.as_bytes()),
                        f.facts,
                        f.ast
                    ));
                    bump(&format!("prog_target_{target}"));
                    made += 1;
                }
                if f.errors {
                    bump("prog_with_resolver_errors");
                }
            }
        }
    }
    // small programs with cyclic call graphs (the random programs above never recurse), each with
    // its ring-of-3 twin
    for _ in 0..n / 50 {
        let c = scc_random_small(&mut rng);
        match scc_line(&c) {
            Ok(l) => {
                out.line(&l);
                bump("scc_small");
            }
            Err(_) => bump("scc_small_generator_failure"),
        }
    }
    let s: Vec<String> = stats.iter().map(|(k, v)| format!("{k}={v}")).collect();
    eprintln!("GEN-STATS {}", s.join(" "));
    0
}

/// Caps chosen so that a chosen stage is the first to trip (or none), with the other caps at or
/// around the observed values so that every `>` / `>=` confusion and every order swap shows.
fn caps_around(rng: &mut Rng, obs: &[u128; 11]) -> ([u64; 11], String) {
    let lim = |i: usize| if i < 9 { u128::from(u32::MAX) } else { u128::from(u64::MAX) };
    let target = rng.below(13) as usize; // 0..10 = that stage trips first, 11 = none, 12 = free-for-all
    let mut caps = [0u64; 11];
    for i in 0..11 {
        let o = obs[i].min(lim(i));
        let at = o as u64;
        let above = (o + 1).min(lim(i)) as u64;
        let below = o.saturating_sub(1) as u64;
        caps[i] = if target == 12 {
            *rng.pick(&[below, at, above, 0, lim(i) as u64])
        } else if i < target {
            // must not trip: cap >= observed, mostly exactly at the boundary
            if rng.chance(3, 4) { at } else { *rng.pick(&[above, lim(i) as u64, at.saturating_add(7).min(lim(i) as u64)]) }
        } else if i == target {
            if o == 0 { 0 } else { if rng.chance(3, 4) { below } else { rng.below(at) } }
        } else {
            *rng.pick(&[below, at, above, 0, lim(i) as u64])
        };
    }
    let name = match target {
        11 => "none".to_string(),
        12 => "free".to_string(),
        t => METRICS[t].replace(' ', "_"),
    };
    (caps, name)
}

fn gen_lim(rng: &mut Rng) -> String {
    let functions = match rng.below(8) {
        0 => 0,
        1 => 1,
        _ => 1 + rng.below(6),
    };
    let small = |rng: &mut Rng| match rng.below(6) {
        0 => 0,
        1 => 1,
        2 => rng.below(2000),
        _ => rng.below(40),
    };
    let u32ish = |rng: &mut Rng| -> u64 {
        match rng.below(10) {
            0 => u64::from(u32::MAX),
            1 => u64::from(u32::MAX) - rng.below(3),
            2 => 1 << 31,
            3 => 0,
            4 => rng.below(1 << 20),
            _ => rng.below(60),
        }
    };
    let locals = small(rng);
    let scopes = small(rng);
    let statements = small(rng);
    let calls = small(rng);
    let mut per = Vec::new();
    for _ in 0..functions {
        per.push((u32ish(rng), u32ish(rng), u32ish(rng)));
    }
    // totals: usually the true sums when they fit, sometimes arbitrary
    let sum_b: u64 = per.iter().map(|p| p.0).sum();
    let sum_o: u64 = per.iter().map(|p| p.1).sum();
    let total_blocks = if sum_b <= u64::from(u32::MAX) && rng.chance(3, 4) { sum_b } else { u32ish(rng) };
    let total_ops = if sum_o <= u64::from(u32::MAX) && rng.chance(3, 4) { sum_o } else { u32ish(rng) };
    // observed values for cap selection
    let f = u128::from(functions);
    let l = u128::from(locals);
    let max = u128::from(u64::MAX);
    let live: u128 = per
        .iter()
        .map(|p| ((2 * u128::from(p.0) + u128::from(p.1)) * u128::from(p.2)).min(max))
        .sum::<u128>()
        .min(max);
    let obs: [u128; 11] = [
        f,
        l,
        u128::from(scopes),
        u128::from(statements),
        u128::from(total_ops),
        per.iter().map(|p| u128::from(p.1)).max().unwrap_or(0),
        u128::from(total_blocks),
        per.iter().map(|p| u128::from(p.0)).max().unwrap_or(0),
        u128::from(calls),
        (f * (f + 2 * l + 2)).min(max),
        live,
    ];
    let (caps, _t) = caps_around(rng, &obs);
    let caps_s: Vec<String> = caps.iter().map(u64::to_string).collect();
    let mut s = format!(
        "lim {} {functions} {locals} {scopes} {statements} {total_ops} {total_blocks} {calls} {functions}",
        caps_s.join(" ")
    );
    for p in &per {
        let _ = write!(s, " {}:{}:{}", p.0, p.1, p.2);
    }
    s
}

// ---- random programs -----------------------------------------------------------------------------

struct Var {
    name: String,
    fn_depth: usize,
    writable: bool,
    array: bool,
}

struct FnSig {
    name: String,
    arity: usize,
    index: u64,
}

struct ProgGen {
    rng: Rng,
    out: String,
    vars: Vec<Vec<Var>>,
    fns: Vec<Vec<FnSig>>,
    next_id: u64,
    budget: i64,
    fn_depth: usize,
    /// index of the function being generated (root = u64::MAX): calls go to smaller indices only,
    /// so the call graph is acyclic and every run terminates
    cur_fn: u64,
}

impl ProgGen {
    fn new(rng: Rng) -> Self {
        ProgGen {
            rng,
            out: String::new(),
            vars: vec![Vec::new()],
            fns: vec![Vec::new()],
            next_id: 0,
            budget: 0,
            fn_depth: 0,
            cur_fn: u64::MAX,
        }
    }

    fn fresh(&mut self) -> u64 {
        self.next_id += 1;
        self.next_id
    }

    fn program(&mut self) -> String {
        self.budget = 3 + self.rng.below(40) as i64;
        let err_mode = self.rng.chance(1, 10);
        self.stmts(0, false, true);
        if err_mode {
            let bad = match self.rng.below(5) {
                0 => "comot\n".to_string(),
                1 => "return 1\n".to_string(),
                2 => "do dup() start end\ndo dup() start make q get 1 end\n".to_string(),
                3 => "nowhere get 1\n".to_string(),
                _ => "next\nshout(1)\n".to_string(),
            };
            if self.rng.chance(1, 2) {
                self.out.push_str(&bad);
            } else {
                self.out = bad + &self.out;
            }
        }
        self.out.push_str("shout(0)\n");
        std::mem::take(&mut self.out)
    }

    fn visible_nums(&self, writable_here: bool) -> Vec<String> {
        let mut v = Vec::new();
        for sc in &self.vars {
            for x in sc {
                if x.array {
                    continue;
                }
                if writable_here && !(x.writable && x.fn_depth == self.fn_depth) {
                    continue;
                }
                v.push(x.name.clone());
            }
        }
        // a later declaration of the same name shadows an earlier one: keep names whose innermost
        // declaration qualifies
        v.retain(|n| {
            let inner = self.vars.iter().rev().flat_map(|s| s.iter().rev()).find(|x| &x.name == n).unwrap();
            !inner.array && (!writable_here || (inner.writable && inner.fn_depth == self.fn_depth))
        });
        v.sort();
        v.dedup();
        v
    }

    fn atom(&mut self) -> String {
        let vs = self.visible_nums(false);
        if !vs.is_empty() && self.rng.chance(1, 2) {
            self.rng.pick(&vs).clone()
        } else {
            self.rng.below(10).to_string()
        }
    }

    fn callable(&self) -> Vec<(String, usize)> {
        let mut seen = std::collections::BTreeSet::new();
        let mut v = Vec::new();
        for sc in self.fns.iter().rev() {
            for f in sc.iter().rev() {
                if seen.insert(f.name.clone()) && f.index < self.cur_fn {
                    v.push((f.name.clone(), f.arity));
                }
            }
        }
        v
    }

    fn call(&mut self) -> Option<String> {
        let fs = self.callable();
        if fs.is_empty() {
            return None;
        }
        let (name, arity) = self.rng.pick(&fs).clone();
        let args: Vec<String> = (0..arity).map(|_| self.atom()).collect();
        Some(format!("{name}({})", args.join(", ")))
    }

    fn expr(&mut self, depth: u32) -> String {
        match self.rng.below(8) {
            0 | 1 if depth < 2 => {
                let op = *self.rng.pick(&["add", "minus", "times"]);
                let l = self.expr(depth + 1);
                let r = self.expr(depth + 1);
                format!("({l} {op} {r})")
            }
            2 => self.call().unwrap_or_else(|| self.atom()),
            _ => self.atom(),
        }
    }

    fn cond(&mut self) -> String {
        match self.rng.below(6) {
            0 => "true".to_string(),
            1 => "false".to_string(),
            _ => {
                let op = *self.rng.pick(&["pass", "small pass", "na"]);
                let l = self.atom();
                let r = self.atom();
                format!("{l} {op} {r}")
            }
        }
    }

    fn block(&mut self, depth: u32, in_loop: bool, prelude: &str) {
        self.out.push_str("start\n");
        self.out.push_str(prelude);
        self.vars.push(Vec::new());
        self.fns.push(Vec::new());
        self.stmts(depth + 1, in_loop, false);
        self.vars.pop();
        self.fns.pop();
        self.out.push_str("end\n");
    }

    fn stmts(&mut self, depth: u32, in_loop: bool, top: bool) {
        let n = if top { 2 + self.rng.below(10) } else { self.rng.below(5) };
        for _ in 0..n {
            if self.budget <= 0 {
                break;
            }
            self.budget -= 1;
            self.stmt(depth, in_loop);
        }
    }

    fn stmt(&mut self, depth: u32, in_loop: bool) {
        let k = self.rng.below(100);
        match k {
            0..=17 => {
                // declaration (names from a small pool so that shadowing and re-declaration happen)
                let name = format!("v{}", self.rng.below(6));
                let e = self.expr(0);
                let _ = writeln!(self.out, "make {name} get {e}");
                let fd = self.fn_depth;
                self.vars.last_mut().unwrap().push(Var { name, fn_depth: fd, writable: true, array: false });
            }
            18..=31 => {
                let vs = self.visible_nums(true);
                if vs.is_empty() {
                    let e = self.expr(0);
                    let _ = writeln!(self.out, "shout({e})");
                } else {
                    let x = self.rng.pick(&vs).clone();
                    let e = self.expr(0);
                    let _ = writeln!(self.out, "{x} get {e}");
                }
            }
            32..=41 => {
                let e = self.expr(0);
                let _ = writeln!(self.out, "shout({e})");
            }
            42..=53 if depth < 3 => {
                let c = self.cond();
                let _ = write!(self.out, "if to say ({c}) ");
                self.block(depth, in_loop, "");
                if self.rng.chance(1, 2) {
                    self.out.push_str("if not so ");
                    self.block(depth, in_loop, "");
                }
            }
            54..=61 if depth < 3 => {
                let id = self.fresh();
                let i = format!("i{id}");
                let bound = 1 + self.rng.below(3);
                let _ = writeln!(self.out, "make {i} get 0");
                let fd = self.fn_depth;
                self.vars.last_mut().unwrap().push(Var { name: i.clone(), fn_depth: fd, writable: false, array: false });
                let _ = write!(self.out, "jasi ({i} small pass {bound}) ");
                self.block(depth, true, &format!("{i} get {i} add 1\n"));
            }
            62..=67 if depth < 3 => {
                self.block(depth, in_loop, "");
            }
            68..=79 if depth < 3 => {
                let id = self.fresh();
                let name = format!("f{id}");
                let arity = self.rng.below(3) as usize;
                let params: Vec<String> = (0..arity).map(|j| format!("p{id}x{j}")).collect();
                let _ = write!(self.out, "do {name}({}) start\n", params.join(", "));
                // the body: own scope stack entry, parameters writable, function not yet callable
                // from itself (no recursion)
                let saved_fn = self.cur_fn;
                self.cur_fn = id;
                self.fn_depth += 1;
                let fd = self.fn_depth;
                self.vars.push(params.iter().map(|p| Var { name: p.clone(), fn_depth: fd, writable: true, array: false }).collect());
                self.fns.push(Vec::new());
                self.stmts(depth + 1, false, false);
                let e = self.expr(0);
                let _ = writeln!(self.out, "return {e}");
                if self.rng.chance(1, 4) {
                    // dead tail after the final return
                    let e = self.expr(0);
                    let _ = writeln!(self.out, "shout({e})");
                }
                self.vars.pop();
                self.fns.pop();
                self.fn_depth -= 1;
                self.cur_fn = saved_fn;
                self.out.push_str("end\n");
                self.fns.last_mut().unwrap().push(FnSig { name, arity, index: id });
            }
            80..=87 => match self.call() {
                Some(c) => {
                    let _ = writeln!(self.out, "{c}");
                }
                None => {
                    let e = self.expr(0);
                    let _ = writeln!(self.out, "shout({e})");
                }
            },
            88..=91 if self.fn_depth > 0 => {
                let e = self.expr(0);
                let _ = writeln!(self.out, "return {e}");
            }
            92..=95 if in_loop => {
                let w = if self.rng.chance(1, 2) { "comot" } else { "next" };
                let _ = writeln!(self.out, "{w}");
            }
            96..=97 => {
                let id = self.fresh();
                let a = format!("arr{id}");
                let x = self.atom();
                let y = self.atom();
                let _ = writeln!(self.out, "make {a} get [{x}, 2, 3]");
                let _ = writeln!(self.out, "{a}[0] get {y}");
                let fd = self.fn_depth;
                self.vars.last_mut().unwrap().push(Var { name: a, fn_depth: fd, writable: false, array: true });
            }
            _ => {
                let e = self.expr(0);
                let _ = writeln!(self.out, "shout({e})");
            }
        }
    }
}

// ------------------------------------------------------------------------------------------------
// gen-e2e: programs sized at / around one DEFAULT cap each

/// (source, expected output) of the boundary program `name` at `cap + delta` (see the module docs
/// of `checks/c18.py` for the shapes).  All sizes are derived from the crate's DEFAULT_CAPS.
fn e2e_source(name: &str, delta: i64) -> Option<(String, String)> {
    let c = DEFAULT_CAPS;
    let at = |cap: u64| -> u64 { (cap as i64 + delta).max(0) as u64 };
    let mut s = String::new();
    // two root locals; `canary` is never read: below the limits it earns an "Unused variable"
    // warning and its declaration is pruned, above them neither happens
    s.push_str("make x get 0\nmake canary get 7\n");
    let expected: String;
    match name {
        // functions = 1 + k
        "functions" | "summaryf" => {
            let total = if name == "functions" {
                at(u64::from(c.max_functions))
            } else {
                // largest f with f * (f + 2*2 + 2) <= max_summary_events, then + delta (delta 0 = the
                // last size below the cap, +1 = the first above)
                let cap = u128::from(c.max_summary_events);
                let mut f: u128 = 1;
                while (f + 1) * (f + 1 + 6) <= cap {
                    f += 1;
                }
                (f as i64 + delta).max(1) as u64
            };
            for i in 0..total.saturating_sub(1) {
                let _ = writeln!(s, "do f{i}() start end");
            }
            expected = "0".into();
        }
        // locals = 2 + parameters of 62 (locals) / 63 (summary) functions
        "locals" | "summary" => {
            let (nfn, total) = if name == "locals" {
                (62u64, at(u64::from(c.max_locals)))
            } else {
                // f = 64 functions: f * (f + 2l + 2) = cap  <=>  l = (cap / 64 - 66) / 2
                (63u64, at((c.max_summary_events / 64 - 66) / 2))
            };
            let q = total.saturating_sub(2);
            for i in 0..nfn {
                let n = q / nfn + u64::from(i < q % nfn);
                let _ = write!(s, "do p{i}(");
                for j in 0..n {
                    if j > 0 {
                        s.push_str(", ");
                    }
                    let _ = write!(s, "a{j}");
                }
                s.push_str(") start end\n");
            }
            expected = "0".into();
        }
        // scopes = 1 + k
        "scopes" => {
            for _ in 0..at(u64::from(c.max_scopes)).saturating_sub(1) {
                s.push_str("start end\n");
            }
            expected = "0".into();
        }
        // statements = 3 + k
        "statements" => {
            let k = at(u64::from(c.max_statements)).saturating_sub(3);
            for _ in 0..k {
                s.push_str("x get x add 1\n");
            }
            expected = k.to_string();
        }
        // blocks of one function = 2 + t.  (The *total* block cap cannot be the first stage to trip
        // at the default caps: an `if`/loop is 3 blocks for 1 scope and 1 statement, a statement after
        // `return`/`comot`/`next` 1 block for 1 statement, so blocks <= 2 + 2*scopes + statements
        // <= 524288 while the scope and statement stages pass.)
        "fnblocks" => {
            let t = at(u64::from(c.max_blocks_per_function)).saturating_sub(2);
            let (m, d) = (t / 3, t % 3);
            s.push_str("do g0() start\n");
            for _ in 0..m {
                s.push_str("if to say (true) start end\n");
            }
            s.push_str("return 1\n");
            for _ in 0..d {
                // a statement after `return` opens one more (unreachable) block
                s.push_str("shout(0)\nreturn 1\n");
            }
            s.push_str("end\nx get x add g0()\n");
            expected = "1".into();
        }
        // direct user calls = k, 16 per statement
        "calls" => {
            let k = at(u64::from(c.max_direct_user_calls));
            s.push_str("do one() start return 1 end\n");
            let mut left = k;
            while left > 0 {
                let n = left.min(16);
                s.push_str("x get x");
                for _ in 0..n {
                    s.push_str(" add one()");
                }
                s.push('\n');
                left -= n;
            }
            expected = k.to_string();
        }
        // liveness: one function (the root) with 4096 locals and (cap/4096 - 4) ops
        "liveness" => {
            let l = 4096u64;
            let ops = at(c.max_liveness_events / l - 4);
            for i in 0..l - 2 {
                let _ = writeln!(s, "make w{i} get 0");
            }
            let k = ops.saturating_sub(l + 1);
            for _ in 0..k {
                s.push_str("x get x add 1\n");
            }
            expected = k.to_string();
        }
        _ => return None,
    }
    s.push_str("shout(x)\n");
    Some((s, expected))
}

// ------------------------------------------------------------------------------------------------
// gen-scc: programs BELOW (and just above) the limits whose call graph has a LARGE strongly
// connected component next to many independent functions, each with a small twin

/// One generated program.  Text form: `scc/k=300/d=5/s=600` (omitted fields take the defaults).
#[derive(Clone, Debug)]
struct Scc {
    /// size of the component `c0 … c(k-1)` (mutual recursion through the global `fuel`), >= 3
    k: u64,
    /// size of a second, side-effect-free component `p0 …` (0 = none, else >= 3)
    kp: u64,
    /// edges of `c`: 1 ring i→i+1 (k sweeps of the fixpoint), 2 ring + chord i→7i+3, 3 both
    /// directions + chord, 4 i→i+1..i+8, 5 ring i→i-1 (two sweeps)
    d: u64,
    /// `c0` statically reaches every independent function (`hub0 → hub → s*`): the component
    /// needs k·(k + s) events instead of k·k
    hub: bool,
    /// every 8th independent function reads and writes a root variable of its own
    cap: bool,
    /// independent leaf functions (every 4th calls its predecessor), each called once, >= 4;
    /// 0 with `frac` > 0: as many as fit below the summary-event target
    s: u64,
    /// summary-event target in ppm of `max_summary_events` (0 = no padding): parameters of the
    /// never-called `wide` are added up to the largest local count whose bound stays <= target
    frac: u64,
    /// … plus this many locals (frac=1000000, dl=1: the first size above the cap)
    dl: i64,
    /// payload variant: 0 the canonical payload, n > 0 a random one from `Rng(n)`
    pay: u64,
    /// second limit to sit on: none | statements | fnblocks | liveness | scopes | locals
    pad: String,
    /// observed = cap + pd for the `pad` metric (liveness: largest size <= cap, plus pd statements)
    pd: i64,
}

impl Default for Scc {
    fn default() -> Self {
        Scc { k: 3, kp: 0, d: 1, hub: false, cap: false, s: 5, frac: 0, dl: 0, pay: 0, pad: "none".into(), pd: 0 }
    }
}

const SCC_PADS: [&str; 6] = ["none", "statements", "fnblocks", "liveness", "scopes", "locals"];

fn parse_scc(text: &str) -> Option<Scc> {
    let mut it = text.split('/');
    if it.next()? != "scc" {
        return None;
    }
    let mut c = Scc::default();
    for kv in it {
        let (key, v) = kv.split_once('=')?;
        match key {
            "k" => c.k = v.parse().ok()?,
            "kp" => c.kp = v.parse().ok()?,
            "d" => c.d = v.parse().ok()?,
            "hub" => c.hub = v == "1",
            "cap" => c.cap = v == "1",
            "s" => c.s = v.parse().ok()?,
            "frac" => c.frac = v.parse().ok()?,
            "dl" => c.dl = v.parse().ok()?,
            "pay" => c.pay = v.parse().ok()?,
            "pad" => c.pad = v.to_string(),
            "pd" => c.pd = v.parse().ok()?,
            _ => return None,
        }
    }
    let ok = c.k >= 3
        && c.k <= 4096
        && (c.kp == 0 || (3..=4096).contains(&c.kp))
        && (1..=5).contains(&c.d)
        && (c.s == 0 && c.frac > 0 || (4..=16384).contains(&c.s))
        && c.frac <= 2_000_000
        && SCC_PADS.contains(&c.pad.as_str());
    ok.then_some(c)
}

fn scc_str(c: &Scc) -> String {
    format!(
        "scc/k={}/kp={}/d={}/hub={}/cap={}/s={}/frac={}/dl={}/pay={}/pad={}/pd={}",
        c.k, c.kp, c.d, u8::from(c.hub), u8::from(c.cap), c.s, c.frac, c.dl, c.pay, c.pad, c.pd
    )
}

/// The sizes of everything outside the payload.
#[derive(Clone, Copy)]
struct SccSizes {
    k: u64,
    kp: u64,
    s: u64,
    /// parameters of `wide`
    w: u64,
    /// amount of the `pad` construct (statements / ifs / scopes) and dead tails (fnblocks)
    padn: u64,
    padrem: u64,
}

struct SccSrc {
    src: String,
    off: usize,
    pay_len: usize,
    /// expected output before the payload, and its number of lines
    pre_out: String,
    pre_lines: usize,
}

fn scc_edges(d: u64, i: u64, k: u64) -> Vec<u64> {
    let raw: Vec<u64> = match d {
        1 => vec![(i + 1) % k],
        2 => vec![(i + 1) % k, (7 * i + 3) % k],
        3 => vec![(i + 1) % k, (i + k - 1) % k, (7 * i + 3) % k],
        4 => (1..=8).map(|j| (i + j) % k).collect(),
        _ => vec![(i + k - 1) % k],
    };
    let mut v = Vec::new();
    for t in raw {
        if !v.contains(&t) {
            v.push(t);
        }
    }
    v
}

/// Calls available to the payload in every size: results do not depend on the sizes (`c*()` returns
/// what is left of `fuel`, at most 6; `p*()` 7; `s*()` 1; `g*()` see `scc_payload`).
fn scc_payload(c: &Scc) -> String {
    let mut p = String::new();
    // callers inside the payload: of the component, of a caller of the component, of an
    // independent function.  Each holds a dead store that is only provably dead when the callee's
    // summary is available (`t get 2` is overwritten by `t get 3` with only the call in between).
    p.push_str("do g1() start\nmake t get 1\nt get 2\nmake h get c0()\nt get 3\nreturn t add h\nend\n");
    p.push_str("do g2() start\nmake z get 1\nz get 2\nmake h get g1()\nz get 3\nreturn z add h\nend\n");
    p.push_str("do g3() start\nmake e get 1\ne get 2\nmake h get s0()\ne get 3\nreturn e add h\nend\n");
    if c.pay == 0 {
        // dead store across a call into the component; unused variable in a function that calls
        // it; control: the same across a call to an independent function
        p.push_str("make x get 0\nx get 1\nmake hops get c0()\nx get 2\nmake u get 9\n");
        p.push_str("make y get 0\ny get 1\nmake one get g3()\ny get 2\n");
        if c.kp > 0 {
            // unused result of a call into the side-effect-free component: warned about and pruned
            p.push_str("make v get p0()\np1()\n");
        }
        p.push_str("make n get 4\nn get 5\nc1()\nn get 6\nfuel get 2\n");
        p.push_str("shout(x add hops add y add one add n)\nshout(g1())\nshout(g2())\n");
        return p;
    }
    let mut rng = Rng::new(c.pay ^ 0x5CC0_5CC0);
    let mut calls: Vec<&str> = vec!["c0()", "c1()", "c2()", "c0()", "g1()", "g2()", "g3()", "s0()", "s2()", "s3()"];
    if c.kp > 0 {
        calls.extend(["p0()", "p1()", "p2()"]);
    }
    let mut vars: Vec<String> = vec!["x".into(), "y".into()];
    p.push_str("make x get 0\nmake y get 1\n");
    let n = 10 + rng.below(15);
    let mut fresh = 0u64;
    for _ in 0..n {
        let v = rng.pick(&vars).clone();
        let call = *rng.pick(&calls);
        let (a, b) = (rng.below(10), rng.below(10));
        match rng.below(11) {
            0 => {
                fresh += 1;
                let _ = writeln!(p, "make v{fresh} get {a}");
                vars.push(format!("v{fresh}"));
            }
            1 => {
                let _ = writeln!(p, "{v} get {a}");
            }
            2 => {
                let _ = writeln!(p, "{v} get {v} add {call}");
            }
            3 => {
                fresh += 1;
                let _ = writeln!(p, "make h{fresh} get {call}");
                vars.push(format!("h{fresh}"));
            }
            4 => {
                let _ = writeln!(p, "{call}");
            }
            5 => {
                let _ = writeln!(p, "shout({v})");
            }
            6 => {
                let _ = writeln!(p, "{v} get {a}\n{call}\n{v} get {b}");
            }
            7 => {
                let _ = writeln!(p, "if to say ({v} small pass {a}) start\n{v} get {b}\n{call}\nend");
            }
            8 => {
                fresh += 1;
                let _ = writeln!(p, "start\nmake q{fresh} get {a}\n{call}\nend");
            }
            9 => {
                let _ = writeln!(p, "fuel get {}", rng.below(7));
            }
            _ => {
                let _ = writeln!(p, "jasi ({v} small pass 3) start\n{v} get {v} add 1\n{call}\nend");
            }
        }
    }
    let _ = writeln!(p, "shout({})", vars.join(" add "));
    p
}

fn scc_source(c: &Scc, z: &SccSizes) -> SccSrc {
    let mut s = String::new();
    s.push_str("make fuel get 5\nmake acc get 0\n");
    // the component
    for i in 0..z.k {
        let _ = write!(s, "do c{i}() start if to say (fuel small pass 1) start return 0 end fuel get fuel minus 1 return ");
        for t in scc_edges(c.d, i, z.k) {
            let _ = write!(s, "c{t}() add ");
        }
        if c.hub && i == 0 {
            s.push_str("hub0() add ");
        }
        s.push_str("1 end\n");
    }
    // the side-effect-free component: a static ring (every body returns before its call)
    for i in 0..z.kp {
        let _ = writeln!(s, "do p{i}() start if to say (true) start return 7 end return p{}() end", (i + 1) % z.kp);
    }
    // independent functions
    for i in 0..z.s {
        if i % 4 == 3 {
            let _ = writeln!(s, "do s{i}() start return s{}() end", i - 1);
        } else if c.cap && i % 8 == 1 {
            let _ = writeln!(s, "make cg{i} get 0\ndo s{i}() start cg{i} get cg{i} add 1 return 1 end");
        } else {
            let _ = writeln!(s, "do s{i}() start return 1 end");
        }
    }
    let calls16 = |s: &mut String, var: &str| {
        let mut i = 0;
        while i < z.s {
            let _ = write!(s, "{var} get {var}");
            for j in i..(i + 16).min(z.s) {
                let _ = write!(s, " add s{j}()");
            }
            s.push('\n');
            i += 16;
        }
    };
    if c.hub {
        // never runs (`fuel` stays below 100) but links the component to every independent function
        s.push_str("do hub0() start if to say (fuel small pass 100) start return 0 end return hub() end\n");
        s.push_str("do hub() start\nmake a get 0\n");
        calls16(&mut s, "a");
        s.push_str("return a\nend\n");
    }
    // padding towards a second limit (inside functions of their own: the root stays small)
    match c.pad.as_str() {
        "statements" => {
            s.push_str("do padf() start\nmake q get 0\n");
            for _ in 0..z.padn {
                s.push_str("q get q add 0\n");
            }
            s.push_str("return q\nend\nacc get acc add padf()\n");
        }
        "fnblocks" => {
            s.push_str("do padf() start\n");
            for _ in 0..z.padn {
                s.push_str("if to say (true) start end\n");
            }
            s.push_str("return 0\n");
            for _ in 0..z.padrem {
                s.push_str("shout(0)\nreturn 0\n");
            }
            s.push_str("end\nacc get acc add padf()\n");
        }
        "scopes" => {
            s.push_str("do padf() start\n");
            for _ in 0..z.padn {
                s.push_str("start end\n");
            }
            s.push_str("return 0\nend\nacc get acc add padf()\n");
        }
        _ => {}
    }
    calls16(&mut s, "acc");
    s.push_str("shout(acc)\n");
    let off = s.len();
    let payload = scc_payload(c);
    s.push_str(&payload);
    let pay_len = payload.len();
    // after the payload: functions with many parameters (kept out of the root's local range)
    let _ = write!(s, "do wide(");
    for j in 0..z.w.max(1) {
        if j > 0 {
            s.push_str(", ");
        }
        let _ = write!(s, "a{j}");
    }
    s.push_str(") start end\n");
    if c.pad == "liveness" {
        let params = if z.padrem == 0 { 2 } else { z.padrem };
        s.push_str("do lv(");
        for j in 0..params {
            if j > 0 {
                s.push_str(", ");
            }
            let _ = write!(s, "b{j}");
        }
        s.push_str(") start\n");
        for _ in 0..z.padn {
            s.push_str("shout(0)\n");
        }
        s.push_str("end\n");
    }
    SccSrc { src: s, off, pay_len, pre_out: z.s.to_string(), pre_lines: 1 }
}

/// Observed metrics of a source (no AST text: this runs up to three times per program).
fn measure(src: &str) -> Result<[u128; 11], String> {
    util::catch(|| {
        let arena = arena_for(src.len());
        let lexer = Lexer::new(src, &arena);
        let mut parser = Parser::new(lexer, &arena);
        let (root, perrs) = parser.parse_program();
        if !perrs.diagnostics.is_empty() {
            return Err(format!("parse error in generated program: {}", pipeline::diags_str(perrs)));
        }
        let mut resolver = Resolver::new(&arena);
        resolver.resolve(root);
        if resolver.errors.has_errors() {
            return Err(format!("generated program rejected: {}", pipeline::diags_str(&resolver.errors)));
        }
        let counts = cfg::count_program(&resolver.facts, &arena);
        Ok(observed_naive(&resolver.facts, &counts))
    })
    .unwrap_or_else(|m| Err(format!("front end panicked: {}", m.replace('\n', " "))))
}

const LV_PARAMS: u64 = 4096;

/// The program of a spec and its twin.  Sizes that depend on the crate's counting (padding up to a
/// cap) are found by measuring a first version with the real front end.
fn scc_build(c: &Scc) -> Result<(SccSrc, SccSrc), String> {
    let caps = caps_vec(&DEFAULT_CAPS);
    let mut c = c.clone();
    if c.s == 0 {
        // as many independent functions as the target allows: functions and locals grow linearly
        // with s (one function each; with `cap` one root local for every s ≡ 1 mod 8)
        c.s = 4;
        let z = SccSizes { k: c.k, kp: c.kp, s: 4, w: 1, padn: 1, padrem: if c.pad == "liveness" { LV_PARAMS } else { 0 } };
        let obs = measure(&scc_source(&c, &z).src)?;
        let target = u128::from(caps[9]) * u128::from(c.frac) / 1_000_000;
        let bound = |s: u128| {
            let f = obs[0] + (s - 4);
            let l = obs[1] + if c.cap { (s + 6) / 8 - 1 } else { 0 };
            f * (f + 2 * l + 2)
        };
        let mut s = 4u128;
        while s < 16000 && bound(s + 1) <= target {
            s += 1;
        }
        c.s = s as u64;
    }
    let c = &c;
    let twin_z = SccSizes {
        k: 3,
        kp: if c.kp > 0 { 3 } else { 0 },
        s: 5,
        w: 1,
        padn: 1,
        // the same number of dead tails as the big program (their warnings are outside the payload)
        padrem: 0,
    };
    let mut z = SccSizes { k: c.k, kp: c.kp, s: c.s, w: 1, padn: 1, padrem: if c.pad == "liveness" { LV_PARAMS } else { 0 } };
    let mut twin_z = twin_z;
    let needs_measure = c.frac > 0 || c.pad != "none";
    if needs_measure {
        let obs = measure(&scc_source(c, &z).src)?;
        // 1. locals: parameters of `wide`
        if c.pad == "locals" {
            let want = caps[1] as i128 + i128::from(c.pd);
            z.w = (1 + want - obs[1] as i128).max(1) as u64;
        } else if c.frac > 0 {
            let target = u128::from(caps[9]) * u128::from(c.frac) / 1_000_000;
            let f = obs[0];
            // largest l with f·(f + 2l + 2) <= target
            let lmax = (target / f).checked_sub(f + 2).map(|r| r / 2);
            if let Some(lmax) = lmax {
                z.w = (1 + lmax as i128 - obs[1] as i128 + i128::from(c.dl)).max(1) as u64;
            }
        }
        // 2. the second limit
        match c.pad.as_str() {
            "statements" | "scopes" => {
                let m = if c.pad == "statements" { 3 } else { 2 };
                let want = caps[m] as i128 + i128::from(c.pd);
                z.padn = (1 + want - obs[m] as i128).max(0) as u64;
            }
            "fnblocks" => {
                // blocks of padf = 2 + 3·ifs + dead tails
                let want = (caps[7] as i128 + i128::from(c.pd) - 2).max(3) as u64;
                z.padn = want / 3;
                z.padrem = want % 3;
                twin_z.padrem = z.padrem;
            }
            "liveness" => {
                // lv contributes (2·2 + n)·LV_PARAMS, `wide` 4·w; everything else was measured
                let base = obs[10] as i128 - i128::from(5 * LV_PARAMS) - 4 + 4 * i128::from(z.w);
                let room = caps[10] as i128 - base;
                let n = room / i128::from(LV_PARAMS) - 4 + i128::from(c.pd);
                z.padn = n.max(0) as u64;
            }
            _ => {}
        }
    }
    Ok((scc_source(c, &z), scc_source(c, &twin_z)))
}

fn scc_line(c: &Scc) -> Result<String, String> {
    let (big, twin) = scc_build(c)?;
    if big.src[big.off..big.off + big.pay_len] != twin.src[twin.off..twin.off + twin.pay_len] {
        return Err("payload text differs between the program and its twin".to_string());
    }
    let f = front(&big.src)?;
    if f.errors {
        return Err("generated program is rejected by the resolver".to_string());
    }
    Ok(format!(
        "e2e {} {} X=?,T={},P={}:{}:{},O={},A={},G={} {} {}",
        f.rootspan,
        util::hex(big.src.as_bytes()),
        util::hex(twin.src.as_bytes()),
        big.off,
        twin.off,
        big.pay_len,
        big.pre_lines,
        util::hex(big.pre_out.as_bytes()),
        scc_str(c),
        f.facts,
        f.ast
    ))
}

/// Random spec.  `big`: the thorough tier's sizes (seconds per program in a debug build).
fn scc_random(rng: &mut Rng, big: bool) -> Scc {
    let cap = u128::from(DEFAULT_CAPS.max_summary_events);
    let d = 1 + rng.below(5);
    // forward rings and i+1..i+8 graphs need ~k sweeps (k^4/3 comparisons): keep them smaller
    let slow = d == 1 || d == 4;
    let kmax = match (slow, big) {
        (true, false) => 160,
        (true, true) => 320,
        (false, false) => 600,
        (false, true) => 1000,
    };
    let k = if rng.chance(1, 4) { 50 + rng.below(30) } else { 50 + rng.below(kmax - 49) };
    let kp = if rng.chance(1, 2) { 0 } else { 3 + rng.below(if big { 300 } else { 120 }) };
    let frac = *rng.pick(&[0, 0, 10_000, 50_000, 250_000, 500_000, 900_000, 1_000_000, 1_000_000]);
    let dl = if frac == 1_000_000 && rng.chance(1, 3) { 1 } else { 0 };
    // the function count must leave room below the target: f·(f + 2) <= target
    let target = if frac == 0 { cap / 4 } else { cap * u128::from(frac) / 1_000_000 };
    let mut fmax = 1u64;
    while u128::from(fmax + 1) * u128::from(fmax + 3 + 64) <= target {
        fmax += 1;
    }
    let fixed = k + kp + 12;
    let smax = fmax.saturating_sub(fixed).clamp(4, if big { 3900 } else { 1500 });
    let s = match rng.below(4) {
        0 => 4 + rng.below(40.min(smax - 3)),
        1 => smax,
        _ => 4 + rng.below(smax - 3),
    };
    let pad = if rng.chance(1, if big { 3 } else { 6 }) {
        (*rng.pick(&["fnblocks", "liveness", "statements"])).to_string()
    } else {
        "none".to_string()
    };
    let pd = if pad == "none" { 0 } else { *rng.pick(&[-1, 0, 0, 1]) };
    let mut c = Scc { k, kp, d, hub: rng.chance(1, 3), cap: rng.chance(1, 3), s, frac, dl, pay: rng.below(1_000_000), pad, pd };
    // keep the fixpoint's own work (element comparisons, see `scc_cost`) within a second or so
    let budget = if big { 2.0e10 } else { 3.0e9 };
    if scc_cost(&c) > budget {
        c.hub = false;
    }
    if scc_cost(&c) > budget {
        c.d = if c.d == 1 { 5 } else { 3 };
    }
    c
}

/// Small cyclic shapes for the random stream (milliseconds each).
fn scc_random_small(rng: &mut Rng) -> Scc {
    Scc {
        k: 3 + rng.below(38),
        kp: if rng.chance(1, 2) { 0 } else { 3 + rng.below(8) },
        d: 1 + rng.below(5),
        hub: rng.chance(1, 2),
        cap: rng.chance(1, 2),
        s: 4 + rng.below(57),
        pay: 1 + rng.below(1_000_000),
        ..Scc::default()
    }
}

/// Rough number of element comparisons `summarize_component` spends on the big component: sweeps ×
/// members × (size of a transitive callee set)².  About 10^10 per second in the harness build.
fn scc_cost(c: &Scc) -> f64 {
    let k = c.k as f64;
    let sweeps = match c.d {
        1 => k,
        4 => k / 8.0 + 2.0,
        2 => k.log2() + 2.0,
        _ => 3.0,
    };
    let set = k + if c.hub { c.s as f64 } else { 0.0 };
    sweeps * k * set * set
}

fn gen_scc(args: &[String]) -> i32 {
    let mut specs: Vec<Scc> = Vec::new();
    if let Some(cases) = util::opt(args, "--case") {
        for case in cases.split(',').filter(|c| !c.is_empty()) {
            let Some(c) = parse_scc(case) else {
                eprintln!("bad scc spec {case}");
                return 2;
            };
            specs.push(c);
        }
    }
    let n = util::opt_u64(args, "--n", 0);
    let mut rng = Rng::new(util::opt_u64(args, "--seed", 1) ^ 0x5CC);
    for _ in 0..n {
        specs.push(scc_random(&mut rng, util::flag(args, "--big")));
    }
    let mut out = util::Out::new();
    for c in &specs {
        match scc_line(c) {
            Ok(l) => {
                out.line(&l);
                eprintln!("SCC-SPEC {}", scc_str(c));
            }
            Err(m) => {
                eprintln!("GEN-FAIL {} {m}", scc_str(c));
                return 3;
            }
        }
    }
    0
}

fn parse_case(s: &str) -> Option<(String, i64)> {
    let (n, d) = s.split_once(':')?;
    Some((n.to_string(), d.parse().ok()?))
}

fn gen_e2e(args: &[String]) -> i32 {
    let Some(cases) = util::opt(args, "--case") else {
        eprintln!("--case <name>:<delta>[,...]");
        return 2;
    };
    let mut out = util::Out::new();
    for case in cases.split(',') {
        let Some((name, delta)) = parse_case(case) else {
            eprintln!("bad case {case}");
            return 2;
        };
        let Some((src, expected)) = e2e_source(&name, delta) else {
            eprintln!("unknown case {name}");
            return 2;
        };
        match front(&src) {
            Err(m) => {
                eprintln!("GEN-FAIL {case} {m}");
                return 3;
            }
            Ok(f) => {
                out.line(&format!(
                    "e2e {} {} X={} {} {}",
                    f.rootspan,
                    util::hex(src.as_bytes()),
                    util::hex(expected.as_bytes()),
                    f.facts,
                    f.ast
                ));
            }
        }
    }
    0
}

/// `<caps> <hex src>` per line -> a `prog` request line (or `invalid <why>`).
fn mk() -> i32 {
    util::silence_panics();
    let mut out = util::Out::new();
    for line in util::stdin_lines() {
        let w: Vec<&str> = line.split_whitespace().collect();
        if w.len() != 12 || parse_caps(&w[..11]).is_none() {
            out.line("invalid request");
            continue;
        }
        let Some(src) = util::unhex(w[11]).and_then(|b| String::from_utf8(b).ok()) else {
            out.line("invalid hex");
            continue;
        };
        match front(&src) {
            Err(m) if m.contains("panicked") => out.line(&format!("crash {}", w[11])),
            Err(m) => out.line(&format!("invalid {m}")),
            Ok(f) => out.line(&format!("prog {} {} {} {} {}", w[..11].join(" "), f.rootspan, w[11], f.facts, f.ast)),
        }
    }
    0
}

fn print_src(args: &[String]) -> i32 {
    if let Some(c) = util::opt(args, "--case").and_then(parse_scc) {
        return match scc_build(&c) {
            Ok((big, twin)) => {
                print!("{}", if util::flag(args, "--twin") { twin.src } else { big.src });
                0
            }
            Err(m) => {
                eprintln!("GEN-FAIL {m}");
                3
            }
        };
    }
    let Some((name, delta)) = util::opt(args, "--case").and_then(parse_case) else { return 2 };
    match e2e_source(&name, delta) {
        Some((src, _)) => {
            print!("{src}");
            0
        }
        None => 2,
    }
}

// ------------------------------------------------------------------------------------------------
// summ: the interprocedural summary fixpoint (`compute_summaries_with_max_events`) on given direct
// facts with a given event budget
//
// summ <budget> <f> <l> <callees;reads;writes;stmts>*f      (lists: comma separated ids, `-` = empty;
//       stmts = class level 0..2 of every statement of the function)
//   -> <available>:<transitive callees, sorted>:<reads, sorted>:<writes, sorted>:<transitive class>:<body class>
//      for every function, space separated; `panic` when the code panics (callee id >= f)
//
// The facts are synthetic (`ProgramFacts` holding exactly what the fixpoint reads: the number of
// functions, `function_directs`, `function` and `expr_class` of every `stmt_effects` entry); the
// generator takes them from random call graphs and from the real resolver's facts of random
// programs.  The model side (`Summary.compute`) runs its own transcription of the scheduling, so
// which summaries a starved budget leaves unavailable also compares the component order.

#[derive(Clone, Default, PartialEq, Eq)]
struct DirectFn {
    callees: Vec<u32>,
    reads: Vec<u32>,
    writes: Vec<u32>,
    stmts: Vec<u8>,
}

struct SummRow {
    available: bool,
    callees: Vec<u32>,
    reads: Vec<u32>,
    writes: Vec<u32>,
    class: u8,
    body: u8,
}

fn class_level(c: ExprClass) -> u8 {
    match c {
        ExprClass::PureNoTrap => 0,
        ExprClass::PureMayTrap => 1,
        ExprClass::Impure => 2,
    }
}

fn level_class(n: u8) -> Option<ExprClass> {
    match n {
        0 => Some(ExprClass::PureNoTrap),
        1 => Some(ExprClass::PureMayTrap),
        2 => Some(ExprClass::Impure),
        _ => None,
    }
}

fn ids_str<T: std::fmt::Display>(v: &[T]) -> String {
    if v.is_empty() {
        return "-".to_string();
    }
    v.iter().map(T::to_string).collect::<Vec<_>>().join(",")
}

fn parse_ids<T: std::str::FromStr>(s: &str) -> Option<Vec<T>> {
    if s == "-" {
        return Some(Vec::new());
    }
    s.split(',').map(|x| x.parse().ok()).collect()
}

fn summ_request(budget: u64, locals: u64, fns: &[DirectFn]) -> String {
    let mut s = format!("summ {budget} {} {locals}", fns.len());
    for d in fns {
        let _ = write!(s, " {};{};{};{}", ids_str(&d.callees), ids_str(&d.reads), ids_str(&d.writes), ids_str(&d.stmts));
    }
    s
}

fn parse_summ(w: &[&str]) -> Option<(u64, u64, Vec<DirectFn>)> {
    if w.len() < 3 {
        return None;
    }
    let budget: u64 = w[0].parse().ok()?;
    let f: usize = w[1].parse().ok()?;
    let locals: u64 = w[2].parse().ok()?;
    if w.len() != 3 + f || f > 20_000 || locals > 1_000_000 {
        return None;
    }
    let mut fns = Vec::with_capacity(f);
    for t in &w[3..] {
        let p: Vec<&str> = t.split(';').collect();
        if p.len() != 4 {
            return None;
        }
        let stmts: Vec<u8> = parse_ids(p[3])?;
        if stmts.iter().any(|&c| c > 2) {
            return None;
        }
        fns.push(DirectFn { callees: parse_ids(p[0])?, reads: parse_ids(p[1])?, writes: parse_ids(p[2])?, stmts });
    }
    Some((budget, locals, fns))
}

/// The hypotheses of the budget theorem (`Props/C18.lean`, `summary_budget_suffices`): ids in
/// range, no duplicates.
fn directs_wellformed(locals: u64, fns: &[DirectFn]) -> bool {
    let nodup = |v: &[u32]| v.iter().enumerate().all(|(i, x)| !v[..i].contains(x));
    fns.iter().all(|d| {
        nodup(&d.callees)
            && nodup(&d.reads)
            && nodup(&d.writes)
            && d.callees.iter().all(|&c| (c as usize) < fns.len())
            && d.reads.iter().chain(d.writes.iter()).all(|&x| u64::from(x) < locals)
    })
}

fn summary_bound(f: usize, locals: u64) -> u128 {
    let f = f as u128;
    f * (f + 2 * u128::from(locals) + 2)
}

/// The REAL fixpoint on synthetic facts, once per budget.
fn real_summaries(locals: u64, fns: &[DirectFn], budgets: &[u64]) -> Vec<Vec<SummRow>> {
    let arena = Arena::new(256 << 20).unwrap();
    // One tiny real program supplies the node references the fact records must point at.
    let lexer = Lexer::new("make x get 0", &arena);
    let mut parser = Parser::new(lexer, &arena);
    let (root, _errs) = parser.parse_program();
    let stmt = root.stmts[0];
    let mut facts: ProgramFacts<'_, '_> = ProgramFacts::new(&arena);
    for (i, d) in fns.iter().enumerate() {
        facts.functions.push(FunctionInfo {
            name: "f",
            params: None,
            parent: if i == 0 { None } else { Some(FunctionId(0)) },
            defining_scope: ScopeId(0),
            def_span: root.span.clone(),
            body_span: root.span.clone(),
            body: root,
            def_stmt: None,
            locals_start: 0,
            locals_len: 0,
        });
        let mut direct = naijascript::analysis::facts::FunctionDirectFacts {
            direct_callees: Vec::new_in(&arena),
            direct_capture_reads: Vec::new_in(&arena),
            direct_capture_writes: Vec::new_in(&arena),
        };
        direct.direct_callees.extend(d.callees.iter().map(|&c| FunctionId(c)));
        direct.direct_capture_reads.extend(d.reads.iter().map(|&x| naijascript::analysis::ids::LocalId(x)));
        direct.direct_capture_writes.extend(d.writes.iter().map(|&x| naijascript::analysis::ids::LocalId(x)));
        facts.function_directs.push(direct);
        for &c in &d.stmts {
            facts.stmt_effects.push(StmtEffectFacts {
                stmt,
                function: FunctionId(i as u32),
                scope: ScopeId(0),
                reads: Vec::new_in(&arena),
                writes: Vec::new_in(&arena),
                direct_callees: Vec::new_in(&arena),
                expr_class: level_class(c).expect("statement class level"),
            });
        }
    }
    for _ in 0..locals {
        facts.locals.push(LocalInfo {
            name: "x",
            owner: FunctionId(0),
            declaring_scope: ScopeId(0),
            decl_span: root.span.clone(),
            decl_stmt: None,
            kind: LocalKind::Variable,
        });
    }
    let mut all = Vec::new();
    for &budget in budgets {
        let out = Arena::new(256 << 20).unwrap();
        let summaries = summary::compute_summaries_with_max_events(&facts, budget, &out);
        let sorted = |v: Vec<u32>| {
            let mut v = v;
            v.sort_unstable();
            v
        };
        all.push(
            summaries
                .iter()
                .map(|s| SummRow {
                    available: s.available,
                    callees: sorted(s.transitive_callees.iter().map(|c| c.0).collect()),
                    reads: sorted(s.transitive_capture_reads.iter().map(|c| c.0).collect()),
                    writes: sorted(s.transitive_capture_writes.iter().map(|c| c.0).collect()),
                    class: class_level(s.transitive_class),
                    body: class_level(s.body_class),
                })
                .collect(),
        );
    }
    all
}

/// Size of the largest strongly connected component, from the transitive callee sets of a run
/// whose summaries are all available.
fn max_scc(rows: &[SummRow]) -> usize {
    let reach = |i: usize, j: usize| rows[i].callees.binary_search(&(j as u32)).is_ok();
    (0..rows.len()).map(|i| (0..rows.len()).filter(|&j| j == i || (reach(i, j) && reach(j, i))).count()).max().unwrap_or(0)
}

fn answer_summ(w: &[&str], lineno: usize) -> Answer {
    let Some((budget, locals, fns)) = parse_summ(w) else { return bad() };
    let bound = summary_bound(fns.len(), locals);
    let wf = directs_wellformed(locals, &fns);
    let mut runs = real_summaries(locals, &fns, &[budget, u64::MAX]);
    let full = runs.pop().unwrap();
    let rows = runs.pop().unwrap();
    let lost = rows.iter().filter(|r| !r.available).count();
    let mut oracle = Vec::new();
    if wf && u128::from(budget) >= bound && lost != 0 {
        oracle.push(format!(
            "summary budget: {lost} of {} function summaries are unavailable although the event budget {budget} is at least the preflight bound {bound}",
            rows.len()
        ));
    }
    if full.iter().any(|r| !r.available) {
        oracle.push("summary budget: summaries unavailable with an unlimited event budget".to_string());
    }
    // what a budget cannot change: an available summary is the one the unlimited run computes
    for (i, (r, u)) in rows.iter().zip(full.iter()).enumerate() {
        if r.available && (r.callees != u.callees || r.reads != u.reads || r.writes != u.writes || r.class != u.class) {
            oracle.push(format!("summary budget: function {i} is available with budget {budget} but differs from the unlimited run"));
            break;
        }
    }
    let ans = rows
        .iter()
        .map(|r| {
            format!("{}:{}:{}:{}:{}:{}", u8::from(r.available), ids_str(&r.callees), ids_str(&r.reads), ids_str(&r.writes), r.class, r.body)
        })
        .collect::<Vec<_>>()
        .join(" ");
    let side = format!(
        "SUMM {lineno} f={} l={locals} budget={budget} bound={bound} lost={lost} maxscc={} wf={}",
        fns.len(),
        max_scc(&full),
        u8::from(wf)
    );
    (if ans.is_empty() { "-".to_string() } else { ans }, oracle, vec![side])
}

/// Direct facts of a program as the real resolver records them.
fn directs_of_facts(facts: &ProgramFacts<'_, '_>) -> (u64, Vec<DirectFn>) {
    let mut fns: Vec<DirectFn> = facts
        .function_directs
        .iter()
        .map(|d| DirectFn {
            callees: d.direct_callees.iter().map(|c| c.0).collect(),
            reads: d.direct_capture_reads.iter().map(|c| c.0).collect(),
            writes: d.direct_capture_writes.iter().map(|c| c.0).collect(),
            stmts: Vec::new(),
        })
        .collect();
    for s in &facts.stmt_effects {
        if let Some(d) = fns.get_mut(s.function.0 as usize) {
            d.stmts.push(class_level(s.expr_class));
        }
    }
    (facts.locals.len() as u64, fns)
}

fn directs_of_source(src: &str) -> Result<(u64, Vec<DirectFn>), String> {
    util::catch(|| {
        let arena = arena_for(src.len());
        let lexer = Lexer::new(src, &arena);
        let mut parser = Parser::new(lexer, &arena);
        let (root, perrs) = parser.parse_program();
        if !perrs.diagnostics.is_empty() {
            return Err(format!("parse error in generated program: {}", pipeline::diags_str(perrs)));
        }
        let mut resolver = Resolver::new(&arena);
        resolver.resolve(root);
        if resolver.errors.has_errors() {
            return Err(format!("generated program rejected: {}", pipeline::diags_str(&resolver.errors)));
        }
        if resolver.facts.function_directs.len() != resolver.facts.functions.len() {
            return Err("function_directs and functions differ in length".to_string());
        }
        Ok(directs_of_facts(&resolver.facts))
    })
    .unwrap_or_else(|m| Err(format!("front end panicked: {}", m.replace('\n', " "))))
}

/// A program whose top-level functions call each other freely (cycles, self calls: it is never run),
/// read and write root variables (captures), and may hold a nested function that captures the
/// enclosing function's variable as well.
fn summ_source(rng: &mut Rng) -> String {
    let n = 1 + rng.below(14);
    let m = 1 + rng.below(5);
    let mut s = String::new();
    for j in 0..m {
        let _ = writeln!(s, "make g{j} get {j}");
    }
    // edges: a ring through a random prefix, plus random extra calls
    let ring = if rng.chance(2, 3) { 2 + rng.below(n) } else { 0 };
    for i in 0..n {
        let _ = writeln!(s, "do t{i}(p) start\nmake a get p");
        let body = |rng: &mut Rng, s: &mut String, me: &str, nested: bool| {
            for _ in 0..rng.below(5) {
                let g = rng.below(m);
                let t = rng.below(n);
                match rng.below(9) {
                    0 => {
                        let _ = writeln!(s, "g{g} get g{g} add 1");
                    }
                    1 => {
                        let _ = writeln!(s, "shout(g{g})");
                    }
                    2 => {
                        let _ = writeln!(s, "make q{} get g{g}", rng.below(3));
                    }
                    3 => {
                        let _ = writeln!(s, "a get t{t}(a)");
                    }
                    4 => {
                        let _ = writeln!(s, "t{t}(1)");
                    }
                    5 => {
                        let _ = writeln!(s, "make r{} get 7 divide 2", rng.below(3));
                    }
                    6 => {
                        let _ = writeln!(s, "a get {me}");
                    }
                    7 if nested => {
                        let _ = writeln!(s, "a get a add 1");
                    }
                    _ => {
                        let _ = writeln!(s, "make w{} get 1", rng.below(3));
                    }
                }
            }
        };
        let me = if rng.chance(1, 6) { format!("t{i}(a)") } else { "a".to_string() };
        if rng.chance(1, 4) {
            let _ = writeln!(s, "do n{i}() start");
            body(rng, &mut s, "0", true);
            s.push_str("return a\nend\n");
            if rng.chance(3, 4) {
                let _ = writeln!(s, "a get n{i}()");
            }
        }
        body(rng, &mut s, &me, false);
        if i < ring {
            let _ = writeln!(s, "a get t{}(a)", (i + 1) % ring.min(n));
        }
        s.push_str("return a\nend\n");
    }
    for _ in 0..1 + rng.below(3) {
        let _ = writeln!(s, "shout(t{}(1))", rng.below(n));
    }
    s
}

fn subset(rng: &mut Rng, n: u64, num: u64, den: u64) -> Vec<u32> {
    let mut v: Vec<u32> = (0..n as u32).filter(|_| rng.chance(num, den)).collect();
    // any order: the lists are sets with a first-seen order
    for i in (1..v.len()).rev() {
        v.swap(i, rng.below(i as u64 + 1) as usize);
    }
    v
}

/// Random direct facts: (shape name, locals, functions).
fn summ_graph(rng: &mut Rng, fmax: u64) -> (&'static str, u64, Vec<DirectFn>) {
    let f = match rng.below(10) {
        0 => 1,
        1 => 2,
        2 | 3 => 3 + rng.below(6),
        _ => 3 + rng.below(fmax - 2),
    };
    let locals = match rng.below(5) {
        0 => 0,
        1 => 1,
        _ => rng.below(13),
    };
    let mut edges: Vec<Vec<u32>> = vec![Vec::new(); f as usize];
    let add = |edges: &mut Vec<Vec<u32>>, a: u64, b: u64| {
        if !edges[a as usize].contains(&(b as u32)) {
            edges[a as usize].push(b as u32);
        }
    };
    let shape = match rng.below(11) {
        0 => {
            // sparse random
            for _ in 0..rng.below(2 * f + 1) {
                let (a, b) = (rng.below(f), rng.below(f));
                add(&mut edges, a, b);
            }
            "sparse"
        }
        1 => {
            for a in 0..f {
                for b in 0..f {
                    if rng.chance(1, 2) {
                        add(&mut edges, a, b);
                    }
                }
            }
            "dense"
        }
        2 => {
            // one ring through everything, forward or backward
            let fwd = rng.chance(1, 2);
            for a in 0..f {
                add(&mut edges, a, if fwd { (a + 1) % f } else { (a + f - 1) % f });
            }
            if fwd { "ring" } else { "ring-backward" }
        }
        3 => {
            // ring of k plus chords, the rest calls into it or is called from it or is apart
            let k = 1 + rng.below(f);
            for a in 0..k {
                add(&mut edges, a, (a + 1) % k);
                if rng.chance(1, 3) {
                    add(&mut edges, a, rng.below(k));
                }
            }
            for a in k..f {
                match rng.below(3) {
                    0 => add(&mut edges, a, rng.below(k)),
                    1 => add(&mut edges, rng.below(k), a),
                    _ => {}
                }
            }
            "ring+rest"
        }
        4 => {
            // a chain of rings: component i calls component i+1 (or i-1)
            let mut lo = 0;
            let down = rng.chance(1, 2);
            let mut prev: Option<(u64, u64)> = None;
            while lo < f {
                let k = (1 + rng.below(6)).min(f - lo);
                for a in 0..k {
                    if k > 1 || rng.chance(1, 3) {
                        add(&mut edges, lo + a, lo + (a + 1) % k);
                    }
                }
                if let Some((plo, pk)) = prev {
                    let (x, y) = (plo + rng.below(pk), lo + rng.below(k));
                    if down { add(&mut edges, x, y) } else { add(&mut edges, y, x) }
                }
                prev = Some((lo, k));
                lo += k;
            }
            "chain-of-rings"
        }
        5 => {
            for a in 0..f {
                for b in 0..f {
                    add(&mut edges, a, b);
                }
            }
            "complete"
        }
        6 => {
            // acyclic: calls go to larger (or smaller) ids only
            let up = rng.chance(1, 2);
            for a in 0..f {
                for b in 0..f {
                    if a != b && (a < b) == up && rng.chance(1, 3) {
                        add(&mut edges, a, b);
                    }
                }
            }
            "dag"
        }
        7 => {
            // the root calls everything, leaves call nothing; a few self calls
            for b in 1..f {
                add(&mut edges, 0, b);
            }
            for a in 0..f {
                if rng.chance(1, 4) {
                    add(&mut edges, a, a);
                }
            }
            "star+self"
        }
        8 => {
            // two rings that share a function, everything else apart
            let k = 1 + rng.below(f);
            let j = rng.below(k) + 1;
            for a in 0..j {
                add(&mut edges, a, (a + 1) % j);
            }
            for a in (j - 1)..k {
                add(&mut edges, a, if a + 1 < k { a + 1 } else { j - 1 });
            }
            "two-rings"
        }
        9 => {
            // a long call chain towards a ring at the end (many sweeps of nothing, then the ring)
            let k = 1 + rng.below(f.min(8));
            for a in 0..f - k {
                add(&mut edges, a, a + 1);
            }
            for a in 0..k {
                add(&mut edges, f - k + a, f - k + (a + 1) % k);
            }
            "chain-to-ring"
        }
        _ => {
            // random with a given out-degree
            let deg = 1 + rng.below(4);
            for a in 0..f {
                for _ in 0..deg {
                    add(&mut edges, a, rng.below(f));
                }
            }
            "regular"
        }
    };
    let (num, den) = *rng.pick(&[(0, 1), (1, 8), (1, 3), (1, 1)]);
    let fns = edges
        .into_iter()
        .map(|callees| DirectFn {
            callees,
            reads: if locals == 0 { Vec::new() } else { subset(rng, locals, num, den) },
            writes: if locals == 0 || rng.chance(1, 2) { Vec::new() } else { subset(rng, locals, num, den * 2) },
            stmts: (0..rng.below(4)).map(|_| *rng.pick(&[0u8, 0, 0, 1, 1, 2])).collect(),
        })
        .collect();
    (shape, locals, fns)
}

/// Events the fixpoint needs: the least budget that leaves every summary available (the runs with
/// different budgets are prefixes of each other, so the condition is monotone).
fn events_needed(locals: u64, fns: &[DirectFn]) -> Option<u64> {
    let ok = |b: u64| real_summaries(locals, fns, &[b])[0].iter().all(|r| r.available);
    let mut hi = u64::try_from(summary_bound(fns.len(), locals)).ok()?;
    if !ok(hi) {
        return None;
    }
    let mut lo = 0u64;
    while lo < hi {
        let mid = lo + (hi - lo) / 2;
        if ok(mid) { hi = mid } else { lo = mid + 1 }
    }
    Some(hi)
}

fn gen_summ(args: &[String]) -> i32 {
    util::silence_panics();
    let seed = util::opt_u64(args, "--seed", 1);
    let n = util::opt_u64(args, "--n", 100);
    let fmax = util::opt_u64(args, "--fmax", 40).max(4);
    let mut rng = Rng::new(seed ^ 0x5_0AA5);
    let mut out = util::Out::new();
    let mut stats = std::collections::BTreeMap::<String, u64>::new();
    let mut bump = |k: &str, by: u64| *stats.entry(k.to_string()).or_insert(0) += by;
    let mut made = 0u64;
    let mut attempts = 0u64;
    while made < n && attempts < 4 * n + 16 {
        attempts += 1;
        let (shape, locals, mut fns) = if rng.chance(1, 4) {
            match directs_of_source(&summ_source(&mut rng)) {
                Ok((l, fns)) => ("resolver", l, fns),
                Err(m) => {
                    bump("source_generator_failure", 1);
                    eprintln!("GEN-NOTE {m}");
                    continue;
                }
            }
        } else {
            summ_graph(&mut rng, fmax)
        };
        // malformed: what the resolver never records (the accounting theorem assumes it away, the
        // correspondence does not)
        let mut kind = shape.to_string();
        if shape != "resolver" && rng.chance(1, 25) {
            let i = rng.below(fns.len() as u64) as usize;
            if rng.chance(1, 2) {
                let bad = fns.len() as u32 + rng.below(3) as u32;
                fns[i].callees.push(bad);
                kind = "malformed-callee-out-of-range".to_string();
            } else {
                let d = &mut fns[i];
                let v = match rng.below(3) {
                    0 => &mut d.callees,
                    1 => &mut d.reads,
                    _ => &mut d.writes,
                };
                if let Some(&x) = v.first() {
                    v.push(x);
                    kind = "malformed-duplicate".to_string();
                }
            }
        }
        let bound = u64::try_from(summary_bound(fns.len(), locals)).unwrap_or(u64::MAX);
        let needed = util::catch(|| events_needed(locals, &fns)).ok().flatten();
        let mut budgets = vec![bound, bound.saturating_sub(1), 0];
        match needed {
            Some(e) => {
                budgets.extend([e, e.saturating_sub(1), e / 2]);
                if e > 0 {
                    budgets.extend([rng.below(e), rng.below(e)]);
                }
                if e == bound {
                    bump("programs_needing_exactly_the_bound", 1);
                }
            }
            None => bump("programs_without_sufficient_budget_or_panicking", 1),
        }
        budgets.sort_unstable();
        budgets.dedup();
        for &b in budgets.iter().rev() {
            out.line(&summ_request(b, locals, &fns));
        }
        bump("summ_requests", budgets.len() as u64);
        bump(&format!("shape_{kind}"), 1);
        made += 1;
    }
    let s: Vec<String> = stats.iter().map(|(k, v)| format!("{k}={v}")).collect();
    eprintln!("GEN-STATS programs={made} {}", s.join(" "));
    0
}
