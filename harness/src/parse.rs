//! Family `parse` (C01 precedence, C07 parser part, C10 parser part): the real `Parser`.
//!
//! Protocol (one request per line, one answer per line):
//! ```text
//! parse <hex src> <tokens>   -> diags=<D> labels=<L> ast=<A> end=<ok|panic>
//! ```
//! `<tokens>` = `lex::toks_str(src)` (the generator computes it with the real lexer; the Lean model
//! parses that list, the harness parses `src` with the real `Lexer` + `Parser`). `<D>`/`<L>` are the
//! **syntax** diagnostics only, in `pipeline::diags_str` / `labels_str` form: the parser puts the
//! lexer's diagnostics in front of its own, and those carry the code `lexical`, so the leading
//! `lexical` entries are dropped (the lexer is lazy: it has only produced the diagnostics of the
//! tokens the parser pulled, so they cannot be counted by running the lexer alone). `<A>` =
//! `astio::program` with spans, annotations all `_`.
//!
//! Oracle (needs no model): every span in the AST and in every diagnostic / label is `0:0` or
//! satisfies `lo <= hi <= |src|` with both ends on `is_char_boundary`. `ORACLE-FAIL <line> <what>`.
//!
//! `nvh parse gen --seed S --n N --kind prog|mut|deep|mix`   request lines from the generators
//! `nvh parse gen --seed S --n N --kind pairs`               2N lines: a program, then the same tokens
//!                                                            re-laid-out (+ redundant parentheses at the
//!                                                            wrap points of `G`: every `parse_expression(0)`
//!                                                            position, every atom, the head and every prefix
//!                                                            of a postfix chain — also under a unary
//!                                                            operator —, callee names, receiver literals)
//! `nvh parse mkreq`                                          stdin: one hex source per line -> request lines
//! `nvh parse run`                                            answer request lines

use naijascript::arena::Arena;
use naijascript::diagnostics::{Diagnostic, Span};
use naijascript::syntax::parser::{Block, Expr, ExprRef, Parser, Stmt, StmtRef};
use naijascript::syntax::scanner::Lexer;

use crate::astio::{self, Opts};
use crate::lex;
use crate::pipeline;
use crate::util::{self, Out, Rng};

pub fn main(args: &[String]) -> i32 {
    match args.first().map(String::as_str) {
        Some("gen") => generate(&args[1..]),
        Some("mkreq") => mkreq(),
        Some("run") => run(),
        _ => {
            eprintln!("usage: nvh parse gen --seed S --n N --kind prog|mut|deep|mix|pairs | nvh parse mkreq | nvh parse run");
            2
        }
    }
}

/// Constants/tables of the compiled crate this family wants in `nvh dump-tables`: none (the
/// binding-power table is private to `parser.rs`; `extract/gen_parse.py` reads it from the source).
pub fn dump_tables(_out: &mut Vec<(String, String)>) {}

// ------------------------------------------------------------------------------------------------
// run
// ------------------------------------------------------------------------------------------------

fn diag_str(x: &Diagnostic<'_>) -> String {
    format!(
        "{}:{}:{}:{}:{}",
        pipeline::sev_name(x.severity),
        x.code,
        x.message.replace([' ', ',', ':'], "_"),
        x.span.start,
        x.span.end
    )
}

fn diags_str(ds: &[Diagnostic<'_>]) -> String {
    if ds.is_empty() {
        return "-".to_string();
    }
    ds.iter().map(diag_str).collect::<Vec<_>>().join(",")
}

fn labels_str(ds: &[Diagnostic<'_>]) -> String {
    if ds.is_empty() {
        return "-".to_string();
    }
    ds.iter()
        .map(|x| {
            if x.labels.is_empty() {
                "-".to_string()
            } else {
                x.labels.iter().map(|l| format!("{}:{}", l.span.start, l.span.end)).collect::<Vec<_>>().join(";")
            }
        })
        .collect::<Vec<_>>()
        .join(",")
}

fn expr_spans<'a>(e: ExprRef<'a>, out: &mut Vec<(&'static str, Span)>) {
    match e {
        Expr::Index { array, index, index_span, span } => {
            out.push(("index.index_span", *index_span));
            out.push(("index", *span));
            expr_spans(array, out);
            expr_spans(index, out);
        }
        Expr::String { span, .. } => out.push(("string", *span)),
        Expr::Number(_, span) => out.push(("number", *span)),
        Expr::Var(_, span) => out.push(("var", *span)),
        Expr::Binary { lhs, rhs, span, .. } => {
            out.push(("binary", *span));
            expr_spans(lhs, out);
            expr_spans(rhs, out);
        }
        Expr::Call { callee, args, span } => {
            out.push(("call", *span));
            expr_spans(callee, out);
            for a in args.args {
                expr_spans(a, out);
            }
        }
        Expr::Array { elements, span } => {
            out.push(("array", *span));
            for a in *elements {
                expr_spans(a, out);
            }
        }
        Expr::Unary { expr, span, .. } => {
            out.push(("unary", *span));
            expr_spans(expr, out);
        }
        Expr::Bool(_, span) => out.push(("bool", *span)),
        Expr::Member { object, field_span, span, .. } => {
            out.push(("member.field_span", *field_span));
            out.push(("member", *span));
            expr_spans(object, out);
        }
        Expr::Null(span) => out.push(("null", *span)),
    }
}

fn stmt_spans<'a>(s: StmtRef<'a>, out: &mut Vec<(&'static str, Span)>) {
    match s {
        Stmt::FunctionDef { name_span, params, body, span, .. } => {
            out.push(("fn.name_span", *name_span));
            out.push(("fn", *span));
            for p in params.param_spans {
                out.push(("fn.param", *p));
            }
            block_spans(body, out);
        }
        Stmt::Assign { var_span, expr, span, .. } => {
            out.push(("let.var_span", *var_span));
            out.push(("let", *span));
            expr_spans(expr, out);
        }
        Stmt::AssignExisting { var_span, expr, span, .. } => {
            out.push(("set.var_span", *var_span));
            out.push(("set", *span));
            expr_spans(expr, out);
        }
        Stmt::AssignIndex { target, expr, span } => {
            out.push(("seti", *span));
            expr_spans(target, out);
            expr_spans(expr, out);
        }
        Stmt::If { cond, then_b, else_b, span } => {
            out.push(("if", *span));
            expr_spans(cond, out);
            block_spans(then_b, out);
            if let Some(b) = else_b {
                block_spans(b, out);
            }
        }
        Stmt::Loop { cond, body, span } => {
            out.push(("loop", *span));
            expr_spans(cond, out);
            block_spans(body, out);
        }
        Stmt::Block { block, span } => {
            out.push(("blk", *span));
            block_spans(block, out);
        }
        Stmt::Return { expr, span } => {
            out.push(("ret", *span));
            if let Some(e) = expr {
                expr_spans(e, out);
            }
        }
        Stmt::Break { span } => out.push(("brk", *span)),
        Stmt::Continue { span } => out.push(("cont", *span)),
        Stmt::Expression { expr, span } => {
            out.push(("expr", *span));
            expr_spans(expr, out);
        }
    }
}

fn block_spans<'a>(b: &'a Block<'a>, out: &mut Vec<(&'static str, Span)>) {
    out.push(("block", b.span));
    for s in b.stmts {
        stmt_spans(s, out);
    }
}

fn span_bad(src: &str, s: &Span) -> Option<&'static str> {
    if s.start == 0 && s.end == 0 {
        return None;
    }
    if s.start > s.end {
        return Some("start>end");
    }
    if s.end > src.len() {
        return Some("end>len");
    }
    if !src.is_char_boundary(s.start) || !src.is_char_boundary(s.end) {
        return Some("not-char-boundary");
    }
    None
}

/// (answer, oracle failure)
fn parse_real(src: &str) -> (String, Option<String>) {
    let arena = Arena::new(pipeline::ARENA_CAP).unwrap();
    let lexer = Lexer::new(src, &arena);
    let mut parser = Parser::new(lexer, &arena);
    let (root, errs) = parser.parse_program();
    let all = &errs.diagnostics;
    let n_lex = all.iter().take_while(|d| d.code == "lexical").count();
    let syn = &all[n_lex..];
    let mut fail = None;
    if let Some(d) = syn.iter().find(|d| d.code != "syntax") {
        fail = Some(format!("non-syntax diagnostic after the lexical prefix: {}", diag_str(d)));
    }
    let mut spans = Vec::new();
    block_spans(root, &mut spans);
    for (what, s) in &spans {
        if let Some(why) = span_bad(src, s) {
            fail.get_or_insert(format!("ast span {what} {}:{} {why}", s.start, s.end));
        }
    }
    for d in all.iter() {
        if let Some(why) = span_bad(src, &d.span) {
            fail.get_or_insert(format!("diag span {} {why}", diag_str(d)));
        }
        for l in &d.labels {
            if let Some(why) = span_bad(src, &l.span) {
                fail.get_or_insert(format!("label span {}:{} of {} {why}", l.span.start, l.span.end, diag_str(d)));
            }
        }
    }
    let ans = format!(
        "diags={} labels={} ast={} end=ok",
        diags_str(syn),
        labels_str(syn),
        astio::program(&Opts { spans: true, facts: None }, root)
    );
    (ans, fail)
}

fn answer_line(line: &str) -> (String, Option<String>) {
    let w: Vec<&str> = line.split_whitespace().collect();
    match w.as_slice() {
        ["parse", src, _toks] => {
            let Some(bytes) = util::unhex(src) else { return ("bad-op".into(), None) };
            let Ok(text) = String::from_utf8(bytes) else { return ("bad-utf8".into(), None) };
            match util::catch(|| parse_real(&text)) {
                Ok(r) => r,
                Err(m) => (
                    "diags=? labels=? ast=? end=panic".to_string(),
                    Some(format!("parser panicked: {}", m.replace('\n', " "))),
                ),
            }
        }
        _ => ("bad-op".into(), None),
    }
}

fn run() -> i32 {
    util::silence_panics();
    let mut out = Out::new();
    for (i, line) in util::stdin_lines().iter().enumerate() {
        let (ans, fail) = answer_line(line);
        out.line(&ans);
        if let Some(f) = fail {
            eprintln!("ORACLE-FAIL {} {}", i + 1, f);
        }
    }
    0
}

// ------------------------------------------------------------------------------------------------
// requests
// ------------------------------------------------------------------------------------------------

fn req(out: &mut Out, src: &str) {
    out.line(&format!("parse {} {}", util::hex(src.as_bytes()), lex::toks_str(src)));
}

fn mkreq() -> i32 {
    let mut out = Out::new();
    for line in util::stdin_lines() {
        let Some(bytes) = util::unhex(line.trim()) else { continue };
        let Ok(text) = String::from_utf8(bytes) else { continue };
        req(&mut out, &text);
    }
    0
}

// ------------------------------------------------------------------------------------------------
// generators: programs are built as lists of token texts, then laid out
// ------------------------------------------------------------------------------------------------

const NAMES: &[&str] = &["x", "y", "foo", "bar_1", "_t", "n", "arr", "shout", "s"];
const FIELDS: &[&str] = &["len", "push", "pop", "abs", "slice", "to_uppercase", "f"];
const BINOPS: &[&str] =
    &["add", "minus", "times", "divide", "mod", "na", "pass", "small pass", "and", "or"];

struct G {
    rng: Rng,
    t: Vec<String>,
    /// Variant mode (`--kind pairs`): a second token vector that receives every token of `t` plus
    /// redundant parentheses at the wrap points. The parentheses are drawn from this separate `Rng`,
    /// never from `rng`, so `t` is the same with and without variant mode.
    v: Option<(Rng, Vec<String>)>,
}

impl G {
    fn p(&mut self, s: &str) {
        self.t.push(s.to_string());
        if let Some((_, v)) = &mut self.v {
            v.push(s.to_string());
        }
    }

    /// Wrap point, opening side: in variant mode push 0, 1 or (rarely) 2 `(` into the second vector
    /// only. Returns how many were pushed; `wrap_close` pushes as many `)`.
    fn wrap_open(&mut self) -> u32 {
        let Some((r, v)) = &mut self.v else { return 0 };
        let k = if r.chance(1, 3) {
            if r.chance(1, 8) { 2 } else { 1 }
        } else {
            0
        };
        for _ in 0..k {
            v.push("(".to_string());
        }
        k
    }

    fn wrap_close(&mut self, k: u32) {
        if let Some((_, v)) = &mut self.v {
            for _ in 0..k {
                v.push(")".to_string());
            }
        }
    }

    /// Position in the variant vector (0 outside variant mode): where a sub-expression starts.
    fn vpos(&self) -> usize {
        self.v.as_ref().map_or(0, |(_, v)| v.len())
    }

    /// Wrap point for what was emitted since `start` (a primary followed by postfix operators, i.e. a
    /// prefix of a postfix chain): in variant mode, sometimes, `(` is inserted at `start` and `)`
    /// appended. `hot` = the chain is the operand of a unary operator (wrapped more often).
    fn wrap_since(&mut self, start: usize, hot: bool) {
        if let Some((r, v)) = &mut self.v
            && r.chance(1, if hot { 3 } else { 5 })
        {
            v.insert(start, "(".to_string());
            v.push(")".to_string());
        }
    }

    /// Wrap point around a primary that is FOLLOWED BY POSTFIX OPERATORS (member, index, call) and may
    /// stand under a unary operator: `minus (x).abs()`, `not (a)[1]`, `(f)(1)`. Wrapped more often than
    /// other atoms: the group is a primary like any other, the operators after `)` must still apply to
    /// it before any prefix operator does.
    fn head_open(&mut self, hot: bool) -> u32 {
        let Some((r, v)) = &mut self.v else { return 0 };
        let k = if r.chance(if hot { 2 } else { 1 }, 3) {
            if r.chance(1, 8) { 2 } else { 1 }
        } else {
            0
        };
        for _ in 0..k {
            v.push("(".to_string());
        }
        k
    }

    /// An expression in a position where the parser calls `parse_expression(0)`: the value of an
    /// assignment / `return`, a call argument, an array element, an index, the inside of `( )`, an
    /// `if to say` / `jasi` condition. There `e` and `( e )` give the same tree. The other wrap points
    /// are the primaries: atoms (`atom`), the head of a postfix chain, a callee name, the receiver
    /// literal of a method call (`head_open`), and every prefix of a postfix chain (`wrap_since`) —
    /// a parenthesised group is a primary wherever a primary may stand, under a unary operator too.
    fn expr0(&mut self, d: u32) {
        let k = self.wrap_open();
        self.expr(d);
        self.wrap_close(k);
    }

    fn name(&mut self) -> String {
        (*self.rng.pick(NAMES)).to_string()
    }

    fn number(&mut self) -> String {
        match self.rng.below(6) {
            0 => "0".into(),
            1 => self.rng.below(10).to_string(),
            2 => self.rng.below(100000).to_string(),
            3 => format!("{}.{}", self.rng.below(100), self.rng.below(1000)),
            4 => "3.14".into(),
            _ => format!("{}.0", self.rng.below(50)),
        }
    }

    /// A string literal token text. Braces in every shape the template scanner distinguishes.
    fn string(&mut self) -> String {
        const PIECES: &[&str] = &[
            "hi", " ", "a b", "{x}", "{foo}", "{ x }", "{  bar_1\t}", "{{", "}}", "}", "{", "{}", "{ }", "{1x}", "{x y}",
            "{x", "{x.y}", "{_t}", "{{x}}", "}{", "é", "€", "😀", "naïve", "{é}", "{x}{y}", "{{{x}}}", "{x }}", "%", ":", ",",
        ];
        const ESCAPES: &[&str] = &["\\n", "\\t", "\\\\", "\\q"];
        let quote = if self.rng.chance(3, 4) { '"' } else { '\'' };
        let mut s = String::new();
        s.push(quote);
        let k = self.rng.below(5);
        for _ in 0..k {
            if self.rng.chance(1, 8) {
                s.push_str(self.rng.pick(ESCAPES));
            } else if self.rng.chance(1, 16) {
                s.push('\\');
                s.push(quote);
            } else {
                s.push_str(self.rng.pick(PIECES));
            }
        }
        if !self.rng.chance(1, 40) {
            s.push(quote); // rarely unterminated
        }
        s
    }

    fn args(&mut self, d: u32, open: &str, close: &str) {
        self.p(open);
        let k = match self.rng.below(8) {
            0 | 1 => 0,
            2 | 3 | 4 => 1,
            5 | 6 => 2,
            _ => 3,
        };
        for i in 0..k {
            if i > 0 {
                self.p(",");
            }
            self.expr0(d + 1);
        }
        if k > 0 && self.rng.chance(1, 10) {
            self.p(","); // trailing comma
        }
        self.p(close);
    }

    fn atom(&mut self) {
        let k = self.wrap_open();
        self.atom_inner();
        self.wrap_close(k);
    }

    fn atom_inner(&mut self) {
        match self.rng.below(9) {
            0 | 1 => {
                let n = self.number();
                self.p(&n)
            }
            2 | 3 => {
                let n = self.name();
                self.p(&n)
            }
            4 | 5 => {
                let s = self.string();
                self.p(&s)
            }
            6 => self.p("true"),
            7 => self.p("false"),
            _ => self.p("null"),
        }
    }

    fn expr(&mut self, d: u32) {
        let deep = d >= 5;
        let c = if deep { self.rng.below(3) } else { self.rng.below(14) };
        match c {
            0..=2 => self.atom(),
            3..=5 => {
                // binary chain
                self.expr(d + 1);
                let k = 1 + self.rng.below(3);
                for _ in 0..k {
                    let op = *self.rng.pick(BINOPS);
                    self.p(op);
                    self.expr(d + 1);
                }
            }
            6 => {
                let op = if self.rng.chance(1, 2) { "not" } else { "minus" };
                self.p(op);
                // half of the operands are postfix chains: `minus x.abs()`, `not a[1]`, `minus f(1)`
                // (postfix binds tighter than the prefix operator, whatever the head looks like)
                match self.rng.below(4) {
                    0 | 1 => self.postfix_chain(d + 1, true),
                    2 => self.literal_method(d + 1, true),
                    _ => self.expr(d + 1),
                }
            }
            7 => {
                self.p("(");
                self.expr0(d + 1);
                self.p(")");
            }
            8 => self.args(d, "[", "]"),
            9..=11 => self.postfix_chain(d, false),
            12 => self.literal_method(d, false),
            _ => {
                let start = self.vpos();
                let n = self.name();
                let k = self.head_open(false);
                self.p(&n);
                self.wrap_close(k);
                self.args(d, "(", ")");
                self.wrap_since(start, false);
            }
        }
    }

    /// A primary followed by 1–3 postfix operators (call, index, member). Wrap points (variant mode):
    /// the head, and every prefix of the chain — `(x).f(1)[2]`, `(x.f)(1)[2]`, `(x.f(1))[2]`.
    /// `hot`: the chain is the operand of a unary operator.
    fn postfix_chain(&mut self, d: u32, hot: bool) {
        let start = self.vpos();
        let k = self.head_open(hot);
        match self.rng.below(4) {
            0 => {
                self.p("(");
                self.expr0(d + 1);
                self.p(")");
            }
            1 => self.args(d, "[", "]"),
            _ => {
                let n = self.name();
                self.p(&n)
            }
        }
        self.wrap_close(k);
        let k = 1 + self.rng.below(3);
        for _ in 0..k {
            match self.rng.below(3) {
                0 => self.args(d, "(", ")"),
                1 => {
                    self.p("[");
                    self.expr0(d + 1);
                    self.p("]");
                }
                _ => {
                    self.p(".");
                    let f = *self.rng.pick(FIELDS);
                    self.p(f);
                }
            }
            self.wrap_since(start, hot);
        }
    }

    /// Method call on a literal: `"s".len()`, `2.5.abs()`; the literal is a wrap point.
    fn literal_method(&mut self, d: u32, hot: bool) {
        let start = self.vpos();
        let s = if self.rng.chance(1, 2) { self.string() } else { format!("{}.5", self.rng.below(9)) };
        let k = self.head_open(hot);
        self.p(&s);
        self.wrap_close(k);
        self.p(".");
        let f = *self.rng.pick(FIELDS);
        self.p(f);
        self.wrap_since(start, hot);
        self.args(d, "(", ")");
        self.wrap_since(start, hot);
    }

    fn block(&mut self, d: u32) {
        self.p("start");
        let k = if d >= 3 { self.rng.below(2) } else { self.rng.below(4) };
        for _ in 0..k {
            self.stmt(d + 1);
        }
        self.p("end");
    }

    fn stmt(&mut self, d: u32) {
        match self.rng.below(16) {
            0..=2 => {
                self.p("make");
                let n = self.name();
                self.p(&n);
                if !self.rng.chance(1, 10) {
                    self.p("get");
                    self.expr0(0);
                }
            }
            3 | 4 => {
                let n = self.name();
                self.p(&n);
                self.p("get");
                self.expr0(0);
            }
            5 => {
                // index assignment
                let n = self.name();
                self.p(&n);
                let k = 1 + self.rng.below(2);
                for _ in 0..k {
                    self.p("[");
                    self.expr0(1);
                    self.p("]");
                }
                self.p("get");
                self.expr0(0);
            }
            6 | 7 => {
                self.p("if to say");
                self.p("(");
                self.expr0(0);
                self.p(")");
                self.block(d);
                if self.rng.chance(1, 2) {
                    self.p("if not so");
                    self.block(d);
                }
            }
            8 => {
                self.p("jasi");
                self.p("(");
                self.expr0(0);
                self.p(")");
                self.block(d);
            }
            9 => {
                self.p("do");
                let n = self.name();
                self.p(&n);
                self.p("(");
                let k = self.rng.below(4);
                for i in 0..k {
                    if i > 0 {
                        self.p(",");
                    }
                    let n = self.name();
                    self.p(&n);
                }
                if k > 0 && self.rng.chance(1, 12) {
                    self.p(",");
                }
                self.p(")");
                self.block(d);
            }
            10 => {
                self.p("return");
                // a bare `return` is only unambiguous before `end` / EOF; elsewhere the parser
                // takes the next tokens as the value — both are exercised
                if self.rng.chance(3, 4) {
                    self.expr0(0);
                }
            }
            11 => self.p("comot"),
            12 => self.p("next"),
            13 => self.block(d),
            _ => {
                // expression statement: starts with an identifier
                let n = self.name();
                self.p(&n);
                let k = self.rng.below(3);
                for _ in 0..=k {
                    match self.rng.below(4) {
                        0 | 1 => self.args(1, "(", ")"),
                        2 => {
                            self.p(".");
                            let f = *self.rng.pick(FIELDS);
                            self.p(f);
                        }
                        _ => {
                            self.p("[");
                            self.expr0(1);
                            self.p("]");
                        }
                    }
                }
                if self.rng.chance(1, 6) {
                    let op = *self.rng.pick(BINOPS);
                    self.p(op);
                    self.expr(1);
                }
            }
        }
    }

    fn program(&mut self) {
        let k = 1 + self.rng.below(6);
        for _ in 0..k {
            self.stmt(0);
        }
    }
}

/// Join token texts: mostly single spaces, sometimes newlines / tabs / CRLF / comments.
fn layout(rng: &mut Rng, toks: &[String]) -> String {
    let style = rng.below(5);
    let mut s = String::new();
    for (i, t) in toks.iter().enumerate() {
        if i > 0 {
            match style {
                0 => s.push(' '),
                1 => s.push('\n'),
                2 => s.push_str(*rng.pick(&[" ", "  ", "\t", "\n", "\r\n", " \n "])),
                3 => s.push_str(*rng.pick(&[" ", " ", "\n", " # note\n", "\r"])),
                _ => s.push_str(if rng.chance(1, 6) { "\n" } else { " " }),
            }
        }
        s.push_str(t);
    }
    if rng.chance(1, 8) {
        s.push_str(*rng.pick(&["\n", " ", " # tail", "\r\n"]));
    }
    s
}

const VOCAB: &[&str] = &[
    "make", "get", "add", "minus", "times", "divide", "mod", "and", "or", "not", "jasi", "start", "end", "comot",
    "next", "na", "pass", "small pass", "if to say", "if not so", "do", "return", "true", "false", "null", "(", ")",
    "[", "]", ",", ".", "x", "foo", "7", "2.5", "\"s\"", "\"a{x}b\"", "'q'", "@", "é", "if", "small", "\"{\"",
];

fn mutate(rng: &mut Rng, toks: &mut Vec<String>) {
    let k = 1 + rng.below(3);
    for _ in 0..k {
        if toks.is_empty() {
            toks.push((*rng.pick(VOCAB)).to_string());
            continue;
        }
        let i = rng.below(toks.len() as u64) as usize;
        match rng.below(7) {
            0 | 1 => {
                toks.remove(i);
            }
            2 => {
                let t = toks[i].clone();
                toks.insert(i, t);
            }
            3 => {
                if i + 1 < toks.len() {
                    toks.swap(i, i + 1);
                }
            }
            4 | 5 => toks[i] = (*rng.pick(VOCAB)).to_string(),
            _ => toks.insert(i, (*rng.pick(VOCAB)).to_string()),
        }
    }
    if rng.chance(1, 10) {
        let cut = rng.below(toks.len() as u64 + 1) as usize;
        toks.truncate(cut);
    }
}

fn gen_deep(rng: &mut Rng) -> String {
    // nesting depth <= 200 (deeper input overflows the native stack of the real parser: D-08)
    let n = 20 + rng.below(150) as usize;
    match rng.below(7) {
        0 => format!("make x get {}1{}", "( ".repeat(n), " )".repeat(n)),
        1 => format!("make x get {}true", "not ".repeat(n)),
        2 => format!("make x get {}1{}", "[ ".repeat(n), " ]".repeat(n)),
        3 => format!("{}comot {}", "start ".repeat(n), "end ".repeat(n)),
        4 => format!("make x get {}1", "1 add ".repeat(n)),
        5 => format!("make x get f{}", "(f".repeat(n)), // unclosed calls
        _ => format!("x{} get 1", "[0]".repeat(n)),
    }
}

/// Span-free token texts (`lex::tok_payload`) the real lexer yields for `src`; None if it panics.
fn payloads(src: &str) -> Option<Vec<String>> {
    util::catch(|| {
        let arena = Arena::new(pipeline::ARENA_CAP).unwrap();
        let mut lexer = Lexer::new(src, &arena);
        lex::drive(&mut lexer).iter().map(|t| lex::tok_payload(&t.token)).collect::<Vec<_>>()
    })
    .ok()
}

/// Does the real parser accept `src` without any syntax diagnostic? (Lexical ones, e.g. an unknown
/// escape in a string, do not touch the token sequence the parser sees.)
fn clean(src: &str) -> bool {
    util::catch(|| {
        let arena = Arena::new(pipeline::ARENA_CAP).unwrap();
        let lexer = Lexer::new(src, &arena);
        let mut parser = Parser::new(lexer, &arena);
        let (_, errs) = parser.parse_program();
        errs.diagnostics.iter().all(|d| d.code == "lexical")
    })
    .unwrap_or(false)
}

/// `--kind pairs`: 2 request lines per case. Line 1 = a `G` program in one layout; line 2 = the same
/// token sequence in another random layout and, when line 1 parses without syntax diagnostics, with
/// redundant parentheses at the wrap points of `G` (an invalid program is only re-laid-out: inside
/// error recovery a `)` is a synchronisation token, so parentheses are not redundant there).
/// 1/3 of the pairs use a mutated token list (re-layout only). A pair is dropped and redrawn unless
/// each text lexes to the token sequence of its own token list joined by single spaces (an
/// unterminated string or `small` / `if` next to a comment would make the layout significant).
fn gen_pairs(seed: u64, n: u64) -> i32 {
    util::silence_panics();
    let mut rng = Rng::new(seed ^ 0x7061_6972_73);
    let mut out = Out::new();
    let mut done = 0;
    while done < n {
        let mutated = rng.below(3) == 0;
        let grng = rng.fork();
        let vrng = rng.fork();
        let mut g = G { rng: grng, t: Vec::new(), v: Some((vrng, Vec::new())) };
        g.program();
        let mut a = g.t;
        let mut b = g.v.map(|x| x.1).unwrap_or_default();
        if mutated {
            mutate(&mut rng, &mut a);
            b = a.clone();
        }
        let src1 = layout(&mut rng, &a);
        if !mutated && !clean(&src1) {
            b = a.clone();
        }
        let mut src2 = layout(&mut rng, &b);
        for _ in 0..4 {
            if src2 != src1 {
                break;
            }
            src2 = layout(&mut rng, &b);
        }
        let canon_a = payloads(&a.join(" "));
        let canon_b = payloads(&b.join(" "));
        if canon_a.is_none() || canon_b.is_none() || payloads(&src1) != canon_a || payloads(&src2) != canon_b {
            continue;
        }
        // parentheses were placed around token *texts*: every text must be exactly one token (a string
        // left open at the end of the input lexes as an empty string followed by its content)
        if b.len() != a.len() && canon_b.as_ref().is_some_and(|p| p.len() != b.len() + 1) {
            continue;
        }
        req(&mut out, &src1);
        req(&mut out, &src2);
        done += 1;
    }
    0
}

fn generate(args: &[String]) -> i32 {
    let seed = util::opt_u64(args, "--seed", 1);
    let n = util::opt_u64(args, "--n", 100);
    let kind = util::opt(args, "--kind").unwrap_or("mix").to_string();
    if kind == "pairs" {
        return gen_pairs(seed, n);
    }
    let mut rng = Rng::new(seed ^ 0x7061_7273_65);
    let mut out = Out::new();
    for i in 0..n {
        let k = match kind.as_str() {
            "prog" => 0,
            "mut" => 1,
            "deep" => 2,
            _ => {
                if i % 50 == 49 {
                    2
                } else if i % 2 == 0 {
                    0
                } else {
                    1
                }
            }
        };
        let src = if k == 2 {
            gen_deep(&mut rng)
        } else {
            let mut g = G { rng: rng.fork(), t: Vec::new(), v: None };
            g.program();
            let mut toks = g.t;
            if k == 1 {
                mutate(&mut rng, &mut toks);
            }
            layout(&mut rng, &toks)
        };
        req(&mut out, &src);
    }
    0
}
