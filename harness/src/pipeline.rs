//! The library pipeline on fresh, separate arenas: lex → parse → resolve (→ run).
//! `with_front_end` hands the caller the parsed root, the parser diagnostics and (if parsing
//! produced no diagnostics, as the CLI does) the resolver.

use naijascript::arena::Arena;
use naijascript::diagnostics::{Diagnostics, Severity};
use naijascript::resolver::Resolver;
use naijascript::syntax::parser::{BlockRef, Parser};
use naijascript::syntax::scanner::Lexer;

pub const ARENA_CAP: usize = 64 << 20;

pub fn sev_name(s: Severity) -> &'static str {
    match s {
        Severity::Error => "error",
        Severity::Warning => "warning",
        Severity::Note => "note",
    }
}

/// `sev:code:message:start:end` per diagnostic, comma separated (`-` when empty).
pub fn diags_str(d: &Diagnostics<'_>) -> String {
    if d.diagnostics.is_empty() {
        return "-".to_string();
    }
    d.diagnostics
        .iter()
        .map(|x| {
            format!(
                "{}:{}:{}:{}:{}",
                sev_name(x.severity),
                x.code,
                x.message.replace([' ', ',', ':'], "_"),
                x.span.start,
                x.span.end
            )
        })
        .collect::<Vec<_>>()
        .join(",")
}

/// Parse `src` on `arena` and call `f(root, parse_diagnostics)`.
pub fn with_parsed<'a, R>(
    src: &'a str,
    arena: &'a Arena,
    f: impl FnOnce(BlockRef<'a>, &Diagnostics<'a>) -> R,
) -> R {
    let lexer = Lexer::new(src, arena);
    let mut parser = Parser::new(lexer, arena);
    let (root, errs) = parser.parse_program();
    f(root, errs)
}

/// Parse and resolve; `f(root, parse_diags, Some(resolver))` — resolver is `None` when the parser
/// reported anything (the CLI stops there).
pub fn with_resolved<'a, R>(
    src: &'a str,
    arena: &'a Arena,
    f: impl FnOnce(BlockRef<'a>, &Diagnostics<'a>, Option<&Resolver<'a, 'a>>) -> R,
) -> R {
    let lexer = Lexer::new(src, arena);
    let mut parser = Parser::new(lexer, arena);
    let (root, errs) = parser.parse_program();
    if !errs.diagnostics.is_empty() {
        return f(root, errs, None);
    }
    let mut resolver = Resolver::new(arena);
    resolver.resolve(root);
    f(root, errs, Some(&resolver))
}

/// Label spans per diagnostic: `lo:hi` joined by `;`, diagnostics joined by `,` (`-` when none).
pub fn labels_str(d: &Diagnostics<'_>) -> String {
    if d.diagnostics.is_empty() {
        return "-".to_string();
    }
    d.diagnostics
        .iter()
        .map(|x| {
            if x.labels.is_empty() {
                "-".to_string()
            } else {
                x.labels.iter().map(|l| format!("{}:{}", l.span.start, l.span.end)).collect::<Vec<_>>().join(";")
            }
        })
        .collect::<Vec<_>>()
        .join(",")
}
