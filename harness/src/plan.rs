//! Family `plan` (property C03): the static analyses that build the optimisation plan, and the
//! plan / no-plan differential.
//!
//! Request (one line):
//! ```text
//! plan <hex src> ast=<annotated AST …> facts=<facts text>
//! ```
//! The generator runs the real front end to produce `ast=` and `facts=` (they are what the Lean model
//! consumes); the Rust side re-runs the front end on `<hex src>` and answers from the real analyses:
//! ```text
//! limit=<none|metric> warns=<kind:lo:hi,…|-> unreach=<ids|-> unusedAsg=<ids|-> unusedVar=<local ids|->
//!   unusedFn=<fn ids|-> removable=<stmt ids|-> fns=<fn ids|-> cls=<N|T|I per statement|-> end=<ok|panic|rejected>
//! ```
//! (one line; ids `.`-separated, ascending). `cls` is the resolver's per-statement effect class.
//! Implementation-level oracle (needs no model): the real `Runtime` is run on the same AST and facts
//! with the plan and with `None`; printed values and the ending must be equal unless one of the runs
//! ended in stack exhaustion → `ORACLE-FAIL <line> plan-changes-behaviour …` on stderr. Each run
//! happens in a forked child (an abort or a hang of the code under test is an ending, not a crash
//! of the harness). The runs are
//! summarised on stderr as `RUNINFO <line> …` (used by the check to count non-trivial cases).
//!
//! `arun` requests tie the evaluator the C03 THEOREMS are about (`Model/AnalysisEval.lean` instantiated
//! with `evalPrims`, `Model/AnalysisPrims.lean`) to the real runtime:
//! ```text
//! arun <hex src> plan=<stmt ids|->;<fn ids|-> | plan=none ast=<annotated AST …> facts=<facts text>
//!   -> arun plan=<the real plan> plain.out=<hex of Display text per printed value,…|none|*> plain.end=<ok|rt:<Kind>|panic|abort:<sig>|hang>
//!        pruned.out=<…> pruned.end=<…>
//! ```
//! The Rust side re-runs the front end on `<hex src>` and runs the real `Runtime` (process execution
//! denied) without the plan (`plain`) and with the resolver's plan (`pruned`), each in a forked child —
//! the same runs the differential oracle makes. `out=*` when the run ends in a panic / abort / hang
//! (the output vector is lost). A source containing `read_line` is answered `arun skip`.
//!
//! Facts text (whitespace free; `_` = none; id lists `.`-separated, `-` when empty):
//! ```text
//! fn=<parent>,<defStmt>,<localsStart>,<localsLen>,<paramCount>,<definingScope>;…|lo=<owner>,<declScope>,<declStmt>,<p|v>;…
//!   |sc=<parent>,<owner>;…|sl=<locals>;…|st=<function>,<scope>,<reads>,<writes>,<callees>,<N|T|I>;…|fd=<callees>,<capReads>,<capWrites>;…|uc=<number of user calls>
//! ```

use std::io::Write;

use naijascript::analysis::cfg;
use naijascript::analysis::diagnostics as adiag;
use naijascript::analysis::effects::ExprClass;
use naijascript::analysis::facts::{LocalKind, ProgramFacts};
use naijascript::analysis::ids::{FunctionId, INVALID_SCOPE_ID, StmtId};
use naijascript::analysis::limits::{self, DEFAULT_CAPS};
use naijascript::analysis::liveness;
use naijascript::analysis::reachability;
use naijascript::analysis::summary;
use naijascript::arena::Arena;
use naijascript::diagnostics::Severity;
use naijascript::resolver::Resolver;
use naijascript::runtime::Runtime;
use naijascript::syntax::parser::{BlockRef, Parser};
use naijascript::syntax::scanner::Lexer;

use crate::astio::{self, Opts};
use crate::util::{self, Rng};

#[path = "plangen.rs"]
mod plangen;

pub fn main(args: &[String]) -> i32 {
    match args.first().map(String::as_str) {
        Some("gen") => gen_main(&args[1..]),
        Some("run") => run_main(&args[1..]),
        Some("req") => req_main(&args[1..]),
        Some("show") => show_main(&args[1..]),
        _ => {
            eprintln!("usage: nvh plan gen --seed S --n N | run | req [--arun] [--hex] (source lines on stdin → requests) | show (source on stdin)");
            2
        }
    }
}

pub fn dump_tables(_out: &mut Vec<(String, String)>) {}

// ------------------------------------------------------------------------------------------------
// text forms

fn ids(v: impl IntoIterator<Item = u32>) -> String {
    let mut v: Vec<u32> = v.into_iter().collect();
    v.sort_unstable();
    v.dedup();
    if v.is_empty() { "-".into() } else { v.iter().map(u32::to_string).collect::<Vec<_>>().join(".") }
}

fn ids_keep(v: impl IntoIterator<Item = u32>) -> String {
    let v: Vec<u32> = v.into_iter().collect();
    if v.is_empty() { "-".into() } else { v.iter().map(u32::to_string).collect::<Vec<_>>().join(".") }
}

fn opt(v: Option<u32>) -> String {
    v.map_or("_".into(), |n| n.to_string())
}

fn class_name(c: ExprClass) -> &'static str {
    match c {
        ExprClass::PureNoTrap => "N",
        ExprClass::PureMayTrap => "T",
        ExprClass::Impure => "I",
    }
}

pub fn facts_text(f: &ProgramFacts<'_, '_>) -> String {
    let semi = |v: Vec<String>| if v.is_empty() { "-".to_string() } else { v.join(";") };
    let fns = f
        .functions
        .iter()
        .map(|i| {
            format!(
                "{},{},{},{},{},{}",
                opt(i.parent.map(|p| p.0)),
                opt(i.def_stmt.map(|s| s.0)),
                i.locals_start,
                i.locals_len,
                i.params.map_or(0, |p| p.params.len()),
                if i.defining_scope == INVALID_SCOPE_ID { "_".to_string() } else { i.defining_scope.0.to_string() }
            )
        })
        .collect();
    let los = f
        .locals
        .iter()
        .map(|l| {
            format!(
                "{},{},{},{}",
                l.owner.0,
                l.declaring_scope.0,
                opt(l.decl_stmt.map(|s| s.0)),
                if l.kind == LocalKind::Parameter { "p" } else { "v" }
            )
        })
        .collect();
    let scs = f.scopes.iter().map(|s| format!("{},{}", opt(s.parent.map(|p| p.0)), s.owner.0)).collect();
    let sls = f.scope_locals.iter().map(|ls| ids_keep(ls.iter().map(|l| l.0))).collect();
    let sts = f
        .stmt_effects
        .iter()
        .map(|s| {
            format!(
                "{},{},{},{},{},{}",
                s.function.0,
                s.scope.0,
                ids_keep(s.reads.iter().map(|l| l.0)),
                ids_keep(s.writes.iter().map(|l| l.0)),
                ids_keep(s.direct_callees.iter().map(|l| l.0)),
                class_name(s.expr_class)
            )
        })
        .collect();
    let fds = f
        .function_directs
        .iter()
        .map(|d| {
            format!(
                "{},{},{}",
                ids_keep(d.direct_callees.iter().map(|l| l.0)),
                ids_keep(d.direct_capture_reads.iter().map(|l| l.0)),
                ids_keep(d.direct_capture_writes.iter().map(|l| l.0))
            )
        })
        .collect();
    format!(
        "fn={}|lo={}|sc={}|sl={}|st={}|fd={}|uc={}",
        semi(fns),
        semi(los),
        semi(scs),
        semi(sls),
        semi(sts),
        semi(fds),
        f.user_calls.len()
    )
}

// ------------------------------------------------------------------------------------------------
// front end

/// Parse + resolve `src`; `f(root, resolver)` when the program is accepted (no parse diagnostics,
/// no resolver errors), else `Err(reason)`.
fn with_accepted<'a, R>(
    src: &'a str,
    arena: &'a Arena,
    f: impl FnOnce(BlockRef<'a>, &Resolver<'a, 'a>) -> R,
) -> Result<R, &'static str> {
    let lexer = Lexer::new(src, arena);
    let mut parser = Parser::new(lexer, arena);
    let (root, errs) = parser.parse_program();
    if !errs.diagnostics.is_empty() {
        return Err("parse");
    }
    let mut resolver = Resolver::new(arena);
    resolver.resolve(root);
    if resolver.errors.has_errors() {
        return Err("resolve");
    }
    Ok(f(root, &resolver))
}

/// The request line for `src` (needs the real front end), or `None` when the program is rejected.
pub fn request_for(src: &str) -> Option<String> {
    let arena = Arena::new(crate::pipeline::ARENA_CAP).unwrap();
    with_accepted(src, &arena, |root, r| {
        format!(
            "plan {} ast={} facts={}",
            util::hex(src.as_bytes()),
            astio::program(&Opts { spans: true, facts: Some(&r.facts) }, root),
            facts_text(&r.facts)
        )
    })
    .ok()
}

fn plan_text(plan: Option<&naijascript::analysis::opt::OptimizationPlan<'_>>, facts: &ProgramFacts<'_, '_>) -> String {
    match plan {
        None => "none".to_string(),
        Some(p) => {
            let n = facts.stmt_effects.len() as u32;
            let nf = facts.functions.len() as u32;
            format!(
                "{};{}",
                ids((0..n).filter(|i| p.contains_removable_stmt(StmtId(*i)))),
                ids((0..nf).filter(|i| p.contains_removable_function_def(FunctionId(*i))))
            )
        }
    }
}

/// The `arun` request line for `src`: as `request_for`, plus the resolver's real plan.
pub fn arun_request_for(src: &str) -> Option<String> {
    let arena = Arena::new(crate::pipeline::ARENA_CAP).unwrap();
    with_accepted(src, &arena, |root, r| {
        format!(
            "arun {} plan={} ast={} facts={}",
            util::hex(src.as_bytes()),
            plan_text(r.optimization_plan.as_ref(), &r.facts),
            astio::program(&Opts { spans: true, facts: Some(&r.facts) }, root),
            facts_text(&r.facts)
        )
    })
    .ok()
}

// ------------------------------------------------------------------------------------------------
// the real analyses

fn warn_kind(msg: &str) -> &'static str {
    match msg {
        "Unreachable code" => "unreachable",
        "Unused assignment" => "unusedAsg",
        "Unused variable" => "unusedVar",
        "Unused function" => "unusedFn",
        "Analysis skipped after reaching a configured resource limit" => "limit",
        _ => "other",
    }
}

/// The answer line and the number of statements the plan removes although the analysis considers
/// them reachable inside a function whose body is reachable (what makes a case non-trivial).
fn analysis_answer<'a>(r: &Resolver<'a, 'a>, arena: &'a Arena) -> (String, usize) {
    let facts = &r.facts;
    let warns: Vec<String> = r
        .errors
        .diagnostics
        .iter()
        .filter(|d| d.severity == Severity::Warning)
        .map(|d| format!("{}:{}:{}", warn_kind(d.message), d.span.start, d.span.end))
        .collect();
    let warns = if warns.is_empty() { "-".to_string() } else { warns.join(",") };
    let cls: String = facts.stmt_effects.iter().map(|s| class_name(s.expr_class)).collect();
    let cls = if cls.is_empty() { "-".to_string() } else { cls };

    let counts = cfg::count_program(facts, arena);
    if let Some(limit) = limits::first_exceeded_limit(facts, &counts, DEFAULT_CAPS) {
        let plan_none = r.optimization_plan.is_none();
        return (
            format!(
                "limit={} warns={} unreach=- unusedAsg=- unusedVar=- unusedFn=- removable=- fns=- cls={} end={}",
                limit.metric.replace(' ', "_"),
                warns,
                cls,
                if plan_none { "ok" } else { "plan-present-over-limit" }
            ),
            0,
        );
    }
    let program = cfg::build_program_with_counts(facts, &counts, arena);
    let reachable = reachability::reachable_statement_mask(&program, arena);
    let summaries = summary::compute_summaries(facts, arena);
    let fr = adiag::compute_function_reachability(&program, facts, &reachable, arena);
    let ua = liveness::unused_assignments(&program, facts, &summaries, &reachable, arena);
    let uv = adiag::unused_variables(&program, facts, &summaries, &reachable, &fr, arena);
    let uf = adiag::unused_functions(facts, &reachable, &fr, arena);
    let unreach = ids(reachable.iter().enumerate().filter(|(_, r)| !**r).map(|(i, _)| i as u32));
    let mut live_removed = 0usize;
    let (removable, fns, end) = match r.optimization_plan.as_ref() {
        Some(plan) => {
            let n = facts.stmt_effects.len() as u32;
            let rem = ids((0..n).filter(|i| plan.contains_removable_stmt(StmtId(*i))));
            live_removed = (0..n)
                .filter(|i| {
                    plan.contains_removable_stmt(StmtId(*i))
                        && reachable[*i as usize]
                        && fr.body_reachable[facts.stmt_effects[*i as usize].function.0 as usize]
                })
                .count();
            let nf = facts.functions.len() as u32;
            let fns = ids((0..nf).filter(|i| plan.contains_removable_function_def(FunctionId(*i))));
            (rem, fns, "ok")
        }
        None => ("-".to_string(), "-".to_string(), "no-plan"),
    };
    (
        format!(
            "limit=none warns={} unreach={} unusedAsg={} unusedVar={} unusedFn={} removable={} fns={} cls={} end={}",
            warns,
            unreach,
            ids(ua.iter().map(|w| w.stmt_id.0)),
            ids(uv.iter().map(|w| w.local.0)),
            ids(uf.iter().map(|w| w.function.0)),
            removable,
            fns,
            cls,
            end
        ),
        live_removed,
    )
}

// ------------------------------------------------------------------------------------------------
// the differential oracle

#[derive(PartialEq, Eq, Debug, Clone)]
pub struct RunResult {
    pub outputs: Vec<String>,
    /// `ok`, `rt:<kind>`, `panic`
    pub ending: String,
}

/// How the `arun` line names a runtime error (the names of `Eval.RtKind`, as in family `run`).
fn kind_name(message: &str) -> &'static str {
    match message {
        "I/O error" => "Io",
        "Division by zero" => "DivisionByZero",
        "Stack overflow" => "StackOverflow",
        "Index out of bounds" => "IndexOutOfBounds",
        "Type mismatch" => "TypeMismatch",
        "Invalid index" => "InvalidIndex",
        "Undefined variable" => "UndefinedVariable",
        "Unsupported process execution" => "ProcessUnsupported",
        "Process execution denied" => "ProcessDenied",
        "Process spawn failed" => "ProcessSpawnFailed",
        "Process timeout" => "ProcessTimeout",
        "Process output limit exceeded" => "ProcessOutputLimitExceeded",
        "Process output no be valid UTF-8" => "ProcessInvalidUtf8",
        "Invalid process configuration" => "ProcessSpecInvalid",
        _ => "Unknown",
    }
}

impl RunResult {
    fn exhausted(&self) -> bool {
        self.ending == "rt:Stack overflow"
    }
    /// `<tag>.out=… <tag>.end=…` of an `arun` answer. `outputs` must come from `DisplayHex` runs.
    fn arun_part(&self, tag: &str) -> String {
        let end = match self.ending.strip_prefix("rt:") {
            Some(m) => format!("rt:{}", kind_name(m)),
            None => self.ending.clone(),
        };
        let lost = !(end == "ok" || end.starts_with("rt:"));
        let out = if lost {
            "*".to_string()
        } else if self.outputs.is_empty() {
            "none".to_string()
        } else {
            self.outputs.join(",")
        };
        format!("{tag}.out={out} {tag}.end={end}")
    }
    fn brief(&self) -> String {
        let mut o = self.outputs.join("|");
        if o.len() > 120 {
            o.truncate(120);
            o.push('…');
        }
        format!("[{}] {}", o, self.ending)
    }
}

fn value_text(v: &naijascript::runtime::Value<'_>) -> String {
    use naijascript::runtime::Value;
    let tag = match v {
        Value::Str(..) => "s",
        Value::Number(n) => {
            return format!("n:{:016x}", if n.is_nan() { f64::NAN.to_bits() } else { n.to_bits() });
        }
        Value::Bool(..) => "b",
        Value::Array(..) => "a",
        Value::Host(..) => "h",
        Value::Null => "z",
    };
    format!("{tag}:{v}")
}

/// How a run is set up and its printed values are rendered.
#[derive(Clone, Copy, PartialEq, Eq)]
pub enum RunMode {
    /// the differential oracle: default host policy, values as `<tag>:<text>` / number bits
    Oracle,
    /// `arun`: process execution denied, values as hex of their `Display` text (what family `run` compares)
    DisplayHex,
}

/// Run the real runtime on a freshly resolved copy of `src`, with the resolver's plan or without.
pub fn run_once(src: &str, with_plan: bool) -> RunResult {
    run_once_mode(src, with_plan, RunMode::Oracle)
}

pub fn run_once_mode(src: &str, with_plan: bool, mode: RunMode) -> RunResult {
    let use_frame = std::env::var("NV_PLAN_FRAME").is_ok();
    let src = src.to_string();
    let r = util::catch(move || {
        let arena = Arena::new(crate::pipeline::ARENA_CAP).unwrap();
        let frame = Arena::new(crate::pipeline::ARENA_CAP).unwrap();
        // SAFETY of lifetimes: everything lives until the end of this closure.
        let lexer = Lexer::new(&src, &arena);
        let mut parser = Parser::new(lexer, &arena);
        let (root, errs) = parser.parse_program();
        if !errs.diagnostics.is_empty() {
            return RunResult { outputs: vec![], ending: "rejected".into() };
        }
        let mut resolver = Resolver::new(&arena);
        resolver.resolve(root);
        if resolver.errors.has_errors() {
            return RunResult { outputs: vec![], ending: "rejected".into() };
        }
        let (facts, plan) = resolver.into_artifacts();
        let fr = if use_frame { Some(&frame) } else { None };
        let mut rt = match mode {
            RunMode::Oracle => Runtime::new(&arena, fr),
            RunMode::DisplayHex => Runtime::new_with_host_policy(
                &arena,
                fr,
                naijascript::process::HostPolicy {
                    allow_process: false,
                    process: naijascript::process::ProcessCaps::defaults(),
                },
            ),
        };
        let plan_ref = if with_plan { plan.as_ref() } else { None };
        let mut outputs = Vec::new();
        let ending;
        {
            let errs = rt.run_with_analysis(root, &facts, plan_ref);
            ending = match errs.diagnostics.iter().find(|d| d.severity == Severity::Error) {
                Some(d) => format!("rt:{}", d.message),
                None => "ok".to_string(),
            };
        }
        for v in &rt.output {
            outputs.push(match mode {
                RunMode::Oracle => value_text(v),
                RunMode::DisplayHex => util::hex(format!("{v}").as_bytes()),
            });
        }
        RunResult { outputs, ending }
    });
    r.unwrap_or_else(|_m| RunResult { outputs: vec![], ending: "panic".into() })
}

/// Run `f` in a forked child and return what it wrote, so that an abort (double panic, UB check,
/// native stack overflow) or a hang in the code under test cannot take the harness down.
/// `Err("abort:<signal>")` / `Err("hang")`.
fn in_child(timeout_secs: u64, f: impl FnOnce() -> String) -> Result<String, String> {
    use std::os::fd::FromRawFd;
    let mut fds = [0i32; 2];
    unsafe {
        if libc::pipe(fds.as_mut_ptr()) != 0 {
            return Err("pipe".into());
        }
        let pid = libc::fork();
        if pid < 0 {
            return Err("fork".into());
        }
        if pid == 0 {
            libc::close(fds[0]);
            let s = f();
            let mut w = std::fs::File::from_raw_fd(fds[1]);
            let _ = w.write_all(s.as_bytes());
            let _ = w.flush();
            libc::_exit(0);
        }
        libc::close(fds[1]);
        let mut buf = Vec::new();
        let start = std::time::Instant::now();
        let mut chunk = [0u8; 65536];
        let mut hung = false;
        loop {
            let mut pfd = libc::pollfd { fd: fds[0], events: libc::POLLIN, revents: 0 };
            let left = (timeout_secs * 1000).saturating_sub(start.elapsed().as_millis() as u64);
            if left == 0 {
                hung = true;
                break;
            }
            let r = libc::poll(&mut pfd, 1, left.min(1000) as i32);
            if r > 0 {
                let n = libc::read(fds[0], chunk.as_mut_ptr().cast(), chunk.len());
                if n <= 0 {
                    break;
                }
                buf.extend_from_slice(&chunk[..n as usize]);
            }
        }
        libc::close(fds[0]);
        if hung {
            libc::kill(pid, libc::SIGKILL);
        }
        let mut status = 0;
        libc::waitpid(pid, &mut status, 0);
        if hung {
            return Err("hang".into());
        }
        if libc::WIFSIGNALED(status) {
            return Err(format!("abort:{}", libc::WTERMSIG(status)));
        }
        Ok(String::from_utf8_lossy(&buf).into_owned())
    }
}

fn run_isolated(src: &str, with_plan: bool, timeout_secs: u64) -> RunResult {
    run_isolated_mode(src, with_plan, timeout_secs, RunMode::Oracle)
}

fn run_isolated_mode(src: &str, with_plan: bool, timeout_secs: u64, mode: RunMode) -> RunResult {
    let r = in_child(timeout_secs, || {
        let r = run_once_mode(src, with_plan, mode);
        let mut s = r.ending.clone();
        for o in &r.outputs {
            s.push('\n');
            s.push_str(&util::hex(o.as_bytes()));
        }
        s
    });
    match r {
        Ok(text) => {
            let mut it = text.split('\n');
            let ending = it.next().unwrap_or("").to_string();
            let outputs = it
                .map(|h| String::from_utf8_lossy(&util::unhex(h).unwrap_or_default()).into_owned())
                .collect();
            RunResult { outputs, ending }
        }
        Err(e) => RunResult { outputs: vec![], ending: e },
    }
}

/// Both runs; `Some(description)` when the property is violated on this program.
pub fn differential(src: &str, timeout_secs: u64) -> (RunResult, RunResult, Option<String>) {
    let with = run_isolated(src, true, timeout_secs);
    let without = run_isolated(src, false, timeout_secs);
    let lost = |r: &RunResult| r.ending == "panic" || r.ending.starts_with("abort");
    let bad = if with.exhausted() || without.exhausted() {
        None
    } else if lost(&with) && lost(&without) {
        // a panic / abort loses the outputs collected so far; both crashing is a C06 / C02 matter
        None
    } else if without.ending == "hang" {
        // the program itself does not terminate (resource exhaustion: not compared)
        None
    } else if with != without {
        Some(format!("plan-changes-behaviour with-plan={} without={}", with.brief(), without.brief()))
    } else {
        None
    };
    (with, without, bad)
}

// ------------------------------------------------------------------------------------------------
// stdout handling: `shout` prints to the real stdout, so answers travel on a duplicate of fd 1 and
// fd 1 itself is pointed at /dev/null while programs run.

struct AnswerOut {
    w: std::io::BufWriter<std::fs::File>,
}

impl AnswerOut {
    fn take_stdout() -> Self {
        use std::os::fd::FromRawFd;
        unsafe {
            let saved = libc::dup(1);
            let devnull = libc::open(c"/dev/null".as_ptr(), libc::O_WRONLY);
            libc::dup2(devnull, 1);
            libc::close(devnull);
            AnswerOut { w: std::io::BufWriter::new(std::fs::File::from_raw_fd(saved)) }
        }
    }
    fn line(&mut self, s: &str) {
        self.w.write_all(s.as_bytes()).unwrap();
        self.w.write_all(b"\n").unwrap();
    }
    fn flush(&mut self) {
        let _ = self.w.flush();
    }
}

fn run_main(args: &[String]) -> i32 {
    util::silence_panics();
    let no_oracle = util::flag(args, "--no-oracle");
    let mut out = AnswerOut::take_stdout();
    let timeout = util::opt_u64(args, "--case-timeout", 20);
    for (i, line) in util::stdin_lines().iter().enumerate() {
        let w: Vec<&str> = line.split_whitespace().collect();
        let ans = match w.as_slice() {
            ["plan", hexsrc, ..] => {
                let Some(bytes) = util::unhex(hexsrc) else {
                    out.line("bad-op");
                    continue;
                };
                let Ok(text) = String::from_utf8(bytes) else {
                    out.line("bad-utf8");
                    continue;
                };
                let t2 = text.clone();
                let a = util::catch(move || {
                    let arena = Arena::new(crate::pipeline::ARENA_CAP).unwrap();
                    match with_accepted(&t2, &arena, |_root, r| analysis_answer(r, &arena)) {
                        Ok(s) => s,
                        Err(_) => (
                            "limit=none warns=- unreach=- unusedAsg=- unusedVar=- unusedFn=- removable=- fns=- cls=- end=rejected".to_string(),
                            0,
                        ),
                    }
                })
                .unwrap_or_else(|m| {
                    (
                        format!(
                            "limit=none warns=- unreach=- unusedAsg=- unusedVar=- unusedFn=- removable=- fns=- cls=- end=panic:{}",
                            m.replace([' ', '\n'], "_")
                        ),
                        0,
                    )
                });
                let (a, live_removed) = a;
                if !no_oracle && a.ends_with("end=ok") {
                    let (with, without, bad) = differential(&text, timeout);
                    if let Some(b) = bad {
                        eprintln!("ORACLE-FAIL {} {}", i + 1, b);
                    }
                    eprintln!(
                        "RUNINFO {} live_removed={} outputs={} ending={} ending_with_plan={}",
                        i + 1,
                        live_removed,
                        without.outputs.len(),
                        without.ending.replace(' ', "_"),
                        with.ending.replace(' ', "_")
                    );
                }
                a
            }
            ["arun", hexsrc, ..] => match util::unhex(hexsrc).and_then(|b| String::from_utf8(b).ok()) {
                None => "arun malformed:src".to_string(),
                Some(text) => arun_answer(&text, timeout),
            },
            _ => "bad-op".to_string(),
        };
        out.line(&ans);
    }
    out.flush();
    0
}

/// The answer to an `arun` request: the real runtime without and with the resolver's plan.
fn arun_answer(text: &str, timeout: u64) -> String {
    if text.contains("read_line") {
        return "arun skip".to_string();
    }
    let t2 = text.to_string();
    let plan = util::catch(move || {
        let arena = Arena::new(crate::pipeline::ARENA_CAP).unwrap();
        with_accepted(&t2, &arena, |_root, r| plan_text(r.optimization_plan.as_ref(), &r.facts))
    });
    let plan = match plan {
        Ok(Ok(p)) => p,
        Ok(Err(_)) => return "arun rejected".to_string(),
        Err(_) => return "arun front-end-panic".to_string(),
    };
    let plain = run_isolated_mode(text, false, timeout, RunMode::DisplayHex);
    let pruned = run_isolated_mode(text, true, timeout, RunMode::DisplayHex);
    format!("arun plan={} {} {}", plan, plain.arun_part("plain"), pruned.arun_part("pruned"))
}

/// `nvh plan req [--arun] [--hex]`: each stdin line is a program's source text (one line; with `--hex`
/// the hex of a source text, which may then contain line breaks and comments); prints its `plan` (with
/// `--arun`: its `arun`) request line (or `rejected`).
fn req_main(args: &[String]) -> i32 {
    util::silence_panics();
    let arun = util::flag(args, "--arun");
    let hex = util::flag(args, "--hex");
    let mut out = util::Out::new();
    for line in util::stdin_lines() {
        let l = if hex {
            match util::unhex(line.trim()).and_then(|b| String::from_utf8(b).ok()) {
                Some(t) => t,
                None => {
                    out.line("rejected-bad-hex");
                    continue;
                }
            }
        } else {
            line.clone()
        };
        match util::catch(move || if arun { arun_request_for(&l) } else { request_for(&l) }) {
            Ok(Some(r)) => out.line(&r),
            Ok(None) => out.line("rejected"),
            Err(_) => out.line("rejected-panic"),
        }
    }
    0
}

/// `nvh plan show`: whole stdin is one program; prints the analysis answer and both runs (debug aid).
fn show_main(_args: &[String]) -> i32 {
    util::silence_panics();
    let mut src = String::new();
    std::io::Read::read_to_string(&mut std::io::stdin(), &mut src).unwrap();
    let mut out = AnswerOut::take_stdout();
    let s2 = src.clone();
    let a = util::catch(move || {
        let arena = Arena::new(crate::pipeline::ARENA_CAP).unwrap();
        match with_accepted(&s2, &arena, |_root, r| {
            let d = crate::pipeline::diags_str(&r.errors);
            format!("{}\ndiags={}", analysis_answer(r, &arena).0, d)
        }) {
            Ok(s) => s,
            Err(e) => format!("rejected:{e}"),
        }
    })
    .unwrap_or_else(|m| format!("panic:{m}"));
    out.line(&a);
    let (with, without, bad) = differential(&src, 20);
    out.line(&format!("with-plan:    {}", with.brief()));
    out.line(&format!("without-plan: {}", without.brief()));
    out.line(&format!("oracle: {}", bad.unwrap_or_else(|| "ok".into())));
    out.flush();
    0
}

fn gen_main(args: &[String]) -> i32 {
    let seed = util::opt_u64(args, "--seed", 1);
    let n = util::opt_u64(args, "--n", 100);
    let size = util::opt_u64(args, "--size", 14);
    let mut rng = Rng::new(seed ^ 0xC03);
    let mut out = util::Out::new();
    util::silence_panics();
    let mut produced = 0;
    let mut attempts = 0;
    while produced < n && attempts < n * 20 {
        attempts += 1;
        // two dedicated shapes are mixed into the stream: definitions after `return`/`comot`/`next` that are
        // called through hoisting, and bodies with 33–140 locals (liveness bit sets wider than one word)
        let src = match attempts % 16 {
            5 => plangen::hoisted_after_dead(&mut rng),
            11 => plangen::many_locals(&mut rng),
            8 | 14 => plangen::scc_capture(&mut rng),
            3 => plangen::multi_callee_store(&mut rng),
            _ => plangen::program(&mut rng, size as usize),
        };
        let s2 = src.clone();
        if let Ok(Some(r)) = util::catch(move || request_for(&s2)) {
            out.line(&r);
            produced += 1;
        }
    }
    0
}
