//! Program generators of family `mem` (C02): random programs biased to string variables, aliasing
//! shapes and reclamation events, and the enumerated product of DESIGN "### C02".
//!
//! Third round: the enumerated families `held_family` (computed operands of every length 1..40 held across calls
//! into functions whose first allocation lies in a region that is reset) and `bulk_family` (every pool size class x
//! bulk release mode with more than a quarter of the class's slots alive, then free, at once); the random generator
//! carries both (`hq()`: no parameter, no local, a loop first — shape `held_across_loop_first`; `mass_release_block`).
//!
//! Both generators emit WELL-TYPED, terminating NaijaScript programs: the oracle of C02 is the
//! differential frame-vs-no-frame run, so a program that trips one of the dynamic-typing panics of
//! the runtime (another property's business) would only produce noise here.
//!
//! Static typing notes the generators rely on (src/resolver.rs):
//! * a name keeps the static type of its `make`; reassignment is unchecked -> every name has ONE
//!   type in a program (fixed by its first letter in the random generator);
//! * parameters, index reads, `pop()`, user-function results with variables in the `return` are
//!   `Dynamic`; `Dynamic add Number` is inferred Number and `Dynamic add Dynamic` String, unary
//!   operators on `Dynamic` are un-inferrable: such operands are coerced (`"" add e`, `0 add e`,
//!   `e na true`) before they are used there.

use crate::util::Rng;
use std::collections::{BTreeMap, HashSet};

// ================================================================================================
// shared text helpers

fn rep(c: char, n: usize) -> String {
    std::iter::repeat_n(c, n).collect()
}

/// Exactly `len` bytes: the first half `a`s, the second half `b`s.
fn two(a: char, b: char, len: usize) -> String {
    rep(a, len - len / 2) + &rep(b, len / 2)
}

/// A concatenation expression (a frame temporary when evaluated) whose value is `two(a, b, len)`.
fn cat(a: char, b: char, len: usize) -> String {
    format!("\"{}\" add \"{}\"", rep(a, len - len / 2), rep(b, len / 2))
}

fn q(s: &str) -> String {
    format!("\"{s}\"")
}

// ================================================================================================
// the enumerated product

#[derive(Clone, Copy, PartialEq, Eq)]
enum K {
    S,
    A,
    AA,
    C,
}

#[derive(Clone)]
enum Val {
    S(String),
    A(Vec<String>),
    AA(Vec<Vec<String>>),
    C(String),
}

impl Val {
    fn kind(&self) -> K {
        match self {
            Val::S(_) => K::S,
            Val::A(_) => K::A,
            Val::AA(_) => K::AA,
            Val::C(_) => K::C,
        }
    }
    /// The string content the scalar observations project out of the value.
    fn first(&self) -> &str {
        match self {
            Val::S(s) | Val::C(s) => s,
            Val::A(a) => &a[0],
            Val::AA(a) => &a[0][0],
        }
    }
    fn flat(&self) -> Vec<String> {
        match self {
            Val::S(s) | Val::C(s) => vec![s.clone()],
            Val::A(a) => a.clone(),
            Val::AA(a) => a.iter().flatten().cloned().collect(),
        }
    }
}

/// A value source: how the value that is going to be stored comes into being.
struct Src {
    /// statements at global level, before the function definitions
    globals: Vec<String>,
    /// the expression (reads `p` when the value arrives as a parameter)
    expr: String,
    /// `Some(argument expression)` when the value arrives as parameter `p`
    param_arg: Option<String>,
    /// statement overwriting the variable the value is read from
    ow: Option<String>,
    val: Val,
}

const SRC_TAGS: [&str; 15] = [
    "concat", "interp", "slice", "upper", "replace", "param", "var", "arrlit", "nested", "arrvar", "split",
    "tostring", "command", "pop", "index",
];

fn source(tag: &str, len: usize, overwrite_event: bool) -> Option<Src> {
    let content = two('v', 'w', len);
    let c = cat('v', 'w', len);
    let o = cat('o', 'z', len);
    let plain = |expr: String, val: Val| Src { globals: vec![], expr, param_arg: None, ow: None, val };
    Some(match tag {
        "concat" => plain(c, Val::S(content)),
        "interp" => {
            let lit = two('v', 'w', len - 1);
            let (pre, suf) = lit.split_at(lit.len() - lit.len() / 2);
            Src {
                globals: vec!["make n get 7".into()],
                expr: format!("\"{pre}{{n}}{suf}\""),
                param_arg: None,
                ow: None,
                val: Val::S(format!("{pre}7{suf}")),
            }
        }
        "slice" => plain(format!("\"xx{content}yy\".slice(2, {})", 2 + len), Val::S(content)),
        "upper" => plain(format!("\"{content}\".to_uppercase()"), Val::S(two('V', 'W', len))),
        "replace" => plain(format!("\"#{}\".replace(\"#\", \"v\")", &content[1..]), Val::S(content)),
        "param" => {
            if overwrite_event {
                // the argument is read from a global pool variable that the event overwrites
                Src {
                    globals: vec![format!("make gv get {c}")],
                    expr: "p".into(),
                    param_arg: Some("gv".into()),
                    ow: Some(format!("gv get {o}")),
                    val: Val::S(content),
                }
            } else {
                Src { globals: vec![], expr: "p".into(), param_arg: Some(c), ow: None, val: Val::S(content) }
            }
        }
        "var" => Src {
            globals: vec![format!("make sv get {c}")],
            expr: "sv".into(),
            param_arg: None,
            ow: Some(format!("sv get {o}")),
            val: Val::S(content),
        },
        "arrlit" => plain(format!("[{c}, \"k\"]"), Val::A(vec![content, "k".into()])),
        "nested" => plain(
            format!("[[{c}, \"k\"], [\"m\", {c}]]"),
            Val::AA(vec![vec![content.clone(), "k".into()], vec!["m".into(), content]]),
        ),
        "arrvar" => Src {
            globals: vec![format!("make av get [{c}, \"k\"]")],
            expr: "av".into(),
            param_arg: None,
            ow: Some(format!("av get [{o}, \"z\"]")),
            val: Val::A(vec![content, "k".into()]),
        },
        "split" => plain(format!("\"{content},k\".split(\",\")"), Val::A(vec![content, "k".into()])),
        "tostring" => {
            if len > 15 {
                return None;
            }
            let digits = &"123456789123456"[..len];
            Src {
                globals: vec![format!("make n get {digits}")],
                expr: "to_string(n)".into(),
                param_arg: None,
                ow: None,
                val: Val::S(digits.into()),
            }
        }
        "command" => plain(format!("command(\"{content}\")"), Val::C(content)),
        "pop" => {
            // enough elements for every evaluation of the source expression in one program
            let elems: Vec<String> = std::iter::once(q("k")).chain((0..8).map(|_| c.clone())).collect();
            Src {
                globals: vec![format!("make pa get [{}]", elems.join(", "))],
                expr: "pa.pop()".into(),
                param_arg: None,
                ow: Some(format!("pa get [{o}]")),
                val: Val::S(content),
            }
        }
        "index" => Src {
            globals: vec![format!("make ia get [{c}, \"k\"]")],
            expr: "ia[0]".into(),
            param_arg: None,
            ow: Some(format!("ia get [{o}, \"z\"]")),
            val: Val::S(content),
        },
        _ => return None,
    })
}

/// A value of kind `k` with other content of the same length (same pool class) than the source.
fn init_expr(k: K, len: usize) -> String {
    let c = cat('i', 'j', len);
    match k {
        K::S => c,
        K::A => format!("[{c}, \"k\"]"),
        K::AA => format!("[[{c}, \"k\"], [\"m\", {c}]]"),
        K::C => format!("command(\"{}\")", two('i', 'j', len)),
    }
}

#[derive(Clone, Copy, PartialEq, Eq)]
enum Ev {
    LoopEnd,
    Next,
    Comot,
    FnRet,
    CallInLoop,
    LoopInCall,
    OwDirect,
    OwCallee,
    Block,
    IfBlock,
    SlotReuse,
    Len(usize),
}

const EVENTS: [(&str, Ev); 17] = [
    ("loop-end", Ev::LoopEnd),
    ("loop-next", Ev::Next),
    ("loop-comot", Ev::Comot),
    ("fn-return", Ev::FnRet),
    ("call-in-loop", Ev::CallInLoop),
    ("loop-in-call", Ev::LoopInCall),
    ("overwrite-direct", Ev::OwDirect),
    ("overwrite-callee", Ev::OwCallee),
    ("block-exit", Ev::Block),
    ("if-exit", Ev::IfBlock),
    ("slot-reuse", Ev::SlotReuse),
    ("len8", Ev::Len(8)),
    ("len9", Ev::Len(9)),
    ("len128", Ev::Len(128)),
    ("len129", Ev::Len(129)),
    ("len256", Ev::Len(256)),
    ("len257", Ev::Len(257)),
];

/// Events whose region is a reclamation event (frame reset and/or scope pop).
fn is_reclaiming(ev: Ev) -> bool {
    !matches!(ev, Ev::OwDirect | Ev::OwCallee | Ev::SlotReuse)
}

const DEFAULT_LEN: usize = 5;

fn ev_len(ev: Ev) -> usize {
    match ev {
        Ev::Len(n) => n,
        _ => DEFAULT_LEN,
    }
}

struct Ctx<'a> {
    len: usize,
    /// "" or "p": parameter list / argument list of helper functions that contain the store
    hp: &'a str,
    ow: Option<&'a str>,
}

fn churn_a(len: usize) -> Vec<String> {
    vec![format!("make t get {}", cat('q', 'r', len)), format!("t get {}", cat('r', 's', len))]
}

fn churn_b(len: usize) -> Vec<String> {
    vec![format!("make u get {}", cat('t', 'u', len))]
}

/// The region of event `ev` around the statements `pre` (the store) and `post` (observations that
/// have to happen inside the region); allocation churn of the same pool class follows the store
/// inside the region and follows the region. Helper functions go to `fns`.
fn wrap(ev: Ev, pre: &[String], post: &[String], c: &Ctx<'_>, fns: &mut Vec<String>) -> Vec<String> {
    let mut inner: Vec<String> = pre.to_vec();
    inner.extend(churn_a(c.len));
    inner.extend(post.iter().cloned());
    let hp = c.hp;
    let mut out = Vec::new();
    let looped = |n: usize, body: &[String], tail: &[String]| -> Vec<String> {
        let mut v = vec!["make i get 0".to_string(), format!("jasi (i small pass {n}) start"), "i get i add 1".into()];
        v.extend(body.iter().cloned());
        v.extend(tail.iter().cloned());
        v.push("end".into());
        v
    };
    match ev {
        Ev::LoopEnd | Ev::Len(_) => out.extend(looped(2, &inner, &[])),
        Ev::Next => out.extend(looped(
            3,
            &inner,
            &[
                "if to say (i small pass 3) start".into(),
                "next".into(),
                "end".into(),
                format!("make z get {}", cat('n', 'm', c.len)),
            ],
        )),
        Ev::Comot => {
            out.extend(looped(3, &inner, &["if to say (i na 2) start".into(), "comot".into(), "end".into()]))
        }
        Ev::FnRet => {
            fns.push(format!("do g({hp}) start\n{}\nend", inner.join("\n")));
            out.push(format!("g({hp})"));
        }
        Ev::CallInLoop => {
            fns.push(format!("do g({hp}) start\n{}\nend", inner.join("\n")));
            out.extend(looped(2, &[format!("g({hp})"), format!("make z get {}", cat('n', 'm', c.len))], &[]));
        }
        Ev::LoopInCall => {
            let mut body = vec!["make j get 0".to_string(), "jasi (j small pass 2) start".into(), "j get j add 1".into()];
            body.extend(inner.iter().cloned());
            body.push("end".into());
            fns.push(format!("do g({hp}) start\n{}\nend", body.join("\n")));
            out.push(format!("g({hp})"));
        }
        Ev::OwDirect => {
            out.extend(pre.iter().cloned());
            out.push(c.ow.expect("overwrite event needs a source variable").to_string());
            out.extend(churn_a(c.len));
            out.extend(post.iter().cloned());
        }
        Ev::OwCallee => {
            fns.push(format!("do owf() start\n{}\nend", c.ow.expect("overwrite event needs a source variable")));
            out.extend(pre.iter().cloned());
            out.push("owf()".into());
            out.extend(churn_a(c.len));
            out.extend(post.iter().cloned());
        }
        Ev::Block => {
            out.push("start".into());
            out.extend(inner);
            out.push("end".into());
        }
        Ev::IfBlock => {
            out.push("if to say (one na 1) start".into());
            out.extend(inner);
            out.push("end".into());
        }
        Ev::SlotReuse => {
            out.extend(pre.iter().cloned());
            out.extend(churn_a(c.len));
            out.push(format!("t get {}", cat('s', 'q', c.len)));
            out.push(format!("make z get {}", cat('n', 'm', c.len)));
            out.push(format!("z get {}", cat('m', 'n', c.len)));
            out.extend(post.iter().cloned());
        }
    }
    out.extend(churn_b(c.len));
    out
}

const OBS_TAGS: [&str; 8] = ["shout", "compare", "concat", "index", "len", "interp", "join", "passfn"];

/// Observation `obs` of the holder expression `h` (a variable or an index path) holding `val`.
fn observe(h: &str, val: &Val, obs: usize) -> Vec<String> {
    let k = val.kind();
    let simple = h.bytes().all(|b| b.is_ascii_alphanumeric() || b == b'_');
    // the string-valued projection of the holder
    let sh = match k {
        K::S => h.to_string(),
        K::A => format!("{h}[0]"),
        K::AA => format!("{h}[0][0]"),
        K::C => format!("to_string({h})"),
    };
    let expect = match k {
        K::C => format!("to_string(command(\"{}\"))", val.first()),
        _ => q(val.first()),
    };
    match OBS_TAGS[obs] {
        "shout" => vec![format!("shout({h})")],
        "compare" => vec![format!("shout({sh} na {expect})")],
        "concat" => vec![format!("shout({sh} add \"!\")")],
        "index" => match k {
            K::S => vec![format!("make wv get [{h}, \"k\"]"), "shout(wv[0])".into()],
            K::C => vec![format!("make wv get [{h}]"), "shout(wv[0])".into()],
            K::A => vec![format!("shout({h}[0])"), format!("shout({h}[1])")],
            K::AA => vec![format!("shout({h}[1][1])"), format!("shout({h}[0])")],
        },
        "len" => match k {
            K::S | K::C => vec![format!("shout({sh}.len())")],
            K::A | K::AA => vec![format!("shout({h}.len())"), format!("shout({sh}.len())")],
        },
        "interp" => {
            if simple {
                vec![format!("shout(\"<{{{h}}}>\")")]
            } else {
                vec![format!("make e get {h}"), "shout(\"<{e}>\")".into()]
            }
        }
        "join" => match k {
            K::S | K::C => vec![format!("shout([{h}, {h}].join(\"-\"))")],
            K::A | K::AA => vec![format!("shout({h}.join(\"-\"))")],
        },
        "passfn" => vec![format!("show({h})")],
        _ => unreachable!(),
    }
}

const STORES: [&str; 21] = [
    "make",
    "make-local",
    "reassign",
    "self-assign",
    "swap",
    "index-assign",
    "nested-index-assign",
    "push",
    "param-push",
    "return-expr",
    "return-local",
    "return-param",
    "shout",
    "argument",
    "literal-element",
    "held-add",
    "held-compare",
    "held-argument",
    "held-receiver",
    "held-find",
    "held-method-arg",
];

/// One program of the product; `None` for a meaningless combination.
fn build(stag: &str, store: &str, ev: Ev, obs: usize) -> Option<(String, String)> {
    let len = ev_len(ev);
    let is_ow = matches!(ev, Ev::OwDirect | Ev::OwCallee);
    let src = source(stag, len, is_ow)?;
    if is_ow && src.ow.is_none() {
        return None; // the value is a temporary: there is no source variable to overwrite
    }
    let val = src.val.clone();
    let kind = val.kind();
    let hp = if src.param_arg.is_some() { "p" } else { "" };
    let v = src.expr.clone();
    let vp = format!("({v})");
    let mut globals = src.globals.clone();
    globals.push("make one get 1".into());
    let mut fns: Vec<String> = vec!["do show(q) start shout(q) end".into()];
    let mut body: Vec<String> = Vec::new();
    let ctx = Ctx { len, hp, ow: src.ow.as_deref() };
    // regions that do not mention the parameter
    let ctx0 = Ctx { len, hp: "", ow: src.ow.as_deref() };
    let init = init_expr(kind, len);
    let mut obs_tag = OBS_TAGS[obs].to_string();
    let done = "shout(\"done\")".to_string();
    // the function called while the value is held by an enclosing evaluation
    let held_f = |ret: &str, fns: &mut Vec<String>| {
        let inner = wrap(ev, &[], &[], &ctx0, fns);
        fns.push(format!("do f() start\n{}\nreturn {ret}\nend", inner.join("\n")));
    };
    match store {
        "make" => {
            body.push(format!("make x get {v}"));
            body.extend(wrap(ev, &[], &[], &ctx0, &mut fns));
            body.extend(observe("x", &val, obs));
        }
        "make-local" => {
            body.extend(wrap(ev, &[format!("make x get {v}")], &observe("x", &val, obs), &ctx, &mut fns));
            body.push(done);
        }
        "reassign" | "self-assign" | "swap" => {
            globals.push(format!("make x get {init}"));
            let mut pre = vec![format!("x get {v}")];
            if store == "self-assign" {
                pre.push("x get x".into());
            }
            if store == "swap" {
                globals.push(format!("make y get {init}"));
                pre.push("y get x".into());
                pre.push("x get y".into());
            }
            body.extend(wrap(ev, &pre, &[], &ctx, &mut fns));
            body.extend(observe("x", &val, obs));
            if store == "swap" {
                body.push("shout(y)".into());
            }
        }
        "index-assign" => {
            globals.push(format!("make h get [{init}, \"k\"]"));
            body.extend(wrap(ev, &[format!("h[0] get {v}")], &[], &ctx, &mut fns));
            body.extend(observe("h[0]", &val, obs));
            body.push("shout(h)".into());
        }
        "nested-index-assign" => {
            globals.push(format!("make h get [[\"k\", {init}], [\"m\"]]"));
            body.extend(wrap(ev, &[format!("h[0][1] get {v}")], &[], &ctx, &mut fns));
            body.extend(observe("h[0][1]", &val, obs));
            body.push("shout(h)".into());
        }
        "push" => {
            globals.push("make h get [\"k\"]".into());
            body.extend(wrap(ev, &[format!("h.push({v})")], &[], &ctx, &mut fns));
            body.extend(observe("h[h.len() minus 1]", &val, obs));
            body.push("shout(h)".into());
        }
        "param-push" => {
            // the holder is itself a parameter (an array bound from a literal) that grows
            let extra = if hp.is_empty() { "" } else { ", p" };
            match ev {
                // the store would move into a helper that only sees a copy of the holder
                Ev::CallInLoop | Ev::LoopInCall => return None,
                Ev::FnRet => {
                    let mut b = vec![format!("h.push({v})")];
                    b.extend(churn_a(len));
                    fns.push(format!("do pp(h{extra}) start\n{}\nreturn h\nend", b.join("\n")));
                    body.push(format!("make y get pp([\"k\"]{extra})"));
                    body.extend(churn_b(len));
                    body.extend(observe("y[1]", &val, obs));
                    body.push("shout(y)".into());
                }
                _ => {
                    let mut b = wrap(ev, &[format!("h.push({v})")], &[], &ctx, &mut fns);
                    b.extend(observe("h[h.len() minus 1]", &val, obs));
                    b.push("shout(h)".into());
                    fns.push(format!("do pp(h{extra}) start\n{}\nend", b.join("\n")));
                    body.push(format!("pp([\"k\"]{extra})"));
                    body.push(done);
                }
            }
        }
        "return-expr" | "return-local" | "return-param" => {
            globals.push(format!("make x get {init}"));
            let call = match store {
                "return-expr" => {
                    fns.push(format!("do r({hp}) start\nreturn {v}\nend"));
                    format!("r({hp})")
                }
                "return-local" => {
                    fns.push(format!("do rl({hp}) start\nmake l get {v}\nreturn l\nend"));
                    format!("rl({hp})")
                }
                _ => {
                    fns.push("do rp(a) start\nreturn a\nend".into());
                    format!("rp({v})")
                }
            };
            body.extend(wrap(ev, &[format!("x get {call}")], &[], &ctx, &mut fns));
            body.extend(observe("x", &val, obs));
        }
        "shout" => {
            body.extend(wrap(ev, &[format!("shout({v})")], &[], &ctx, &mut fns));
            body.push(done);
            obs_tag = "out".into();
        }
        "argument" => {
            let mut b = wrap(ev, &[], &[], &ctx0, &mut fns);
            b.extend(observe("a", &val, obs));
            fns.push(format!("do use(a) start\n{}\nend", b.join("\n")));
            body.push(format!("use({v})"));
            body.push(done);
        }
        "literal-element" => {
            held_f("\"!\"", &mut fns);
            body.push(format!("make y get [{v}, f()]"));
            body.extend(observe("y[0]", &val, obs));
            body.push("shout(y)".into());
        }
        "held-add" => {
            if kind != K::S {
                return None;
            }
            held_f("\"!\"", &mut fns);
            body.push(format!("make y get {vp} add f()"));
            body.extend(observe("y", &Val::S(format!("{}!", val.first())), obs));
        }
        "held-compare" => {
            if kind != K::S {
                return None;
            }
            held_f(&q(val.first()), &mut fns);
            body.push(format!("make y get {vp} na f()"));
            body.push("shout(y)".into());
            obs_tag = "out".into();
        }
        "held-argument" => {
            held_f("\"!\"", &mut fns);
            let mut b = observe("a", &val, obs);
            b.push("shout(b)".into());
            fns.push(format!("do two(a, b) start\n{}\nend", b.join("\n")));
            body.push(format!("two({v}, f())"));
            body.push(done);
        }
        "held-receiver" => match kind {
            K::S => {
                let c0 = &val.first()[..1];
                held_f(&q(c0), &mut fns);
                body.push(format!("make y get {vp}.replace(f(), \"x\")"));
                body.extend(observe("y", &Val::S(val.first().replace(c0, "x")), obs));
            }
            K::A | K::AA => {
                held_f("\"!\"", &mut fns);
                body.push(format!("make y get {vp}.join(f())"));
                body.extend(observe("y", &Val::S(val.flat().join("!")), obs));
            }
            K::C => return None,
        },
        "held-find" => {
            if kind != K::S {
                return None;
            }
            let last = &val.first()[val.first().len() - 1..];
            held_f(&q(last), &mut fns);
            body.push(format!("make y get {vp}.find(f())"));
            body.push("shout(y)".into());
            obs_tag = "out".into();
        }
        "held-method-arg" => {
            if kind != K::S {
                return None;
            }
            held_f("\"!\"", &mut fns);
            body.push(format!("make y get \"<{}>\".replace({v}, f())", val.first()));
            body.extend(observe("y", &Val::S("<!>".into()), obs));
        }
        _ => return None,
    }
    let mut lines = globals;
    lines.extend(fns);
    if let Some(arg) = &src.param_arg {
        lines.push(format!("do wp(p) start\n{}\nend", body.join("\n")));
        lines.push(format!("wp({arg})"));
    } else {
        lines.extend(body);
    }
    Some((obs_tag, lines.join("\n")))
}

/// The enumerated product: (tag, source). value source x store path x reclamation event is
/// enumerated completely (minus the meaningless combinations); the observation rotates so that it is
/// complete against every single other dimension (the three coefficients are odd and every
/// dimension has at least eight values).
pub fn product_programs() -> Vec<(String, String)> {
    let mut out = Vec::new();
    let mut seen = HashSet::new();
    for (si, stag) in SRC_TAGS.iter().enumerate() {
        for (ti, store) in STORES.iter().enumerate() {
            for (ei, (etag, ev)) in EVENTS.iter().enumerate() {
                let obs = (si + 3 * ti + 5 * ei) % OBS_TAGS.len();
                let Some((obs_tag, text)) = build(stag, store, *ev, obs) else { continue };
                if !seen.insert(text.clone()) {
                    continue;
                }
                let reclaim = if is_reclaiming(*ev) { " reclaim=1" } else { "" };
                out.push((format!("src={stag} store={store} ev={etag} obs={obs_tag}{reclaim}"), text));
            }
        }
    }
    out.extend(temp_programs());
    out
}

// ================================================================================================
// the enumerated product of method calls on computed temporaries
//
// receiver (a temporary that owns, or is a copy of, pool / frame storage: popped element, element
// popped through an index path, call results, concatenation, index read, element of a popped array,
// chained identity methods; a variable as control)
//   x method case (every string method, each with its identity cases: trim with nothing to strip,
//     to_lowercase of lower case, replace without a match, slice of the whole string, split without
//     a match ...; for array receivers len / join / index and methods of the element)
//   x holding context (the result is an operand / element / argument / receiver while a sibling
//     evaluation stores another string OF THE SAME LENGTH, hence of the same pool class; or it is
//     stored itself and the same-length store follows)
// is enumerated completely; the kind of the intervening store (callee assigns a global, pushes to
// a global array, declares a local, assigns an element) and the length (pool class boundaries, the
// > 256 byte fallback) rotate so that each is complete against every single other dimension.

/// Kind of the value a method call on a temporary yields.
#[derive(Clone, Copy, PartialEq, Eq)]
enum RK {
    S,
    N,
    A,
}

/// A computed (frame temporary) expression whose value is the ASCII string `s` (>= 2 bytes).
fn cat_of(s: &str) -> String {
    let h = s.len() - s.len() / 2;
    format!("\"{}\" add \"{}\"", &s[..h], &s[h..])
}

/// One method case: the receiver content for which the call is the stated case.
struct Meth {
    tag: &'static str,
    content: String,
    call: String,
    kind: RK,
    /// the result, when it is a string this generator can predict
    result: Option<String>,
}

fn str_methods(len: usize) -> Vec<Meth> {
    let vw = two('v', 'w', len);
    let up = two('V', 'W', len);
    let m = |tag: &'static str, content: &str, call: String, kind: RK, result: Option<String>| Meth {
        tag,
        content: content.to_string(),
        call,
        kind,
        result,
    };
    let digits: String = "123456789".chars().cycle().take(len).collect();
    let left = format!(" {}", two('v', 'w', len - 1));
    let both = format!(" {} ", two('v', 'w', len - 2));
    let comma = format!("{},{}", rep('v', len - 1 - len / 2), rep('w', len / 2));
    vec![
        m("len", &vw, ".len()".into(), RK::N, None),
        m("slice-whole", &vw, format!(".slice(0, {len})"), RK::S, Some(vw.clone())),
        m("slice-over", &vw, format!(".slice(0, {})", len + 40), RK::S, Some(vw.clone())),
        m("slice-part", &vw, format!(".slice(1, {len})"), RK::S, Some(vw[1..].to_string())),
        m("slice-empty", &vw, ".slice(2, 2)".into(), RK::S, Some(String::new())),
        m("upper", &vw, ".to_uppercase()".into(), RK::S, Some(up.clone())),
        m("upper-id", &up, ".to_uppercase()".into(), RK::S, Some(up.clone())),
        m("lower", &up, ".to_lowercase()".into(), RK::S, Some(vw.clone())),
        m("lower-id", &vw, ".to_lowercase()".into(), RK::S, Some(vw.clone())),
        m("trim-id", &vw, ".trim()".into(), RK::S, Some(vw.clone())),
        m("trim-left", &left, ".trim()".into(), RK::S, Some(left.trim().to_string())),
        m("trim-both", &both, ".trim()".into(), RK::S, Some(both.trim().to_string())),
        m("trim-all", &rep(' ', len), ".trim()".into(), RK::S, Some(String::new())),
        m("replace-none", &vw, ".replace(\"#\", \"x\")".into(), RK::S, Some(vw.clone())),
        m("replace-hit", &vw, ".replace(\"v\", \"x\")".into(), RK::S, Some(vw.replace('v', "x"))),
        m("replace-same", &vw, ".replace(\"v\", \"v\")".into(), RK::S, Some(vw.clone())),
        m("replace-empty", &vw, ".replace(\"\", \"\")".into(), RK::S, None),
        m("find-hit", &vw, ".find(\"w\")".into(), RK::N, None),
        m("find-miss", &vw, ".find(\"#\")".into(), RK::N, None),
        m("to-number", &digits, ".to_number()".into(), RK::N, None),
        m("split-none", &vw, ".split(\"#\")".into(), RK::A, None),
        m("split-hit", &comma, ".split(\",\")".into(), RK::A, None),
    ]
}

/// Method cases on an array receiver whose value is `[two('v','w',len), "k"]`.
fn arr_methods(len: usize) -> Vec<Meth> {
    let vw = two('v', 'w', len);
    let m = |tag: &'static str, call: &str, kind: RK, result: Option<String>| Meth {
        tag,
        content: vw.clone(),
        call: call.to_string(),
        kind,
        result,
    };
    vec![
        m("arr-len", ".len()", RK::N, None),
        m("arr-join", ".join(\"-\")", RK::S, Some(format!("{vw}-k"))),
        m("arr-join-empty", ".join(\"\")", RK::S, Some(format!("{vw}k"))),
        m("arr-elem", "[0]", RK::S, Some(vw.clone())),
        m("arr-elem-literal", "[1]", RK::S, Some("k".into())),
        m("arr-elem-trim", "[0].trim()", RK::S, Some(vw.clone())),
        m("arr-elem-upper", "[0].to_uppercase()", RK::S, Some(two('V', 'W', len))),
        m("arr-elem-len", "[0].len()", RK::N, None),
    ]
}

/// A receiver expression and the declarations it needs.
struct Recv {
    globals: Vec<String>,
    fns: Vec<String>,
    expr: String,
}

const STR_RECVS: [&str; 11] = [
    "pop", "pop-index", "call", "call-local", "call-param", "concat", "index", "popped-elem", "var", "chain-trim",
    "chain-slice",
];

/// Enough elements for every evaluation of the receiver expression in one program.
const POP_STOCK: usize = 8;

fn str_recv(tag: &str, content: &str) -> Recv {
    let x = cat_of(content);
    let stock = |item: &str| -> String { std::iter::repeat_n(item.to_string(), POP_STOCK).collect::<Vec<_>>().join(", ") };
    let plain = |expr: String| Recv { globals: vec![], fns: vec![], expr };
    let pa = format!("make pa get [\"k\", {}]", stock(&x));
    match tag {
        "pop" => Recv { globals: vec![pa], fns: vec![], expr: "pa.pop()".into() },
        "pop-index" => Recv {
            globals: vec![format!("make pb get [[\"k\", {}], [\"m\"]]", stock(&x))],
            fns: vec![],
            expr: "pb[0].pop()".into(),
        },
        "call" => Recv { globals: vec![], fns: vec![format!("do mk() start\nreturn {x}\nend")], expr: "mk()".into() },
        "call-local" => Recv {
            globals: vec![],
            fns: vec![format!("do mkl() start\nmake l get {x}\nreturn l\nend")],
            expr: "mkl()".into(),
        },
        "call-param" => {
            Recv { globals: vec![], fns: vec!["do idp(p) start\nreturn p\nend".into()], expr: format!("idp({x})") }
        }
        "concat" => plain(format!("({x})")),
        "index" => Recv { globals: vec![format!("make ia get [{x}, \"k\"]")], fns: vec![], expr: "ia[0]".into() },
        "popped-elem" => Recv {
            globals: vec![format!("make pn get [[\"k\"], {}]", stock(&format!("[{x}, \"k\"]")))],
            fns: vec![],
            expr: "pn.pop()[0]".into(),
        },
        "var" => Recv { globals: vec![format!("make sv get {x}")], fns: vec![], expr: "sv".into() },
        "chain-trim" => Recv { globals: vec![pa], fns: vec![], expr: "pa.pop().trim()".into() },
        "chain-slice" => {
            Recv { globals: vec![pa], fns: vec![], expr: format!("pa.pop().slice(0, {})", content.len()) }
        }
        _ => unreachable!(),
    }
}

const ARR_RECVS: [&str; 7] = ["arr-pop", "arr-call", "arr-call-param", "arr-literal", "arr-split", "arr-index", "arr-var"];

fn arr_recv(tag: &str, content: &str) -> Recv {
    let x = cat_of(content);
    let item = format!("[{x}, \"k\"]");
    let stock: String = std::iter::repeat_n(item.clone(), POP_STOCK).collect::<Vec<_>>().join(", ");
    match tag {
        "arr-pop" => {
            Recv { globals: vec![format!("make pn get [[\"k\"], {stock}]")], fns: vec![], expr: "pn.pop()".into() }
        }
        "arr-call" => {
            Recv { globals: vec![], fns: vec![format!("do mka() start\nreturn {item}\nend")], expr: "mka()".into() }
        }
        "arr-call-param" => {
            Recv { globals: vec![], fns: vec!["do ida(p) start\nreturn p\nend".into()], expr: format!("ida({item})") }
        }
        "arr-literal" => Recv { globals: vec![], fns: vec![], expr: item },
        "arr-split" => {
            Recv { globals: vec![], fns: vec![], expr: format!("({}).split(\",\")", cat_of(&format!("{content},k"))) }
        }
        "arr-index" => {
            Recv { globals: vec![format!("make pm get [[\"k\"], {item}]")], fns: vec![], expr: "pm[1]".into() }
        }
        "arr-var" => Recv { globals: vec![format!("make av get {item}")], fns: vec![], expr: "av".into() },
        _ => unreachable!(),
    }
}

const STORERS: [&str; 4] = ["callee-assign", "callee-push", "callee-local", "callee-index-assign"];

/// `st(tag, r)`: stores a fresh string of the length of `tag` and returns `r`.
fn storer(tag: &str) -> (Vec<String>, String, Vec<String>) {
    let (globals, store, tail): (Vec<String>, &str, Vec<String>) = match tag {
        "callee-assign" => (vec!["make last get \"none\"".into()], "last get tag add \"\"", vec!["shout(last)".into()]),
        "callee-push" => (vec!["make bag get [\"k\"]".into()], "bag.push(tag add \"\")", vec!["shout(bag)".into()]),
        "callee-local" => (vec![], "make l get tag add \"\"", vec![]),
        "callee-index-assign" => (
            vec!["make bag get [\"k\" add \"k\", \"m\"]".into()],
            "bag[0] get tag add \"\"",
            vec!["shout(bag)".into()],
        ),
        _ => unreachable!(),
    };
    (globals, format!("do st(tag, r) start\n{store}\nreturn r\nend"), tail)
}

const HOLDS: [&str; 12] = [
    "add-call",
    "literal-with-call",
    "literal-inline",
    "args-with-call",
    "args-inline",
    "compare-call",
    "method-arg",
    "receiver-of-call-arg",
    "make-then-store",
    "push-then-store",
    "return-then-call",
    "loop-add-call",
];

const TEMP_LENS: [usize; 7] = [5, 5, 8, 9, 129, 5, 257];

/// One program: the value of `e` (kind `kind`) is held / stored by context `hold` while a string of
/// `slen` bytes is stored. Returns (body, helper functions).
fn hold_program(hold: &str, e: &str, kind: RK, result: Option<&str>, slen: usize) -> Option<(Vec<String>, Vec<String>)> {
    let z = q(&rep('z', slen));
    let y = q(&rep('y', slen));
    // a sibling evaluation that stores `slen` bytes and yields a string / the number 1
    let st = format!("st({z}, \"!\")");
    let st2 = format!("st({y}, \"?\")");
    let stn = format!("st({z}, 1)");
    let fresh = cat('n', 'm', slen);
    let mut fns = Vec::new();
    let body = match hold {
        "add-call" => match kind {
            RK::S => vec![format!("shout({e} add {st})")],
            RK::N => vec![format!("shout({e} add {stn})")],
            RK::A => vec![format!("shout({e}.join({st}))")],
        },
        "literal-with-call" => vec![format!("make y get [{e}, {st}, {e}, {st2}]"), "shout(y)".into()],
        "literal-inline" => vec![format!("make y get [{e}, {e}, {fresh}, {e}]"), "shout(y)".into()],
        "args-with-call" => {
            fns.push("do three(a, b, c) start\nshout(a)\nshout(b)\nshout(c)\nend".into());
            vec![format!("three({e}, {st}, {e})")]
        }
        "args-inline" => {
            fns.push("do three(a, b, c) start\nshout(a)\nshout(b)\nshout(c)\nend".into());
            vec![format!("three({e}, {e}, {fresh})")]
        }
        "compare-call" => match (kind, result) {
            (RK::S, Some(r)) => vec![format!("shout({e} na st({z}, {}))", q(r))],
            (RK::S, None) => vec![format!("shout({e} na {st})")],
            (RK::N, _) => vec![format!("shout({e} na {stn})")],
            (RK::A, _) => return None,
        },
        "method-arg" => match kind {
            RK::S => vec![format!("shout(\"<{}>\".replace({e}, {st}))", result.unwrap_or("v"))],
            RK::N => vec![format!("shout(\"abcdefgh\".slice({e}, 3 add {stn}))")],
            RK::A => return None,
        },
        "receiver-of-call-arg" => match kind {
            RK::S => vec![format!("shout({e}.replace({st}, \"x\"))"), format!("shout({e}.find({st2}))")],
            RK::N => return None,
            RK::A => vec![format!("shout({e}.join({st}).len())")],
        },
        "make-then-store" => {
            vec![format!("make y get {e}"), format!("make z get {fresh}"), "shout(y)".into(), "shout(z)".into()]
        }
        "push-then-store" => vec![
            "make h get [\"k\"]".into(),
            format!("h.push({e})"),
            format!("h[0] get {fresh}"),
            format!("h.push({e})"),
            "shout(h)".into(),
        ],
        "return-then-call" => {
            fns.push(format!("do r() start\nreturn {e}\nend"));
            match kind {
                RK::S => vec![format!("shout(r() add {st})"), format!("shout([r(), {st2}])")],
                RK::N => vec![format!("shout(r() add {stn})")],
                RK::A => vec![format!("shout(r().join({st}))")],
            }
        }
        "loop-add-call" => {
            let inner = match kind {
                RK::S => format!("x get {e} add {st}"),
                RK::N => format!("x get \"\" add {e} add {st}"),
                RK::A => format!("x get {e}.join({st})"),
            };
            vec![
                format!("make x get {fresh}"),
                "make i get 0".into(),
                "jasi (i small pass 2) start".into(),
                "i get i add 1".into(),
                inner,
                "shout(x)".into(),
                "end".into(),
            ]
        }
        _ => return None,
    };
    Some((body, fns))
}

fn temp_family(out: &mut Vec<(String, String)>, seen: &mut HashSet<String>, arrays: bool) {
    let recvs: &[&str] = if arrays { &ARR_RECVS } else { &STR_RECVS };
    for (ri, rtag) in recvs.iter().enumerate() {
        let n_meth = if arrays { arr_methods(DEFAULT_LEN).len() } else { str_methods(DEFAULT_LEN).len() };
        for mi in 0..n_meth {
            for (hi, hold) in HOLDS.iter().enumerate() {
                let len = TEMP_LENS[(ri + 2 * mi + 3 * hi) % TEMP_LENS.len()];
                let stag = STORERS[(ri + mi + hi) % STORERS.len()];
                let meth = if arrays { arr_methods(len) } else { str_methods(len) }.into_iter().nth(mi).unwrap();
                let recv = if arrays { arr_recv(rtag, &meth.content) } else { str_recv(rtag, &meth.content) };
                let e = format!("{}{}", recv.expr, meth.call);
                let Some((body, hfns)) = hold_program(hold, &e, meth.kind, meth.result.as_deref(), meth.content.len())
                else {
                    continue;
                };
                // a context without a sibling call has no storer
                let calls_storer = body.iter().any(|l| l.contains("st(\""));
                let stag = if calls_storer { stag } else { "none" };
                let mut lines = recv.globals.clone();
                let mut tail = Vec::new();
                if calls_storer {
                    let (sglobals, sfn, stail) = storer(stag);
                    lines.extend(sglobals);
                    lines.push(sfn);
                    tail = stail;
                }
                lines.extend(recv.fns.clone());
                lines.extend(hfns);
                lines.extend(body);
                lines.extend(tail);
                lines.push("shout(\"done\")".into());
                let text = lines.join("\n");
                if !seen.insert(text.clone()) {
                    continue;
                }
                out.push((format!("recv={rtag} meth={} hold={hold} storer={stag} len={len}", meth.tag), text));
            }
        }
    }
}

// ------------------------------------------------------------------------------------------------
// command builder calls: builder method x source of the string argument x region that is reclaimed
// after the call, complete; the observation rotates. The command lives in a global: whatever the
// builder keeps has to survive the frame reset of the region. What a command keeps (arguments,
// environment, working directory, stdin text) is not part of its printed form, so two of the three
// observations RUN it: a `/bin/sh` child reports its directory, two environment variables, its
// arguments and its stdin. (The trace stream leaves programs that run a process out; the third
// observation keeps the family in it.)

/// (tag, builder call with `@` for the argument, the text the argument evaluates to)
const CMD_CALLS: [(&str, &str, &str); 6] = [
    ("arg", "c.arg(@)", "aaaabbbb"),
    ("env-key", "c.env(@, \"val\")", "KKKKEEEE"),
    ("env-value", "c.env(\"KEY\", @)", "vvvvwwww"),
    ("cwd", "c.cwd(@)", "/usr/bin"),
    ("stdin-text", "c.stdin_text(@)", "iiiijjjj"),
    ("program", "c get command(@)", "/bin/sh"),
];
const CMD_ARGS: [&str; 6] = ["concat", "var", "param", "method", "interp", "pop-method"];
const CMD_REGIONS: [&str; 5] = ["fn-call", "loop", "loop-in-call", "block", "call-in-loop"];
const CMD_OBS: [&str; 3] = ["run", "copy-run", "shout"];
const CMD_SCRIPT: &str = "pwd; echo k=$KKKKEEEE v=$KEY a=$1 b=$2; cat";

fn cmd_family(out: &mut Vec<(String, String)>) {
    let setup = |lines: &mut Vec<String>| {
        lines.push("c.arg(\"-c\")".into());
        lines.push(format!("c.arg(\"{CMD_SCRIPT}\")"));
        lines.push("c.arg(\"sh\")".into());
        lines.push("c.stdout_capture()".into());
        // never the inherited stdin: in the harness worker that is the request pipe
        lines.push("c.stdin_null()".into());
    };
    for (ci, (ctag, call, content)) in CMD_CALLS.iter().enumerate() {
        let len = content.len();
        let x = cat_of(content);
        for (ai, atag) in CMD_ARGS.iter().enumerate() {
            for (gi, region) in CMD_REGIONS.iter().enumerate() {
                let obs = CMD_OBS[(ci + ai + gi) % CMD_OBS.len()];
                let mut lines = vec!["make c get command(\"/bin/sh\")".to_string(), "make e get \"\"".into()];
                if *ctag != "program" {
                    setup(&mut lines);
                }
                // the argument expression as written inside the region; `p` is the region's parameter
                let (arg, actual) = match *atag {
                    "concat" => (x.clone(), q("-")),
                    "var" => {
                        lines.push(format!("make sv get {x}"));
                        ("sv".to_string(), q("-"))
                    }
                    "param" => ("p".to_string(), x.clone()),
                    "method" => (format!("\" {content} \".trim()"), q("-")),
                    "interp" => (format!("\"{{e}}{content}\""), q("-")),
                    _ => {
                        let stock: Vec<String> = std::iter::repeat_n(x.clone(), 4).collect();
                        lines.push(format!("make pa get [\"k\", {}]", stock.join(", ")));
                        ("pa.pop().trim()".to_string(), q("-"))
                    }
                };
                let mut inner = vec![call.replace('@', &arg)];
                inner.extend(churn_a(len));
                let looped = |body: &[String], counter: &str| -> Vec<String> {
                    let mut v = vec![
                        format!("make {counter} get 0"),
                        format!("jasi ({counter} small pass 2) start"),
                        format!("{counter} get {counter} add 1"),
                    ];
                    v.extend(body.iter().cloned());
                    v.push("end".into());
                    v
                };
                let mut body: Vec<String> = Vec::new();
                match *region {
                    "fn-call" => {
                        lines.push(format!("do cfg(p) start\n{}\nend", inner.join("\n")));
                        body.push(format!("cfg({actual})"));
                    }
                    "loop" => {
                        lines.push(format!("make p get {actual}"));
                        body.extend(looped(&inner, "i"));
                    }
                    "loop-in-call" => {
                        lines.push(format!("do cfg(p) start\n{}\nend", looped(&inner, "j").join("\n")));
                        body.push(format!("cfg({actual})"));
                    }
                    "block" => {
                        lines.push(format!("make p get {actual}"));
                        body.push("start".into());
                        body.extend(inner.iter().cloned());
                        body.push("end".into());
                    }
                    _ => {
                        lines.push(format!("do cfg(p) start\n{}\nend", inner.join("\n")));
                        body.extend(looped(&[format!("cfg({actual})"), format!("make z get {}", cat('n', 'm', len))], "i"));
                    }
                }
                body.extend(churn_b(len));
                if *ctag == "program" {
                    // the region made a new command: it gets its arguments now
                    setup(&mut body);
                }
                match obs {
                    "run" => {
                        body.push("make r get c.run()".into());
                        body.push("shout(r.success())".into());
                        body.push("shout(r.stdout())".into());
                    }
                    "copy-run" => {
                        body.push("make d get c".into());
                        body.extend(churn_a(len));
                        body.push("make r get d.run()".into());
                        body.push("shout(r.stdout())".into());
                        body.push("shout([c, d])".into());
                    }
                    _ => {
                        body.push("shout(c)".into());
                        body.push("make d get c".into());
                        body.push("shout(to_string(d) add \"!\")".into());
                    }
                }
                lines.extend(body);
                out.push((format!("cmd={ctag} arg={atag} region={region} cmdobs={obs}"), lines.join("\n")));
            }
        }
    }
}

/// The enumerated products of method calls on temporaries, of command builder calls, of temporaries held across
/// calls and of mass releases: (tag, source).
pub fn temp_programs() -> Vec<(String, String)> {
    let mut out = Vec::new();
    let mut seen = HashSet::new();
    temp_family(&mut out, &mut seen, false);
    temp_family(&mut out, &mut seen, true);
    cmd_family(&mut out);
    held_family(&mut out);
    bulk_family(&mut out);
    deferred_family(&mut out);
    host_only_family(&mut out);
    exhausted_family(&mut out);
    out
}

// ------------------------------------------------------------------------------------------------
// an EXHAUSTED size class: more live strings of one class than it has slots, so the newest ones live in exact-size
// fallback memory of the persistent arena, next to each other; then strings among them are overwritten by
// LONGER strings of the same class (up to the slot size), by shorter ones, by strings of other classes, grown by
// concatenation, and the neighbours are read (seed C05-e1: a same-class reassign rewritten in place, trusting that
// every string of at most 256 bytes owns a whole slot).  class (the 1024- and 512-slot ones) x what is
// overwritten (a variable, an element, a local of a function) x by what (4).

fn exhausted_family(out: &mut Vec<(String, String)>) {
    for class in 8..20usize {
        let (size, count) = pool_class(class);
        let short = size - 26; // same class (the previous class ends at size - 8 or size - 32 below 26 only for c >= 16)
        let short = if class < 16 { size - 7 } else { short };
        for (ti, target) in ["variable", "element", "fn-local"].iter().enumerate() {
            for (wi, with) in ["longer-same-class", "shorter", "other-class", "grown"].iter().enumerate() {
                if (class + ti + wi) % 2 == 1 && class > 9 {
                    continue; // half of the combinations for the larger classes: the programs are long-running
                }
                let mut lines: Vec<String> = Vec::new();
                lines.push("make keep get []".into());
                lines.push("make i get 1000".into());
                lines.push(format!("jasi (i small pass {}) start", 1000 + count + 40));
                lines.push(format!("keep.push({})", counted(short, "i", 'f', false)));
                lines.push("i get i add 1".into());
                lines.push("end".into());
                // the victim(s) allocated AFTER exhaustion, next to each other
                lines.push(format!("make v get {}", counted(short, "i", 'v', false)));
                lines.push(format!("keep.push({})", counted(short, "i", 'n', false)));
                lines.push(format!("make w get {}", counted(short, "i", 'w', false)));
                let newval = match *with {
                    "longer-same-class" => counted(size, "i", 'z', false),
                    "shorter" => counted(short.saturating_sub(6).max(5), "i", 'y', false),
                    "other-class" => counted(size + 40, "i", 'o', false),
                    _ => "v add \"+\"".to_string(),
                };
                match *target {
                    "variable" => lines.push(format!("v get {newval}")),
                    "element" => {
                        let nv = if *with == "grown" { "keep[keep.len() minus 1] add \"+\"".to_string() } else { newval.clone() };
                        lines.push(format!("keep[keep.len() minus 2] get {nv}"));
                    }
                    _ => {
                        let nv = if *with == "grown" { "loc add \"+\"".to_string() } else { newval.clone() };
                        lines.push(format!("do work(i) start\nmake loc get {}\nmake nb get {}\nloc get {nv}\nreturn [loc, nb]\nend", counted(short, "i", 'l', false), counted(short, "i", 'b', false)));
                        lines.push("shout(work(i))".into());
                    }
                }
                lines.push("shout(v)".into());
                lines.push("shout(w)".into());
                lines.push("shout(keep[keep.len() minus 1])".into());
                lines.push("shout(keep[keep.len() minus 2])".into());
                lines.push("shout(keep[keep.len() minus 3])".into());
                lines.push("shout(keep[0])".into());
                lines.push("shout(keep.len())".into());
                lines.push("shout(\"done\")".into());
                out.push((format!("exhausted class={class} target={target} with={with}"), lines.join("\n")));
            }
        }
    }
}

// ------------------------------------------------------------------------------------------------
// containers whose elements are ALL host values (process commands; no string, no nested array among them): built
// inside a function / loop body / nested block, kept by something that outlives that frame (returned, pushed,
// stored by index, passed on), the frame reused by churn, then read — every route by which an array is promoted
// (seed C02-e1: a fast path in `Value::promote` for arrays "without strings or arrays" moved host handles
// un-promoted).  how it is built (4) x how it is kept (5) x number of elements (1, 2, 5) x mixed-in control (a
// number element / a string element / none).

fn host_only_family(out: &mut Vec<(String, String)>) {
    let builds: [(&str, &str); 4] = [
        ("fn-return", "do mk(tag) start\nreturn {A}\nend"),
        ("fn-local-return", "do mk(tag) start\nmake local get {A}\nreturn local\nend"),
        ("fn-push-return", "do mk(tag) start\nmake local get []\n{PUSHES}\nreturn local\nend"),
        ("fn-in-loop", "do mk(tag) start\nmake local get []\nmake k get 0\njasi (k small pass {N}) start\nlocal.push(command(\"prog-\" add tag add \"-\" add to_string(k)))\nk get k add 1\nend\nreturn local\nend"),
    ];
    let keeps: [(&str, &str); 5] = [
        ("make", "make jobs get mk(\"a\")"),
        ("push", "make all get []\nall.push(mk(\"a\"))\nall.push(mk(\"b\"))\nmake jobs get all"),
        ("index", "make all get [0, 1]\nall[0] get mk(\"a\")\nall[1] get mk(\"b\")\nmake jobs get all"),
        ("loop-make", "make jobs get []\nmake w get 0\njasi (w small pass 3) start\njobs get mk(to_string(w))\nw get w add 1\nend"),
        ("param", "do keep(v) start\nreturn v\nend\nmake jobs get keep(mk(\"a\"))"),
    ];
    for (btag, build) in builds {
        for (ktag, keep) in keeps {
            for n in [1usize, 2, 5] {
                for ctl in ["none", "number", "string"] {
                    let mut elems: Vec<String> = (0..n).map(|i| format!("command(\"prog-\" add tag add \"-{i}\")")).collect();
                    match ctl {
                        "number" => elems.push("7".into()),
                        "string" => elems.push("\"s-\" add tag".into()),
                        _ => {}
                    }
                    let pushes: Vec<String> = elems.iter().map(|e| format!("local.push({e})")).collect();
                    let b = build
                        .replace("{A}", &format!("[{}]", elems.join(", ")))
                        .replace("{PUSHES}", &pushes.join("\n"))
                        .replace("{N}", &n.to_string());
                    let mut lines = vec![b, keep.to_string()];
                    // frame churn: calls and loop iterations that reuse whatever was given back
                    lines.push("do churn(i) start\nmake t get \"chunk-\" add to_string(i) add \";xxxxxxxxxxxxxxxxxxxxxxxx\"\nreturn t.len()\nend".into());
                    lines.push("make z get 0\nmake acc get 0\njasi (z small pass 8) start\nacc get acc add churn(z)\nz get z add 1\nend".into());
                    lines.push("shout(jobs)".into());
                    lines.push("shout(jobs.len())".into());
                    lines.push("shout(acc)".into());
                    lines.push("shout(\"done\")".into());
                    out.push((format!("hostonly={btag} keep={ktag} n={n} ctl={ctl}"), lines.join("\n")));
                }
            }
        }
    }
}

// ------------------------------------------------------------------------------------------------
// deferred storage: a value that owns NO storage yet (an empty array, an empty string, a fresh process command)
// is stored into something that outlives the current frame — by index assignment, push, a `make` at top level,
// a return value kept by the caller, an element of a nested array — and only LATER acquires storage, inside a
// region whose frame is reset (a loop body, a function called in a loop, a nested block in a function); then it
// is read after the reset. (Seed C02-d1: index assignment skipped promotion for an empty array, whose `Vec`
// kept the frame allocator.)  how it is stored (6) x what it is (3) x where it grows (4) x how it grows (3).

fn deferred_family(out: &mut Vec<(String, String)>) {
    let stores: [(&str, &str); 6] = [
        ("index-assign", "make box get [[\"old\"], [\"old2\"], [\"old3\"]]\nbox[1] get {E}"),
        ("index-assign-loop", "make box get [[\"a\"], [\"b\"], [\"c\"]]\nmake z get 0\njasi (z small pass 3) start\nbox[z] get {E}\nz get z add 1\nend"),
        ("push", "make box get [[\"x\"]]\nbox.push({E})\nbox.push({E})"),
        ("literal", "make box get [{E}, {E}, {E}]"),
        ("returned", "do fresh() start\nreturn {E}\nend\nmake box get [[\"k\"]]\nbox[0] get fresh()\nbox.push(fresh())"),
        ("nested", "make box get [[[\"n\"]], [[\"m\"]]]\nbox[1][0] get {E}\nbox[0] get [{E}]"),
    ];
    // (tag, empty value, grow statement on target {T} with payload {P}, read expression on {T})
    let kinds: [(&str, &str, [&str; 3], &str); 3] = [
        ("array", "[]", ["{T}.push({P})", "{T}.push([{P}, {P}])", "{T}.push({P})\n{T}.reverse()"], "{T}"),
        ("string", "\"\"", ["{T} get {T} add {P}", "{T} get {T} add {P} add \"-\" add {P}", "{T} get \"<{{P}}>\" add {T}"], "{T}"),
        ("rows", "[[]]", ["{T}[0].push({P})", "{T}.push([{P}])", "{T}[0].push([{P}])"], "{T}"),
    ];
    let regions: [&str; 4] = ["loop", "fn-in-loop", "block-in-fn", "recursion"];
    for (stag, store) in stores {
        for (ktag, empty, grows, read) in kinds {
            for (ri, region) in regions.iter().enumerate() {
                for (gi, grow) in grows.iter().enumerate() {
                    // the target inside `box` that was stored empty
                    let target = match stag {
                        "index-assign" => "box[1]",
                        "index-assign-loop" => "box[w mod 3]",
                        "push" => "box[1 add w mod 2]",
                        "literal" => "box[w mod 3]",
                        "returned" => "box[w mod 2]",
                        _ => "box[w mod 2][0]",
                    };
                    let payload = "\"item_\" add to_string(w)";
                    let g = grow.replace("{T}", target).replace("{{P}}", "{w}").replace("{P}", payload);
                    let mut lines: Vec<String> = vec![store.replace("{E}", empty)];
                    match *region {
                        "loop" => lines.push(format!("make w get 0\njasi (w small pass 7) start\n{g}\nw get w add 1\nend")),
                        "fn-in-loop" => lines.push(format!(
                            "do fill(w) start\n{g}\nreturn w\nend\nmake w get 0\njasi (w small pass 7) start\nfill(w)\nw get w add 1\nend"
                        )),
                        "block-in-fn" => lines.push(format!(
                            "do fill(w) start\nstart\nmake pad get \"pad\" add to_string(w)\n{g}\nend\nreturn w\nend\nfill(0)\nfill(1)\nfill(2)\nfill(3)\nmake w get 3"
                        )),
                        _ => lines.push(format!(
                            "do fill(w) start\nif to say (w small pass 6) start\n{g}\nreturn fill(w add 1)\nend\nreturn w\nend\nfill(0)\nmake w get 5"
                        )),
                    }
                    // churn that reuses whatever the resets gave back, then the reads
                    lines.push("make churn get 0\njasi (churn small pass 5) start\nmake t get \"churn_\" add to_string(churn) add \"_xxxxxxxxxxxxxxxx\"\nchurn get churn add 1\nend".into());
                    let t0 = target.replace("w mod 3", "0").replace("w mod 2", "0").replace("1 add 0", "1");
                    lines.push(format!("shout({})", read.replace("{T}", &t0)));
                    lines.push("shout(box)".into());
                    lines.push("shout(box.len())".into());
                    lines.push("shout(\"done\")".into());
                    let _ = (ri, gi);
                    out.push((format!("deferred={stag} kind={ktag} region={region} grow={gi}"), lines.join("\n")));
                }
            }
        }
    }
}

// ------------------------------------------------------------------------------------------------
// computed temporaries of EVERY length held across a call: the caller is in the middle of an expression and
// holds a string operand that lives on the frame (a variable read, a concatenation, an interpolated string, a
// slice, a case mapping, an element read, a parameter read, a number text) whose end is, for most lengths, not
// 8-byte aligned; the callee's FIRST allocation happens in a region that is reset — a loop entered before any
// local is declared (several kinds of allocation in the body, `next` / `comot` exits, nested loops), a block, a
// branch, a nested call, a recursion — or the callee has no locals at all; controls: one parameter, a local
// declared first. The operand is used after the call. length 1..=40 x callee shape is complete; the source of
// the operand and the holding context rotate so that each is complete against every single other dimension.

const HELD_SRCS: [&str; 8] = ["var", "concat", "interp", "slice", "upper", "index", "param", "tostring"];
const HELD_CTXS: [&str; 8] = ["add", "arrlit", "arg", "store", "recv", "double", "in-loop", "in-fn"];
const HELD_CALLEES: [&str; 16] = [
    "loop-append", "loop-tostring", "loop-arrlit", "loop-local", "loop-interp", "loop-call", "block-first", "if-first",
    "nested-call", "no-locals", "loop-in-loop", "loop-next", "loop-comot", "recursion", "ctl-one-param", "ctl-local-first",
];
const HELD_MAX_LEN: usize = 40;

fn cat_or_short(a: char, b: char, len: usize) -> String {
    if len >= 2 { cat(a, b, len) } else { format!("\"{}\" add \"\"", two(a, b, len)) }
}

/// (globals, the expression) of a held operand of exactly `len` bytes.
fn held_source(tag: &str, len: usize) -> (Vec<String>, String) {
    let content = two('h', 'k', len);
    let c = cat_or_short('h', 'k', len);
    match tag {
        "var" => (vec![format!("make hv get {c}")], "hv".into()),
        "interp" => {
            let lit = two('h', 'k', len - 1);
            let (pre, suf) = lit.split_at(lit.len() - lit.len() / 2);
            (vec!["make hn get 7".into()], format!("\"{pre}{{hn}}{suf}\""))
        }
        "slice" => (vec![], format!("\"xx{content}yy\".slice(2, {})", 2 + len)),
        "upper" => (vec![], format!("\"{content}\".to_uppercase()")),
        "index" => (vec![format!("make ha get [{c}, \"k\"]")], "ha[0]".into()),
        "param" => (vec![], "p".into()),
        "tostring" if len <= 15 => {
            let digits = &"123456789123456"[..len];
            (vec![format!("make hn get {digits}")], "to_string(hn)".into())
        }
        _ => (vec![], format!("({c})")),
    }
}

/// (globals, function definitions, call expression) of callee shape `tag`; every call returns a short string.
fn held_callee(tag: &str) -> (Vec<String>, Vec<String>, String) {
    let globals =
        vec!["make gi get 0".to_string(), "make gj get 0".into(), "make gs get \"g\" add \"s\"".into(), "make ga get [0]".into()];
    let looped = |body: &[&str]| -> String {
        let mut v = vec!["gi get 0".to_string(), "jasi (gi small pass 3) start".into(), "gi get gi add 1".into()];
        v.extend(body.iter().map(|s| (*s).to_string()));
        v.push("end".into());
        v.join("\n")
    };
    let f = |params: &str, body: String| format!("do f({params}) start\n{body}\nreturn \"r\" add gi\nend");
    let mut fns = Vec::new();
    let mut call = "f()".to_string();
    match tag {
        "loop-append" => fns.push(f("", looped(&["gs get (gs add \"abcdefgh\").slice(0, 72)"]))),
        "loop-tostring" => fns.push(f("", looped(&["gs get to_string(gi times 1001)"]))),
        "loop-arrlit" => fns.push(f("", looped(&["ga get [gi, \"el\" add gi, [gi]]"]))),
        "loop-local" => fns.push(f("", looped(&["make l get \"loc\" add gi", "gs get l add l"]))),
        "loop-interp" => fns.push(f("", looped(&["gs get \"it{gi}-{gi}\""]))),
        "loop-call" => {
            fns.push("do leaf() start return \"leaf\" add gi end".into());
            fns.push(f("", looped(&["gs get leaf()"])));
        }
        "block-first" => fns.push(f("", "start\nmake l get \"blk\" add gi\ngs get l\nend".into())),
        "if-first" => fns.push(f("", "if to say (gi na gi) start\nmake l get \"iff\" add gi\ngs get l\nend".into())),
        "nested-call" => {
            fns.push(format!("do f2() start\n{}\nreturn \"r\" add gi\nend", looped(&["gs get gs add \"abcdefgh\""])));
            fns.push("do f() start\nreturn f2()\nend".into());
        }
        "no-locals" => fns.push(f("", "gs get \"nl\" add gi\nga get [gs]".into())),
        "loop-in-loop" => fns.push(f(
            "",
            looped(&["gj get 0", "jasi (gj small pass 2) start", "gj get gj add 1", "gs get \"in\" add gi add gj", "end"]),
        )),
        "loop-next" => fns.push(f(
            "",
            looped(&["gs get \"nx\" add gi", "if to say (gi small pass 3) start", "next", "end", "gs get gs add \"tail\""]),
        )),
        "loop-comot" => fns.push(f("", looped(&["gs get \"cm\" add gi", "if to say (gi na 2) start", "comot", "end"]))),
        "recursion" => fns.push(format!(
            "do f() start\ngj get gj add 1\nif to say (gj mod 3 pass 0) start\nf()\nend\n{}\nreturn \"r\" add gi\nend",
            looped(&["gs get \"rc\" add gi"])
        )),
        "ctl-one-param" => {
            fns.push(f("q", looped(&["gs get gs add \"abcdefgh\""])));
            call = "f(1)".into();
        }
        _ => fns.push(f("", format!("make l get 0\n{}", looped(&["gs get gs add \"abcdefgh\""])))),
    }
    (globals, fns, call)
}

fn held_family(out: &mut Vec<(String, String)>) {
    for len in 1..=HELD_MAX_LEN {
        for (ci, ctag) in HELD_CALLEES.iter().enumerate() {
            let stag = HELD_SRCS[(len + 3 * ci) % HELD_SRCS.len()];
            let xtag = HELD_CTXS[(len + 2 * ci) % HELD_CTXS.len()];
            let (mut lines, h) = held_source(stag, len);
            let (globals, fns, call) = held_callee(ctag);
            lines.extend(globals);
            lines.extend(fns);
            lines.push("do pair(a, b) start\nreturn [a, b]\nend".into());
            // the statement that holds `h` across the call, then uses it
            let stmt: Vec<String> = match xtag {
                "arrlit" => vec![format!("shout([{h}, {call}, {h}])")],
                "arg" => vec![format!("shout(pair({h}, {call}))")],
                "store" => vec![format!("make r get {h} add {call}"), "shout(r)".into()],
                "recv" => vec![format!("shout({h}.replace({call}, \"!\"))")],
                "double" => vec![format!("shout({h} add {call} add {call})")],
                "in-loop" => vec![
                    "make w get 0".into(),
                    "jasi (w small pass 2) start".into(),
                    "w get w add 1".into(),
                    format!("shout({h} add {call})"),
                    "end".into(),
                ],
                _ => vec![format!("shout({h} add {call})")],
            };
            if xtag == "in-fn" || stag == "param" {
                let (p, a) = if stag == "param" { ("p", cat_or_short('h', 'k', len)) } else { ("", String::new()) };
                lines.push(format!("do holder({p}) start\n{}\nend", stmt.join("\n")));
                lines.push(format!("holder({a})"));
                lines.push(format!("holder({a})"));
            } else {
                lines.extend(stmt);
            }
            lines.push("shout(gs)".into());
            lines.push("shout(\"done\")".into());
            out.push((format!("held={stag} hlen={len} callee={ctag} ctx={xtag}"), lines.join("\n")));
        }
    }
}

// ------------------------------------------------------------------------------------------------
// mass release: MANY pooled strings of ONE size class alive at once — more than a quarter, more than half of the
// class's slots — then given back in bulk (elements overwritten one by one, popped in a loop, the array
// reassigned, the owning block / function left, elements replaced by strings of another class, rows of a nested
// array), while strings of the NEXT size class, a string beyond the largest slot and an array, all allocated
// first, stay alive and are printed afterwards together with fresh strings of the released class.
// size class (all 20) x release mode is complete; the fill level and the nesting rotate.

/// (slot size, slot count) of the pool's size classes (src/arena/pool.rs: 8-byte spacing up to 128, then 32).
fn pool_class(c: usize) -> (usize, usize) {
    let size = if c < 16 { (c + 1) * 8 } else { 128 + (c - 15) * 32 };
    let count = match c {
        0..=3 => 16_384,
        4..=7 => 4_096,
        8..=15 => 1_024,
        _ => 512,
    };
    (size, count)
}

/// Release modes. The first five give the slots back to the pool (index assignment, assignment of a popped
/// element to a variable, scope exit of string LOCALS — one per activation of a recursion); the rest drop the
/// strings without returning their slots on the present code (kept as controls for the smaller classes).
const BULK_RELEASES: [&str; 9] = [
    "overwrite", "overwrite-other-class", "pop-assign", "overwrite-rows", "recursion-locals", "pop-statement", "reassign",
    "block-exit", "fn-exit",
];

/// A computed string of exactly `len` bytes ending in the decimal text of `counter` (4 digits: 1000..=9999
/// — or 5: 10000..=99999 when `wide`); `len` below the digits gives just the digits.
fn counted(len: usize, counter: &str, fill: char, wide: bool) -> String {
    let digits = if wide { 5 } else { 4 };
    if len <= digits { format!("\"\" add {counter}") } else { format!("\"{}\" add {counter}", rep(fill, len - digits)) }
}

fn bulk_program(class: usize, release: &str, level: usize) -> Option<(String, String)> {
    let (size, count) = pool_class(class);
    // just over a quarter / just over half / three quarters of the slots
    let n = match level {
        0 => count / 4 + 80,
        1 => count / 2 + 80,
        _ => count / 4 * 3,
    };
    let frees = matches!(release, "overwrite" | "overwrite-other-class" | "pop-assign" | "overwrite-rows" | "recursion-locals");
    if (!frees && n > 2500) || (release == "recursion-locals" && n > 1250) {
        return None;
    }
    let wide = n > 8000;
    let base = if wide { 10_000 } else { 1_000 };
    // lengths: the upper end of the class for the kept strings; victims in the next class (its upper and lower end)
    let len = size.max(if wide { 5 } else { 4 });
    let mut l: Vec<String> = Vec::new();
    if class + 1 < 20 {
        let (nsize, _) = pool_class(class + 1);
        l.push(format!("make victim get {}", counted(nsize, "5000", 'v', false)));
        l.push(format!("make victim2 get {}", counted(size + 1, "6000", 'w', false)));
        l.push(format!("make victims get [{}, {}]", counted(nsize, "7000", 'x', false), counted(nsize - 1, "8000", 'y', false)));
    } else {
        l.push("make victim get \"last\" add 5000".into());
        l.push("make victim2 get \"class\" add 6000".into());
        l.push("make victims get [\"a\" add 7000, \"b\" add 8000]".into());
    }
    l.push(format!("make big get {}", counted(300, "9000", 'B', false)));
    l.push("make nums get [1, 2, 3, 4, 5, 6, 7, 8]".into());
    let elem = counted(len, "i", 'e', wide);
    let fill = |name: &str| -> Vec<String> {
        vec![
            format!("make {name} get []"),
            format!("make i get {base}"),
            format!("jasi (i small pass {}) start", base + n),
            format!("{name}.push({elem})"),
            "i get i add 1".into(),
            "end".into(),
        ]
    };
    // (no `keep.len()` in a loop condition: reading an array copies it)
    let each = |n: usize, body: &str| -> Vec<String> {
        vec!["make j get 0".into(), format!("jasi (j small pass {n}) start"), body.to_string(), "j get j add 1".into(), "end".into()]
    };
    let probe = "shout(keep[1])";
    match release {
        "overwrite" => {
            l.extend(fill("keep"));
            l.push(probe.into());
            l.extend(each(n, "keep[j] get 0"));
            l.push("shout(keep.len())".into());
        }
        "overwrite-other-class" => {
            l.extend(fill("keep"));
            l.push(probe.into());
            // the replacement lives in another class (8 bytes more, or 8 for the largest classes)
            let other = if class < 15 { size + 8 } else { 8 };
            l.extend(each(n, &format!("keep[j] get {}", counted(other, "(j add 1000)", 'o', false))));
            l.push(probe.into());
        }
        "pop-assign" => {
            l.extend(fill("keep"));
            l.push(probe.into());
            l.push("make last get \"\"".into());
            l.extend(each(n, "last get keep.pop()"));
            l.push("shout(last)".into());
            l.push("shout(keep.len())".into());
        }
        "overwrite-rows" => {
            // rows of two strings: the elements are released through a two-level index assignment
            l.push("make keep get []".into());
            l.push(format!("make i get {base}"));
            l.push(format!("jasi (i small pass {}) start", base + n));
            l.push(format!("keep.push([{}, {}])", counted(len, "i", 'e', wide), counted(len, "(i add 1)", 'f', wide)));
            l.push("i get i add 2".into());
            l.push("end".into());
            l.push("shout(keep[1])".into());
            l.extend(vec![
                "make j get 0".to_string(),
                format!("jasi (j small pass {}) start", n.div_ceil(2)),
                "keep[j][0] get j".into(),
                "keep[j][1] get null".into(),
                "j get j add 1".into(),
                "end".into(),
            ]);
            l.push("shout(keep[0])".into());
        }
        "recursion-locals" => {
            // one string local per activation: all of them released while the recursion unwinds
            l.push("do dive(d) start".into());
            l.push(format!("make mine get {}", counted(len, "d", 'e', false)));
            l.push(format!("if to say (d pass {base}) start"));
            l.push("return dive(d minus 1) add 1".into());
            l.push("end".into());
            l.push("return mine.len()".into());
            l.push("end".into());
            l.push(format!("shout(dive({}))", base + n));
        }
        "pop-statement" => {
            l.extend(fill("keep"));
            l.push(probe.into());
            l.extend(each(n, "keep.pop()"));
            l.push("shout(keep.len())".into());
        }
        "reassign" => {
            l.extend(fill("keep"));
            l.push(probe.into());
            l.push("keep get []".into());
            l.push("shout(keep.len())".into());
        }
        "block-exit" => {
            l.push("start".into());
            l.extend(fill("keep"));
            l.push(probe.into());
            l.push("end".into());
        }
        _ => {
            l.push("do hold_many() start".into());
            l.extend(fill("keep"));
            l.push(probe.into());
            l.push("return keep.len()".into());
            l.push("end".into());
            l.push("shout(hold_many())".into());
        }
    }
    // the survivors, then fresh strings of the released class (they reuse the freed slots), then the survivors again
    let survivors = ["shout(victim)", "shout(victim2)", "shout(victims)", "shout(big)", "shout(nums)"];
    l.extend(survivors.iter().map(|s| (*s).to_string()));
    l.push(format!(
        "make again get [{}, {}, {}]",
        counted(len, "1111", 'n', false),
        counted(len, "2222", 'n', false),
        counted(len, "3333", 'n', false)
    ));
    l.push("shout(again)".into());
    l.extend(survivors.iter().map(|s| (*s).to_string()));
    l.push("shout(\"done\")".into());
    let lvl = ["quarter", "half", "three-quarters"][level.min(2)];
    Some((format!("bulk={release} cls={class} fill={lvl}"), l.join("\n")))
}

fn bulk_family(out: &mut Vec<(String, String)>) {
    for class in 0..20 {
        for (ri, release) in BULK_RELEASES.iter().enumerate() {
            // the big classes (16384 slots) only just over a quarter: thousands of statements per program
            let level = if class < 4 { 0 } else { (class + ri) % 3 };
            if let Some(p) = bulk_program(class, release, level).or_else(|| bulk_program(class, release, 0)) {
                out.push(p);
            }
        }
    }
}

// ================================================================================================
// the random generator
//
// Size discipline: without it a random program doubles a string in a loop until the arenas are
// exhausted, which ends both runs in an allocation failure and says nothing about C02. Every
// expression carries an upper bound of the size of its value (bytes of its printed form); every
// variable has a capacity by type; a store of something that may exceed the capacity goes through
// `.slice(0, cap / 4)`; growing array operations inside loops and functions are guarded by a
// length test. The bounds are worst cases: typical values are a few dozen bytes.

#[derive(Clone, Copy, PartialEq, Eq, Debug)]
enum Ty {
    Str,
    Num,
    Bool,
    ArrS,
    ArrA,
    Cmd,
}

const ALL_TYS: [Ty; 6] = [Ty::Str, Ty::Num, Ty::Bool, Ty::ArrS, Ty::ArrA, Ty::Cmd];

const STR_CAP: usize = 640;
const ARRS_CAP: usize = 16384;
const ARRA_CAP: usize = 4 * (ARRS_CAP + 2) + 2;
const CMD_CAP: usize = STR_CAP + 48;
const TEMP_LIMIT: usize = 8 * STR_CAP;
const ARRS_MAX_PUSH_LEN: usize = 8;
const ARRA_MAX_PUSH_LEN: usize = 4;

impl Ty {
    /// Variable names: the first letter fixes the type for the whole program.
    fn names(self) -> &'static [&'static str] {
        match self {
            Ty::Str => &["s0", "s1", "s2", "s3", "s4"],
            Ty::Num => &["n0", "n1", "n2"],
            Ty::Bool => &["b0", "b1"],
            Ty::ArrS => &["a0", "a1", "a2"],
            Ty::ArrA => &["m0", "m1"],
            Ty::Cmd => &["c0", "c1"],
        }
    }
    fn param_prefix(self) -> &'static str {
        match self {
            Ty::Str => "ps",
            Ty::Num => "pn",
            Ty::Bool => "pb",
            Ty::ArrS => "pa",
            Ty::ArrA => "pm",
            Ty::Cmd => "pc",
        }
    }
    /// Capacity: upper bound of the printed size of any value a variable of this type ever holds.
    fn cap(self) -> usize {
        match self {
            Ty::Str => STR_CAP,
            Ty::Num => 24,
            Ty::Bool => 5,
            Ty::ArrS => ARRS_CAP,
            Ty::ArrA => ARRA_CAP,
            Ty::Cmd => CMD_CAP,
        }
    }
}

#[derive(Clone)]
struct Var {
    name: String,
    ty: Ty,
    /// the resolver infers exactly `ty` (not Dynamic) for a read of this variable
    precise: bool,
    /// current bound of the printed size (<= cap)
    cur: usize,
    /// never an assignment target (recursion depth counter)
    ro: bool,
}

#[derive(Clone)]
struct Func {
    name: String,
    params: Vec<(String, Ty)>,
    ret: Option<Ty>,
    recursive: bool,
}

/// An expression: text, whether the resolver infers its exact type, bound of the printed size.
#[derive(Clone)]
struct Ex {
    t: String,
    p: bool,
    b: usize,
}

fn ex(t: impl Into<String>, p: bool, b: usize) -> Ex {
    Ex { t: t.into(), p, b }
}

/// Bound a string expression by `limit` bytes.
fn fit(e: Ex, limit: usize) -> Ex {
    if e.b <= limit { e } else { Ex { t: format!("({}).slice(0, {})", e.t, limit / 4), p: e.p, b: limit } }
}

struct Gen {
    rng: Rng,
    scopes: Vec<Vec<Var>>,
    funcs: Vec<Func>,
    /// index of the function whose body is being generated
    cur_fn: Option<usize>,
    loop_depth: usize,
    /// nesting depth of blocks inside the current body
    block_depth: usize,
    budget: i64,
    lines: Vec<String>,
    boundary: bool,
    unicode: bool,
    /// a deliberate runtime error may still be planted
    risky: bool,
    next_counter: usize,
    /// indices (into `funcs`) of the fixed helper functions that store their argument
    storers: Vec<usize>,
    /// how often each of the temporary-receiver shapes was emitted
    shapes: BTreeMap<&'static str, u64>,
    /// index (into `funcs`) of the fixed helper `hq()`: no parameter, no local, a loop first
    loop_first: Option<usize>,
}

/// Lengths of the computed strings that are pushed, popped and stored by the temporary-receiver
/// shapes: mostly the first pool class, some of the next ones.
const POOL_LENS: [usize; 16] = [1, 2, 3, 4, 4, 5, 5, 6, 7, 8, 8, 9, 12, 16, 17, 24];

const BOUNDARY_LENS: [usize; 9] = [7, 8, 9, 16, 17, 128, 129, 256, 257];
const WORDS: [&str; 12] = ["ab", "naija", "x", "wahala", "go", "chop", "  pad  ", "a,b,c", "Oya", "k-9", "zz", "e"];
const UNI: [&str; 8] = ["é", "ß", "世界", "🌎", "ǆ", "ñ", "İ", "ﬁ"];
const NEEDLES: [&str; 10] = ["a", "b", ",", " ", "ab", "z", "-", "m", "e", "O"];

impl Gen {
    fn new(rng: Rng) -> Gen {
        Gen {
            rng,
            scopes: vec![Vec::new()],
            funcs: Vec::new(),
            cur_fn: None,
            loop_depth: 0,
            block_depth: 0,
            budget: 0,
            lines: Vec::new(),
            boundary: false,
            unicode: false,
            risky: false,
            next_counter: 0,
            storers: Vec::new(),
            shapes: BTreeMap::new(),
            loop_first: None,
        }
    }

    fn shape(&mut self, what: &'static str) {
        *self.shapes.entry(what).or_insert(0) += 1;
    }

    fn emit(&mut self, s: String) {
        self.lines.push(s);
    }

    /// Code that may run more than once: bounds have to hold for every execution.
    fn repeated(&self) -> bool {
        self.loop_depth > 0 || self.cur_fn.is_some()
    }

    // ------------------------------------------------------------------ scopes

    fn vars_of(&self, ty: Ty) -> Vec<Var> {
        // innermost binding per name
        let mut seen = HashSet::new();
        let mut out = Vec::new();
        for s in self.scopes.iter().rev() {
            for v in s.iter().rev() {
                if seen.insert(v.name.clone()) && v.ty == ty {
                    out.push(v.clone());
                }
            }
        }
        out
    }

    fn pick_var(&mut self, ty: Ty) -> Option<Var> {
        let vs = self.vars_of(ty);
        if vs.is_empty() { None } else { Some(vs[self.rng.below(vs.len() as u64) as usize].clone()) }
    }

    /// A variable that may be assigned.
    fn pick_target(&mut self, ty: Ty) -> Option<Var> {
        let vs: Vec<Var> = self.vars_of(ty).into_iter().filter(|v| !v.ro).collect();
        if vs.is_empty() { None } else { Some(vs[self.rng.below(vs.len() as u64) as usize].clone()) }
    }

    fn declare(&mut self, name: &str, ty: Ty, precise: bool, cur: usize) {
        let cur = if self.repeated() { ty.cap() } else { cur.min(ty.cap()) };
        let scope = self.scopes.last_mut().unwrap();
        if let Some(v) = scope.iter_mut().find(|v| v.name == name) {
            v.precise = precise;
            v.cur = cur;
        } else {
            scope.push(Var { name: name.to_string(), ty, precise, cur, ro: false });
        }
    }

    /// Record the bound of the innermost binding of `name` after a store.
    fn set_cur(&mut self, name: &str, cur: usize) {
        let repeated = self.repeated();
        for s in self.scopes.iter_mut().rev() {
            if let Some(v) = s.iter_mut().rev().find(|v| v.name == name) {
                v.cur = if repeated { v.ty.cap() } else { cur.min(v.ty.cap()) };
                return;
            }
        }
    }

    /// Every visible variable may hold anything up to its capacity from here on.
    fn widen_all(&mut self) {
        for s in &mut self.scopes {
            for v in s.iter_mut() {
                v.cur = v.ty.cap();
            }
        }
    }

    // ------------------------------------------------------------------ literals

    fn lit_text(&mut self) -> String {
        let r = &mut self.rng;
        if self.boundary && r.chance(1, 3) {
            let len = *r.pick(&BOUNDARY_LENS);
            let c = *r.pick(&['a', 'b', 'c', 'd', 'Q', '7', ' ']);
            let mut s = rep(c, len);
            if self.unicode && len >= 4 && r.chance(1, 3) {
                // keep the byte length: "é" is two bytes
                s.replace_range(0..2, "é");
            }
            return s;
        }
        let mut s = String::new();
        let parts = r.below(3);
        for _ in 0..parts {
            if self.unicode && r.chance(1, 3) {
                s.push_str(r.pick(&UNI));
            } else {
                s.push_str(r.pick(&WORDS));
            }
        }
        if r.chance(1, 8) {
            s.push_str(&rep('m', r.below(20) as usize));
        }
        s
    }

    /// A quoted string literal (static text: never interpolated).
    fn lit_str(&mut self) -> Ex {
        let t = self.lit_text();
        let b = t.len() + 1;
        let t = match self.rng.below(12) {
            0 => format!("'{t}'"),
            // a literal with an escape is an owned string of the parser's arena
            1 => format!("\"{t}\\n\""),
            2 => format!("\"\\\\{t}\""),
            _ => format!("\"{t}\""),
        };
        ex(t, true, b)
    }

    fn short_needle(&mut self) -> Ex {
        let n = *self.rng.pick(&NEEDLES);
        ex(format!("\"{n}\""), true, n.len())
    }

    // ------------------------------------------------------------------ expressions

    /// Force the static type String.
    fn pstr(e: &Ex) -> String {
        if e.p { e.t.clone() } else { format!("(\"\" add {})", e.t) }
    }

    /// Force the static type Number.
    fn pnum(e: &Ex) -> String {
        if e.p { e.t.clone() } else { format!("(0 add {})", e.t) }
    }

    /// Force the static type Bool.
    fn pbool(e: &Ex) -> String {
        if e.p { e.t.clone() } else { format!("({} na true)", e.t) }
    }

    fn callable(&self, ret: Ty) -> Vec<usize> {
        let limit = self.cur_fn.unwrap_or(self.funcs.len());
        (0..limit).filter(|&i| self.funcs[i].ret == Some(ret)).collect()
    }

    fn pick_callable(&mut self, ret: Ty) -> Option<usize> {
        let fs = self.callable(ret);
        if fs.is_empty() { None } else { Some(fs[self.rng.below(fs.len() as u64) as usize]) }
    }

    /// An argument for a parameter of type `ty`: within the capacity of the parameter.
    fn arg(&mut self, ty: Ty, depth: u32) -> String {
        match ty {
            Ty::Str => self.str_within(depth, STR_CAP).t,
            _ => self.expr(ty, depth).t,
        }
    }

    /// A call of user function `fi` with well-typed arguments.
    fn call(&mut self, fi: usize, depth: u32) -> String {
        let f = self.funcs[fi].clone();
        let mut args = Vec::new();
        for (name, ty) in &f.params {
            if name == "d" {
                args.push(self.rng.range(0, 3).to_string());
            } else {
                args.push(self.arg(*ty, depth + 1));
            }
        }
        format!("{}({})", f.name, args.join(", "))
    }

    /// The recursive call of the function being generated (depth counter decreasing).
    fn self_call(&mut self, depth: u32) -> String {
        let fi = self.cur_fn.expect("inside a function");
        let f = self.funcs[fi].clone();
        let mut args = Vec::new();
        for (name, ty) in &f.params {
            if name == "d" {
                args.push("d minus 1".to_string());
            } else {
                args.push(self.arg(*ty, depth + 1));
            }
        }
        format!("{}({})", f.name, args.join(", "))
    }

    fn expr(&mut self, ty: Ty, depth: u32) -> Ex {
        match ty {
            Ty::Str => self.str_expr(depth),
            Ty::Num => self.num_expr(depth),
            Ty::Bool => self.bool_expr(depth),
            Ty::ArrS => self.arrs_expr(depth),
            Ty::ArrA => self.arra_expr(depth),
            Ty::Cmd => self.cmd_expr(depth),
        }
    }

    fn any_var(&mut self) -> Option<Var> {
        let ty = *self.rng.pick(&ALL_TYS);
        self.pick_var(ty).or_else(|| self.pick_var(Ty::Str))
    }

    fn interpolation(&mut self) -> Ex {
        let mut s = String::from("\"");
        let mut b = 0;
        let n = 1 + self.rng.below(3);
        for _ in 0..n {
            if self.rng.chance(2, 3) {
                let w = if self.unicode && self.rng.chance(1, 4) { *self.rng.pick(&UNI) } else { *self.rng.pick(&WORDS) };
                s.push_str(w);
                b += w.len();
            }
            if let Some(v) = self.any_var() {
                s.push('{');
                s.push_str(&v.name);
                s.push('}');
                b += v.cur;
            }
        }
        if self.boundary && self.rng.chance(1, 3) {
            let len = *self.rng.pick(&BOUNDARY_LENS);
            let pad = len.saturating_sub(3);
            s.push_str(&rep('i', pad));
            b += pad;
        }
        s.push('"');
        ex(s, true, b)
    }

    // ------------------------------------------------------------------ computed temporaries
    //
    // Receivers that are not variables or literals: a string moved out of an array by `pop()` (the
    // only temporary that OWNS a pool slot), the element of a popped array, call results (staged /
    // relocated strings), concatenations, and identity methods chained on those. An expression
    // generator may emit a statement: it lands in front of the statement the expression belongs to
    // (every statement generator emits its line after its expressions are generated), in the same
    // block, so it runs exactly when the expression does.

    fn pool_len(&mut self) -> usize {
        if self.boundary && self.rng.chance(1, 3) { *self.rng.pick(&BOUNDARY_LENS) } else { *self.rng.pick(&POOL_LENS) }
    }

    /// Exactly `len` bytes of text; sometimes padded, upper case or digits so that the trimming, case
    /// and number methods have both their identity and their changing case.
    fn text_of(&mut self, len: usize) -> String {
        let c = *self.rng.pick(&['a', 'b', 'e', 'm', 'z', 'k']);
        let mut s = rep(c, len);
        match self.rng.below(8) {
            0 if len >= 2 => s.replace_range(0..1, " "),
            1 if len >= 3 => {
                s.replace_range(0..1, " ");
                s.replace_range(len - 1..len, " ");
            }
            2 => s = s.to_uppercase(),
            3 if len <= 12 => s = "1234567890123"[..len].to_string(),
            4 if len >= 3 => s.replace_range(1..2, ","),
            _ => {}
        }
        s
    }

    /// A concatenation (a frame temporary when evaluated) of exactly `len` bytes.
    fn computed(&mut self, len: usize) -> String {
        let s = self.text_of(len);
        let h = self.rng.below(len as u64 + 1) as usize;
        format!("\"{}\" add \"{}\"", &s[..h], &s[h..])
    }

    /// A literal of exactly `len` bytes.
    fn literal_of(&mut self, len: usize) -> String {
        let c = *self.rng.pick(&['q', 'r', 'y', 'z']);
        format!("\"{}\"", rep(c, len))
    }

    /// `a.pop()` of an array that has just been given a computed element of `len` bytes: the popped
    /// string owns its pool slot.
    fn pop_temp(&mut self) -> Option<(Ex, usize)> {
        let a = self.pick_target(Ty::ArrS)?;
        let len = self.pool_len();
        let x = self.computed(len);
        self.emit(format!("{}.push({x})", a.name));
        self.shape("recv_pop");
        // a call evaluated earlier in the same statement may have pushed something else
        Some((ex(format!("{}.pop()", a.name), false, STR_CAP), len))
    }

    /// `m.pop()` of a nested array that has just been given `[<computed>, <literal>]`.
    fn pop_array_temp(&mut self) -> Option<(Ex, usize)> {
        let m = self.pick_target(Ty::ArrA)?;
        let len = self.pool_len();
        let x = self.computed(len);
        let k = self.literal_of(1 + len % 3);
        self.emit(format!("{}.push([{x}, {k}])", m.name));
        self.shape("recv_array_pop");
        Some((ex(format!("{}.pop()", m.name), false, ARRS_CAP), len))
    }

    /// A call of one of the storing helpers (or of any string function) with a literal of `len` bytes.
    fn storer_call(&mut self, len: usize, depth: u32) -> Ex {
        if !self.storers.is_empty() {
            let fi = *self.rng.pick(&self.storers.clone());
            // inside a helper itself (never: helpers are fixed text) or before its definition: not callable
            if fi < self.cur_fn.unwrap_or(self.funcs.len()) {
                let arg = self.literal_of(len);
                self.shape("storer_call");
                return ex(format!("{}({arg})", self.funcs[fi].name), false, STR_CAP);
            }
        }
        match self.pick_callable(Ty::Str) {
            Some(fi) => {
                self.shape("storer_other_call");
                ex(self.call(fi, depth + 1), false, STR_CAP)
            }
            None => self.interpolation(),
        }
    }

    /// A string-valued computed temporary and, when known, its length.
    fn temp_recv(&mut self, depth: u32) -> (Ex, Option<usize>) {
        for _ in 0..3 {
            match self.rng.below(11) {
                0..=4 => {
                    if let Some((e, len)) = self.pop_temp() {
                        return (e, Some(len));
                    }
                }
                5 => {
                    if let Some((e, len)) = self.pop_array_temp() {
                        self.shape("recv_popped_array_elem");
                        return (ex(format!("{}[0]", e.t), false, STR_CAP), Some(len));
                    }
                }
                6 | 7 => {
                    if let Some(fi) = self.pick_callable(Ty::Str) {
                        self.shape("recv_call");
                        return (ex(self.call(fi, depth + 1), false, STR_CAP), None);
                    }
                }
                8 => {
                    let len = self.pool_len();
                    let x = self.computed(len);
                    self.shape("recv_concat");
                    return (ex(format!("({x})"), true, len), Some(len));
                }
                _ => {
                    if depth < 3 {
                        // chained: an identity-biased method of another temporary
                        let (r, len) = self.temp_recv(depth + 1);
                        self.shape("recv_chained");
                        return (self.str_method_on(&r, len), len);
                    }
                }
            }
        }
        let len = self.pool_len();
        let x = self.computed(len);
        self.shape("recv_concat");
        (ex(format!("({x})"), true, len), Some(len))
    }

    /// A string-valued method call on receiver `r`; the cases that leave the text as it is (nothing to
    /// trim, already lower case, no match, the whole string) are the common ones.
    fn str_method_on(&mut self, r: &Ex, len: Option<usize>) -> Ex {
        let whole = len.unwrap_or(999);
        let (call, b, what): (String, usize, &'static str) = match self.rng.below(16) {
            0..=3 => (".trim()".into(), r.b, "temp_trim"),
            4 | 5 => (".to_lowercase()".into(), 3 * r.b, "temp_to_lowercase"),
            6 => (".to_uppercase()".into(), 3 * r.b, "temp_to_uppercase"),
            7 | 8 => (format!(".slice(0, {whole})"), r.b, "temp_slice_whole"),
            9 => {
                let a = self.rng.range(-3, 4);
                let b = self.rng.range(-2, 12);
                (format!(".slice({}, {})", num_lit(a), num_lit(b)), r.b, "temp_slice")
            }
            10 | 11 => (".replace(\"#\", \"x\")".into(), r.b, "temp_replace_no_match"),
            12 => {
                let old = self.short_needle();
                let new = self.short_needle();
                (format!(".replace({}, {})", old.t, new.t), r.b + (r.b + 1) * new.b, "temp_replace")
            }
            13 => (".replace(\"\", \"\")".into(), r.b, "temp_replace_empty"),
            14 => (".split(\"#\").join(\"\")".into(), r.b, "temp_split_no_match"),
            _ => {
                let pat = self.short_needle();
                (format!(".split({}).join(\"+\")", pat.t), 2 * r.b + 1, "temp_split")
            }
        };
        self.shape(what);
        fit(ex(format!("{}{call}", r.t), r.p, b), TEMP_LIMIT)
    }

    /// The result of a string method of a computed temporary, held by an enclosing evaluation while a
    /// sibling stores a string of the same length (hence of the same pool class).
    fn held_temp(&mut self, depth: u32) -> Ex {
        let (r, len) = self.temp_recv(depth);
        let r = fit(r, STR_CAP);
        let e = self.str_method_on(&r, len);
        let slen = len.unwrap_or_else(|| self.pool_len());
        match self.rng.below(10) {
            0..=3 => {
                let st = self.storer_call(slen, depth);
                self.shape("held_add_call");
                ex(format!("({} add {})", e.t, st.t), true, e.b + st.b)
            }
            4 => {
                let st = self.storer_call(slen, depth);
                self.shape("held_call_add");
                ex(format!("({} add {})", st.t, e.t), true, e.b + st.b)
            }
            5 => {
                // the result is itself the receiver of a method whose argument stores
                let st = self.storer_call(slen, depth);
                self.shape("held_receiver_of_call_arg");
                let e = fit(e, STR_CAP);
                ex(format!("{}.replace({}, \"x\")", e.t, st.t), e.p, e.b + (e.b + 1))
            }
            6 => {
                // ... or an argument of a method, evaluated before the next argument stores
                let st = self.storer_call(slen, depth);
                self.shape("held_method_arg");
                let host = self.literal_of(slen);
                ex(format!("{host}.replace({}, {})", e.t, fit(st, 64).t), true, slen + (slen + 1) * 64)
            }
            7 => {
                // several such elements in one literal, joined
                let (r2, len2) = self.temp_recv(depth + 1);
                let e2 = self.str_method_on(&fit(r2, STR_CAP), len2);
                let fresh = self.computed(slen);
                self.shape("held_literal_elements");
                ex(format!("[{}, {}, {fresh}].join(\"/\")", e.t, e2.t), true, e.b + e2.b + slen + 2)
            }
            8 => {
                // the receiver is released, then the same length is stored and the result is used
                self.shape("held_plain");
                e
            }
            _ => {
                let st = self.storer_call(slen, depth);
                self.shape("held_literal_with_call");
                ex(format!("[{}, {}].join(\"/\")", e.t, st.t), true, e.b + st.b + 1)
            }
        }
    }

    /// A string-valued receiver: something a method can be called on directly.
    fn str_atom(&mut self, depth: u32) -> Ex {
        if depth < 3 && self.rng.chance(1, 12) {
            let (r, _) = self.temp_recv(depth);
            return fit(r, STR_CAP);
        }
        if let Some(v) = self.pick_var(Ty::Str)
            && self.rng.chance(3, 4)
        {
            return ex(v.name, v.precise, v.cur);
        }
        if depth < 3 && self.rng.chance(1, 3) {
            let e = self.str_expr(depth + 1);
            return ex(format!("({})", e.t), e.p, e.b);
        }
        self.lit_str()
    }

    fn str_expr(&mut self, depth: u32) -> Ex {
        // no temporary beyond TEMP_LIMIT is ever an operand of something else
        self.str_within(depth, TEMP_LIMIT)
    }

    /// A string expression of at most `limit` bytes.
    fn str_within(&mut self, depth: u32, limit: usize) -> Ex {
        let e = self.str_expr_raw(depth);
        fit(e, limit)
    }

    fn str_expr_raw(&mut self, depth: u32) -> Ex {
        let deep = depth >= 3;
        // the temporary-receiver shapes: a small share of all string expressions
        if !deep && self.rng.chance(1, 24) {
            if self.rng.chance(4, 5) {
                return self.held_temp(depth);
            }
            // an array popped from an array (or returned by a call), joined while the separator stores
            let a = self.arrs_temp(depth);
            let len = self.pool_len();
            let sep = fit(self.storer_call(len, depth), 8);
            self.shape("held_array_join_call");
            return ex(format!("{}.join({})", a.t, sep.t), a.p, a.b + (a.b / 4 + 1) * sep.b);
        }
        let pick = if deep { self.rng.below(3) } else { self.rng.below(22) };
        match pick {
            0 => self.lit_str(),
            1 | 2 | 3 | 4 => match self.pick_var(Ty::Str) {
                Some(v) => ex(v.name, v.precise, v.cur),
                None => self.lit_str(),
            },
            5 | 6 | 7 => {
                // string concatenation: always inferred String
                let a = self.str_expr(depth + 1);
                let b = self.str_expr(depth + 1);
                ex(format!("({} add {})", a.t, b.t), true, a.b + b.b)
            }
            8 => {
                // string with number: the string side has to be statically String
                let a = self.str_expr(depth + 1);
                let n = self.num_expr(depth + 1);
                if self.rng.chance(2, 3) {
                    ex(format!("({} add {})", Self::pstr(&a), n.t), true, a.b + 24)
                } else {
                    ex(format!("({} add {})", n.t, Self::pstr(&a)), true, a.b + 24)
                }
            }
            9 | 10 => self.interpolation(),
            11 => {
                let r = self.str_atom(depth);
                let a = self.rng.range(-3, 4);
                let b = self.rng.range(-2, 12);
                let bound = if b >= 0 { r.b.min(4 * b as usize) } else { r.b };
                ex(format!("{}.slice({}, {})", r.t, num_lit(a), num_lit(b)), r.p, bound)
            }
            12 => {
                let r = self.str_atom(depth);
                let m = *self.rng.pick(&["to_uppercase", "to_lowercase", "trim"]);
                // case mapping may lengthen ("ß" -> "SS", "İ" -> "i̇")
                ex(format!("{}.{m}()", r.t), r.p, if m == "trim" { r.b } else { 3 * r.b })
            }
            13 => {
                let r = fit(self.str_atom(depth), STR_CAP);
                let old = if self.rng.chance(1, 4) { self.str_expr(depth + 1) } else { self.short_needle() };
                let mut new = self.str_expr(depth + 1);
                if new.b > 64 {
                    new = self.short_needle();
                }
                // an empty pattern inserts `new` around every character
                ex(format!("{}.replace({}, {})", r.t, old.t, new.t), r.p, r.b + (r.b + 1) * new.b)
            }
            14 => {
                let ty = *self.rng.pick(&ALL_TYS);
                let e = self.expr(ty, depth + 1);
                ex(format!("to_string({})", e.t), true, e.b)
            }
            15 => {
                let ty = *self.rng.pick(&ALL_TYS);
                let e = self.expr(ty, depth + 1);
                ex(format!("typeof({})", e.t), true, 16)
            }
            16 | 17 => {
                let a = if self.rng.chance(1, 2) { self.arrs_atom(depth) } else { self.arra_atom(depth) };
                let mut sep = if self.rng.chance(1, 3) { self.str_expr(depth + 1) } else { self.short_needle() };
                if sep.b > 8 {
                    sep = self.short_needle();
                }
                ex(format!("{}.join({})", a.t, sep.t), a.p, a.b + (a.b / 4 + 1) * sep.b)
            }
            18 | 19 => match self.pick_callable(Ty::Str) {
                Some(fi) => ex(self.call(fi, depth), false, STR_CAP),
                None => self.interpolation(),
            },
            _ => {
                // a growing string: variable plus padding
                match self.pick_var(Ty::Str) {
                    Some(v) => {
                        let pad = self.lit_str();
                        ex(format!("({} add {})", v.name, pad.t), true, v.cur + pad.b)
                    }
                    None => self.lit_str(),
                }
            }
        }
    }

    fn num_expr(&mut self, depth: u32) -> Ex {
        let deep = depth >= 3;
        let pick = if deep { self.rng.below(3) } else { self.rng.below(16) };
        let (t, p) = match pick {
            0 | 1 => (self.rng.range(0, 9).to_string(), true),
            2 | 3 => match self.pick_var(Ty::Num) {
                Some(v) => (v.name, v.precise),
                None => (self.rng.range(0, 5).to_string(), true),
            },
            4 => {
                // `add`: one side has to be statically Number
                let a = self.num_expr(depth + 1);
                let b = self.num_expr(depth + 1);
                if a.p || b.p { (format!("({} add {})", a.t, b.t), true) } else { (format!("({} add {})", Self::pnum(&a), b.t), true) }
            }
            5 => {
                let a = self.num_expr(depth + 1);
                let b = self.num_expr(depth + 1);
                let op = *self.rng.pick(&["minus", "times"]);
                (format!("({} {op} {})", a.t, b.t), true)
            }
            6 => {
                let a = self.num_expr(depth + 1);
                let op = *self.rng.pick(&["divide", "mod"]);
                let d = self.rng.range(1, 7);
                (format!("({} {op} {d})", a.t), true)
            }
            7 | 8 => {
                let r = self.str_atom(depth);
                (format!("{}.len()", r.t), r.p)
            }
            9 => {
                let r = self.str_atom(depth);
                let needle = if self.rng.chance(1, 4) { self.str_expr(depth + 1) } else { self.short_needle() };
                (format!("{}.find({})", r.t, needle.t), r.p)
            }
            10 => {
                let a = if self.rng.chance(2, 3) { self.arrs_atom(depth) } else { self.arra_atom(depth) };
                (format!("{}.len()", a.t), a.p)
            }
            11 => {
                let a = self.num_expr(depth + 1);
                let m = *self.rng.pick(&["abs", "floor", "ceil", "round", "sqrt"]);
                (format!("({}).{m}()", a.t), a.p)
            }
            12 => {
                let a = self.num_expr(depth + 1);
                (format!("(minus {})", Self::pnum(&a)), true)
            }
            13 => {
                let r = if self.rng.chance(1, 2) { ex(format!("\"{}\"", self.rng.range(0, 300)), true, 3) } else { self.str_atom(depth) };
                (format!("{}.to_number()", r.t), r.p)
            }
            14 => match self.pick_callable(Ty::Num) {
                Some(fi) => (self.call(fi, depth), false),
                None => (self.rng.range(0, 9).to_string(), true),
            },
            _ => (format!("{}.5", self.rng.range(0, 9)), true),
        };
        ex(t, p, 24)
    }

    fn bool_expr(&mut self, depth: u32) -> Ex {
        let deep = depth >= 3;
        let pick = if deep { self.rng.below(4) } else { self.rng.below(12) };
        let (t, p) = match pick {
            0 => ((*self.rng.pick(&["true", "false"])).to_string(), true),
            1 => match self.pick_var(Ty::Bool) {
                Some(v) => (v.name, v.precise),
                None => ("true".into(), true),
            },
            2 | 3 | 4 => {
                let a = self.num_expr(depth + 1);
                let b = self.num_expr(depth + 1);
                let op = *self.rng.pick(&["na", "pass", "small pass"]);
                (format!("({} {op} {})", a.t, b.t), true)
            }
            5 | 6 | 7 => {
                let a = self.str_expr(depth + 1);
                let b = self.str_expr(depth + 1);
                let op = *self.rng.pick(&["na", "na", "pass", "small pass"]);
                (format!("({} {op} {})", a.t, b.t), true)
            }
            8 => {
                let a = self.bool_expr(depth + 1);
                let b = self.bool_expr(depth + 1);
                let op = *self.rng.pick(&["and", "or", "na"]);
                (format!("({} {op} {})", a.t, b.t), true)
            }
            9 => {
                let a = self.bool_expr(depth + 1);
                (format!("(not {})", Self::pbool(&a)), true)
            }
            10 => match self.pick_callable(Ty::Bool) {
                Some(fi) => (self.call(fi, depth), false),
                None => ("false".into(), true),
            },
            11 if self.rng.chance(3, 4) => {
                let a = self.arrs_atom(depth);
                let n = self.rng.range(0, 3);
                (format!("({}.len() pass {n})", a.t), true)
            }
            _ => {
                // a method result of a temporary compared while the other operand stores
                let (r, len) = self.temp_recv(depth + 1);
                let e = self.str_method_on(&fit(r, STR_CAP), len);
                let slen = len.unwrap_or_else(|| self.pool_len());
                let st = self.storer_call(slen, depth);
                self.shape("held_compare_call");
                (format!("({} na {})", e.t, st.t), true)
            }
        };
        ex(t, p, 5)
    }

    /// Array literal of strings; every element within the string capacity.
    fn arrs_lit(&mut self, depth: u32, min: u64) -> Ex {
        let n = min + self.rng.below(4);
        let mut b = 2;
        let mut items = Vec::new();
        for _ in 0..n {
            let e = self.str_within(depth + 1, STR_CAP);
            b += e.b + 4;
            items.push(e.t);
        }
        ex(format!("[{}]", items.join(", ")), true, b)
    }

    /// An array-of-strings receiver.
    fn arrs_atom(&mut self, depth: u32) -> Ex {
        if depth < 3 && self.rng.chance(1, 12) {
            return self.arrs_temp(depth);
        }
        if let Some(v) = self.pick_var(Ty::ArrS)
            && self.rng.chance(3, 4)
        {
            return ex(v.name, v.precise, v.cur);
        }
        self.arrs_lit(depth.max(2), 0)
    }

    /// An array-of-strings temporary: popped from a nested array, returned by a call, or a literal.
    fn arrs_temp(&mut self, depth: u32) -> Ex {
        match self.rng.below(3) {
            0 | 1 => {
                if let Some((e, _)) = self.pop_array_temp() {
                    return e;
                }
            }
            _ => {
                if let Some(fi) = self.pick_callable(Ty::ArrS) {
                    self.shape("recv_array_call");
                    return ex(self.call(fi, depth + 1), false, ARRS_CAP);
                }
            }
        }
        self.arrs_lit(depth.max(2), 1)
    }

    fn arra_atom(&mut self, depth: u32) -> Ex {
        if let Some(v) = self.pick_var(Ty::ArrA) {
            return ex(v.name, v.precise, v.cur);
        }
        self.arra_lit(depth.max(2))
    }

    fn arrs_expr(&mut self, depth: u32) -> Ex {
        let pick = if depth >= 3 { self.rng.below(2) } else { self.rng.below(8) };
        match pick {
            0 | 5 => self.arrs_lit(depth, 0),
            1 | 2 => match self.pick_var(Ty::ArrS) {
                Some(v) => ex(v.name, v.precise, v.cur),
                None => self.arrs_lit(depth, 1),
            },
            3 | 4 => {
                // n parts of b bytes print as at most 5 b + 10 bytes
                let r = fit(self.str_atom(depth), (ARRS_CAP / 2 - 10) / 5);
                let pat = if self.rng.chance(1, 5) { self.str_expr(depth + 1) } else { self.short_needle() };
                ex(format!("{}.split({})", r.t, pat.t), r.p, 5 * r.b + 10)
            }
            _ => match self.pick_callable(Ty::ArrS) {
                Some(fi) => ex(self.call(fi, depth), false, ARRS_CAP),
                None => self.arrs_lit(depth, 1),
            },
        }
    }

    fn arra_expr(&mut self, depth: u32) -> Ex {
        match self.rng.below(6) {
            0 | 1 => match self.pick_var(Ty::ArrA) {
                Some(v) => ex(v.name, v.precise, v.cur),
                None => self.arra_lit(depth),
            },
            2 => match self.pick_callable(Ty::ArrA) {
                Some(fi) => ex(self.call(fi, depth), false, ARRA_CAP),
                None => self.arra_lit(depth),
            },
            _ => self.arra_lit(depth),
        }
    }

    /// Nested literal of one to three inner arrays (literals or array variables).
    fn arra_lit(&mut self, depth: u32) -> Ex {
        let n = 1 + self.rng.below(3);
        let mut items = Vec::new();
        let mut b = 2;
        for _ in 0..n {
            let e = if self.rng.chance(1, 3)
                && let Some(v) = self.pick_var(Ty::ArrS)
            {
                ex(v.name, v.precise, v.cur)
            } else {
                self.arrs_lit(depth.max(2), 0)
            };
            b += e.b + 2;
            items.push(e.t);
        }
        ex(format!("[{}]", items.join(", ")), true, b)
    }

    fn cmd_expr(&mut self, depth: u32) -> Ex {
        match self.rng.below(5) {
            0 | 1 => {
                if let Some(v) = self.pick_var(Ty::Cmd) {
                    return ex(v.name, v.precise, v.cur);
                }
            }
            2 => {
                if let Some(fi) = self.pick_callable(Ty::Cmd) {
                    return ex(self.call(fi, depth), false, CMD_CAP);
                }
            }
            _ => {}
        }
        let s = self.str_within(depth + 1, STR_CAP);
        ex(format!("command({})", s.t), true, s.b + 48)
    }

    // ------------------------------------------------------------------ statements

    fn pick_ty(&mut self) -> Ty {
        match self.rng.below(20) {
            0..=8 => Ty::Str,
            9..=11 => Ty::ArrS,
            12..=13 => Ty::Num,
            14..=15 => Ty::ArrA,
            16 => Ty::Bool,
            17 => Ty::Cmd,
            18 => Ty::ArrS,
            _ => Ty::Str,
        }
    }

    /// An expression that may be stored in a variable of type `ty`.
    fn storable(&mut self, ty: Ty, depth: u32) -> Ex {
        match ty {
            Ty::Str => self.str_within(depth, STR_CAP),
            _ => self.expr(ty, depth),
        }
    }

    fn stmt_make(&mut self, ty: Ty) {
        let name = (*self.rng.pick(ty.names())).to_string();
        // the initialiser is evaluated before the name is (re)declared
        let e = self.storable(ty, 0);
        self.emit(format!("make {name} get {}", e.t));
        self.declare(&name, ty, e.p, e.b);
    }

    fn stmt_assign(&mut self) {
        let ty = self.pick_ty();
        let Some(v) = self.pick_target(ty) else {
            return self.stmt_make(ty);
        };
        match self.rng.below(10) {
            0 => self.emit(format!("{} get {}", v.name, v.name)),
            1 => {
                // each-other assignment
                if let Some(w) = self.pick_target(ty) {
                    self.emit(format!("{} get {}", v.name, w.name));
                    self.emit(format!("{} get {}", w.name, v.name));
                    let m = v.cur.max(w.cur);
                    self.set_cur(&v.name, m);
                    self.set_cur(&w.name, m);
                } else {
                    self.emit(format!("{} get {}", v.name, v.name));
                }
            }
            _ => {
                let e = self.storable(ty, 0);
                self.emit(format!("{} get {}", v.name, e.t));
                self.set_cur(&v.name, e.b);
            }
        }
    }

    /// `if to say (<cond>) start <stmts> end`
    fn guarded(&mut self, conds: &[String], stmts: &[String]) {
        for c in conds {
            self.emit(format!("if to say ({c}) start"));
        }
        for s in stmts {
            self.emit(s.clone());
        }
        for _ in conds {
            self.emit("end".into());
        }
    }

    /// A string that may become an array element.
    fn element(&mut self) -> Ex {
        self.str_within(1, STR_CAP)
    }

    fn stmt_array(&mut self) {
        let nested = self.rng.chance(1, 4);
        if nested {
            let Some(m) = self.pick_target(Ty::ArrA) else {
                return self.stmt_make(Ty::ArrA);
            };
            let m = m.name;
            let i = self.rng.range(0, 2);
            let has_i = format!("{m}.len() pass {i}");
            let inner_nonempty = format!("{m}[{i}].len() pass 0");
            match self.rng.below(8) {
                0 => {
                    let a = self.arrs_lit(1, 1);
                    self.guarded(&[format!("{m}.len() small pass {ARRA_MAX_PUSH_LEN}")], &[format!("{m}.push({})", a.t)]);
                }
                1 => {
                    let s = self.element().t;
                    self.guarded(
                        &[has_i, format!("{m}[{i}].len() small pass {ARRS_MAX_PUSH_LEN}")],
                        &[format!("{m}[{i}].push({s})")],
                    );
                }
                2 => {
                    let s = self.element().t;
                    self.guarded(&[has_i, inner_nonempty], &[format!("{m}[{i}][0] get {s}")]);
                }
                3 => {
                    let a = self.arrs_lit(1, 1);
                    self.guarded(&[has_i], &[format!("{m}[{i}] get {}", a.t)]);
                }
                4 => {
                    if let Some(s) = self.pick_target(Ty::Str) {
                        self.guarded(&[has_i, inner_nonempty], &[format!("{} get ({m}[{i}][0]).slice(0, {})", s.name, STR_CAP / 4)]);
                        self.set_cur(&s.name, STR_CAP);
                    }
                }
                5 => self.guarded(&[has_i], &[format!("shout({m}[{i}])")]),
                6 => self.emit(format!("{m}.reverse()")),
                _ => {
                    if let Some(a) = self.pick_target(Ty::ArrS) {
                        self.guarded(&[has_i], &[format!("{} get {m}[{i}]", a.name)]);
                        self.set_cur(&a.name, ARRS_CAP);
                    }
                }
            }
            self.set_cur(&m, ARRA_CAP);
            return;
        }
        let Some(a) = self.pick_target(Ty::ArrS) else {
            return self.stmt_make(Ty::ArrS);
        };
        let a = a.name;
        let i = self.rng.range(0, 3);
        let has_i = format!("{a}.len() pass {i}");
        match self.rng.below(10) {
            0 | 1 | 2 => {
                let s = self.element().t;
                self.guarded(&[format!("{a}.len() small pass {ARRS_MAX_PUSH_LEN}")], &[format!("{a}.push({s})")]);
            }
            3 => self.emit(format!("{a}.pop()")),
            4 => self.emit(format!("shout({a}.pop())")),
            5 => {
                if let Some(s) = self.pick_target(Ty::Str) {
                    self.guarded(&[format!("{a}.len() pass 0")], &[format!("{} get ({a}.pop()).slice(0, {})", s.name, STR_CAP / 4)]);
                    self.set_cur(&s.name, STR_CAP);
                }
            }
            6 => {
                let s = self.element().t;
                self.guarded(&[has_i], &[format!("{a}[{i}] get {s}")]);
            }
            7 => {
                if let Some(s) = self.pick_target(Ty::Str) {
                    self.guarded(&[has_i], &[format!("{} get ({a}[{i}]).slice(0, {})", s.name, STR_CAP / 4)]);
                    self.set_cur(&s.name, STR_CAP);
                }
            }
            8 => self.emit(format!("{a}.reverse()")),
            _ => self.guarded(&[has_i], &[format!("shout({a}[{i}] add \"!\")")]),
        }
        self.set_cur(&a, ARRS_CAP);
    }

    fn stmt_cmd(&mut self) {
        let Some(c) = self.pick_target(Ty::Cmd) else {
            return self.stmt_make(Ty::Cmd);
        };
        let c = c.name;
        match self.rng.below(9) {
            0 | 1 | 2 => {
                let s = self.element().t;
                self.emit(format!("{c}.arg({s})"));
            }
            3 => {
                let s = self.element().t;
                let key = self.rng.below(3);
                self.emit(format!("{c}.env(\"KEY{key}\", {s})"));
            }
            4 => {
                let s = self.element().t;
                self.emit(format!("{c}.cwd({s})"));
            }
            5 => {
                let s = self.element().t;
                self.emit(format!("{c}.stdin_text({s})"));
            }
            6 => {
                let m = *self.rng.pick(&[
                    "stdin_null",
                    "stdin_inherit",
                    "stdout_capture",
                    "stdout_null",
                    "stdout_inherit",
                    "stderr_capture",
                    "stderr_null",
                    "stderr_inherit",
                ]);
                self.emit(format!("{c}.{m}()"));
            }
            7 => {
                let ms = self.rng.range(1, 5000);
                self.emit(format!("{c}.timeout_ms({ms})"));
            }
            _ => self.emit(format!("shout({c})")),
        }
    }

    fn stmt_shout(&mut self) {
        let ty = self.pick_ty();
        let e = self.expr(ty, 0);
        self.emit(format!("shout({})", e.t));
    }

    fn stmt_call(&mut self) {
        let limit = self.cur_fn.unwrap_or(self.funcs.len());
        if limit == 0 {
            return self.stmt_shout();
        }
        let fi = self.rng.below(limit as u64) as usize;
        let c = self.call(fi, 0);
        match self.funcs[fi].ret {
            Some(ty) if self.rng.chance(2, 3) => {
                if let Some(v) = self.pick_target(ty)
                    && self.rng.chance(1, 2)
                {
                    self.emit(format!("{} get {c}", v.name));
                    self.set_cur(&v.name, ty.cap());
                } else if self.rng.chance(1, 2) {
                    self.emit(format!("shout({c})"));
                } else {
                    let name = (*self.rng.pick(ty.names())).to_string();
                    self.emit(format!("make {name} get {c}"));
                    self.declare(&name, ty, false, ty.cap());
                }
            }
            _ => self.emit(c),
        }
    }

    /// Deliberate runtime error (planted at most once per risky program).
    fn stmt_risky(&mut self) {
        self.risky = false;
        match self.rng.below(4) {
            0 => {
                let a = self.arrs_atom(1);
                let i = self.rng.range(3, 9);
                self.emit(format!("shout({}[{i}])", a.t));
            }
            1 => {
                let n = self.num_expr(1).t;
                self.emit(format!("shout({n} divide (2 minus 2))"));
            }
            2 => {
                if let Some(a) = self.pick_target(Ty::ArrS) {
                    let s = self.element().t;
                    let i = self.rng.range(4, 9);
                    self.emit(format!("{}[{i}] get {s}", a.name));
                } else {
                    self.emit("shout(7 mod 0)".into());
                }
            }
            _ => {
                let s = self.element().t;
                self.emit(format!("shout([{s}][1 minus 2])"));
            }
        }
    }

    /// The method result of a temporary is stored / printed / passed directly, and a string of the same
    /// length is stored right after it.
    fn stmt_held(&mut self) {
        let (r, len) = self.temp_recv(0);
        let e = fit(self.str_method_on(&fit(r, STR_CAP), len), STR_CAP);
        let slen = len.unwrap_or_else(|| self.pool_len());
        match self.rng.below(7) {
            0 => {
                let name = (*self.rng.pick(Ty::Str.names())).to_string();
                self.emit(format!("make {name} get {}", e.t));
                self.declare(&name, Ty::Str, e.p, e.b);
                self.shape("store_make");
            }
            1 | 2 => match self.pick_target(Ty::Str) {
                Some(v) => {
                    self.emit(format!("{} get {}", v.name, e.t));
                    self.set_cur(&v.name, e.b);
                    self.shape("store_assign");
                }
                None => self.emit(format!("shout({})", e.t)),
            },
            3 => match self.pick_target(Ty::ArrS) {
                Some(a) => {
                    self.guarded(&[format!("{}.len() small pass {ARRS_MAX_PUSH_LEN}", a.name)], &[format!("{}.push({})", a.name, e.t)]);
                    self.set_cur(&a.name, ARRS_CAP);
                    self.shape("store_push");
                }
                None => self.emit(format!("shout({})", e.t)),
            },
            4 => match self.pick_target(Ty::ArrS) {
                Some(a) => {
                    self.guarded(&[format!("{}.len() pass 0", a.name)], &[format!("{}[0] get {}", a.name, e.t)]);
                    self.set_cur(&a.name, ARRS_CAP);
                    self.shape("store_index_assign");
                }
                None => self.emit(format!("shout({})", e.t)),
            },
            5 => {
                // several such elements and a fresh string of the same length in one literal
                let (r2, len2) = self.temp_recv(1);
                let e2 = fit(self.str_method_on(&fit(r2, STR_CAP), len2), STR_CAP);
                let fresh = self.computed(slen);
                self.emit(format!("shout([{}, {}, {fresh}])", e.t, e2.t));
                self.shape("store_literal_elements");
            }
            _ if self.loop_first.is_some_and(|fi| fi < self.cur_fn.unwrap_or(self.funcs.len())) && self.rng.chance(1, 2) => {
                // the operand is held on the frame while `hq()` marks, loops and resets
                match self.rng.below(4) {
                    0 => self.emit(format!("shout({} add hq())", e.t)),
                    1 => self.emit(format!("shout([{}, hq(), {}])", e.t, e.t)),
                    2 => self.emit(format!("shout({} add hq() add hq())", e.t)),
                    _ => self.emit(format!("shout(({}).replace(hq(), \"!\"))", Self::pstr(&e))),
                }
                self.shape("held_across_loop_first");
            }
            _ => {
                // an argument list: the next argument stores
                let st = self.storer_call(slen, 0);
                match self.pick_callable(Ty::Str) {
                    Some(fi) if self.funcs[fi].params.iter().filter(|(n, t)| *t == Ty::Str && n != "d").count() >= 1 => {
                        let f = self.funcs[fi].clone();
                        let mut args = Vec::new();
                        let mut first = true;
                        for (name, ty) in &f.params {
                            if name == "d" {
                                args.push(self.rng.range(0, 3).to_string());
                            } else if *ty == Ty::Str && first {
                                first = false;
                                args.push(e.t.clone());
                            } else if *ty == Ty::Str {
                                args.push(fit(st.clone(), STR_CAP).t);
                            } else {
                                args.push(self.arg(*ty, 1));
                            }
                        }
                        self.emit(format!("shout({}({}) add {})", f.name, args.join(", "), st.t));
                        self.shape("store_argument");
                    }
                    _ => {
                        self.emit(format!("shout({} add {})", e.t, st.t));
                        self.shape("held_add_call");
                    }
                }
            }
        }
        if let Some(s) = self.pick_target(Ty::Str) {
            let fresh = self.computed(slen);
            self.emit(format!("{} get {fresh}", s.name));
            self.set_cur(&s.name, slen);
        }
    }

    fn block<F: FnOnce(&mut Gen)>(&mut self, f: F) {
        self.scopes.push(Vec::new());
        self.block_depth += 1;
        f(self);
        self.block_depth -= 1;
        self.scopes.pop();
    }

    fn body(&mut self, n: u64) {
        for _ in 0..n {
            if self.budget <= 0 {
                break;
            }
            self.stmt();
        }
    }

    fn stmt_if(&mut self) {
        let c = self.bool_expr(0).t;
        self.emit(format!("if to say ({c}) start"));
        let n = 1 + self.rng.below(3);
        self.block(|g| g.body(n));
        self.emit("end".into());
        if self.rng.chance(1, 3) {
            self.emit("if not so start".into());
            let n = 1 + self.rng.below(2);
            self.block(|g| g.body(n));
            self.emit("end".into());
        }
    }

    fn stmt_block(&mut self) {
        self.emit("start".into());
        let n = 1 + self.rng.below(3);
        self.block(|g| g.body(n));
        self.emit("end".into());
    }

    fn stmt_loop(&mut self) {
        let k = format!("k{}", self.next_counter);
        self.next_counter += 1;
        let max = if self.cur_fn.is_some() { 3 } else { 5 };
        let bound = self.rng.range(1, max);
        self.emit(format!("make {k} get 0"));
        self.emit(format!("jasi ({k} small pass {bound}) start"));
        self.emit(format!("{k} get {k} add 1"));
        // the second iteration starts from whatever the first one stored
        self.widen_all();
        self.loop_depth += 1;
        let n = 1 + self.rng.below(4);
        let exit_at = self.rng.below(n + 1);
        self.block(|g| {
            for i in 0..n {
                if g.budget <= 0 && i > 0 {
                    break;
                }
                g.stmt();
                if i + 1 == exit_at && g.rng.chance(1, 2) {
                    // leave the iteration in the middle, after allocations
                    let cond = if g.rng.chance(1, 2) {
                        format!("({k} na {})", g.rng.range(1, bound))
                    } else {
                        g.bool_expr(1).t
                    };
                    let ret = g.cur_fn.map(|fi| g.funcs[fi].ret);
                    let how = match (g.rng.below(3), ret) {
                        (0, _) => "next".to_string(),
                        (1, _) => "comot".to_string(),
                        (_, Some(Some(ty))) => format!("return {}", g.return_expr(ty)),
                        (_, Some(None)) => "return".to_string(),
                        _ => "next".to_string(),
                    };
                    g.emit(format!("if to say ({cond}) start"));
                    g.emit(how);
                    g.emit("end".into());
                }
            }
        });
        self.loop_depth -= 1;
        self.emit("end".into());
    }

    /// The operand of a `return` of type `ty`: parameters and locals first.
    fn return_expr(&mut self, ty: Ty) -> String {
        let fi = self.cur_fn.expect("inside a function");
        let params: Vec<String> =
            self.funcs[fi].params.iter().filter(|(n, t)| *t == ty && n != "d").map(|(n, _)| n.clone()).collect();
        if ty == Ty::Str && self.rng.chance(1, 8) {
            // the method result of a temporary is what is relocated
            let (r, len) = self.temp_recv(1);
            let e = fit(self.str_method_on(&fit(r, STR_CAP), len), STR_CAP);
            self.shape("held_return");
            return e.t;
        }
        match self.rng.below(6) {
            0 | 1 if !params.is_empty() => params[self.rng.below(params.len() as u64) as usize].clone(),
            2 | 3 => match self.pick_var(ty) {
                Some(v) => v.name,
                None => self.storable(ty, 1).t,
            },
            _ => self.storable(ty, 0).t,
        }
    }

    fn stmt(&mut self) {
        self.budget -= 1;
        if self.risky && self.rng.chance(1, 8) {
            return self.stmt_risky();
        }
        let max_loop = if self.cur_fn.is_some() { 1 } else { 2 };
        let nest_ok = self.block_depth < 4;
        match self.rng.below(41) {
            40 => self.stmt_held(),
            0..=7 => {
                let ty = self.pick_ty();
                self.stmt_make(ty)
            }
            8..=15 => self.stmt_assign(),
            16..=20 => self.stmt_array(),
            21 => self.stmt_cmd(),
            22..=25 => self.stmt_shout(),
            26..=29 => self.stmt_call(),
            30..=32 if nest_ok => self.stmt_if(),
            33 if nest_ok => self.stmt_block(),
            34..=38 if nest_ok && self.loop_depth < max_loop => self.stmt_loop(),
            39 if self.cur_fn.is_some_and(|fi| self.funcs[fi].recursive) && self.loop_depth == 0 => {
                let c = self.self_call(0);
                let fi = self.cur_fn.unwrap();
                match self.funcs[fi].ret {
                    Some(ty) => match self.pick_target(ty) {
                        Some(v) => {
                            self.emit(format!("{} get {c}", v.name));
                            self.set_cur(&v.name, ty.cap());
                        }
                        None => self.emit(format!("shout({c})")),
                    },
                    None => self.emit(c),
                }
            }
            _ => self.stmt_assign(),
        }
    }

    // ------------------------------------------------------------------ functions

    fn gen_function(&mut self, fi: usize) {
        let f = self.funcs[fi].clone();
        let plist: Vec<&str> = f.params.iter().map(|(n, _)| n.as_str()).collect();
        self.emit(format!("do {}({}) start", f.name, plist.join(", ")));
        self.cur_fn = Some(fi);
        // a function runs any number of times and may be called from anywhere
        self.widen_all();
        let saved_scopes = self.scopes.clone();
        let saved_loop = std::mem::take(&mut self.loop_depth);
        let saved_block = std::mem::take(&mut self.block_depth);
        // globals declared so far are visible; parameters are Dynamic
        self.scopes.truncate(1);
        self.scopes.push(
            f.params
                .iter()
                .map(|(n, t)| Var { name: n.clone(), ty: *t, precise: false, cur: t.cap(), ro: n == "d" })
                .collect(),
        );
        self.scopes.push(Vec::new());
        if f.recursive {
            self.emit("if to say (d small pass 1) start".into());
            match f.ret {
                Some(ty) => {
                    let e = self.return_expr(ty);
                    self.emit(format!("return {e}"));
                }
                None => self.emit("return".into()),
            }
            self.emit("end".into());
        }
        let n = (1 + self.rng.below(6)).min(self.budget.max(1) as u64);
        self.body(n);
        if f.recursive && self.rng.chance(2, 3) {
            // a recursive call in an operand of the result
            let c = self.self_call(1);
            match f.ret {
                Some(Ty::Str) => {
                    let pad = self.str_within(2, 64);
                    self.emit(format!("return ({} add {c}).slice(0, {})", Self::pstr(&pad), STR_CAP / 4));
                }
                Some(Ty::Num) => self.emit(format!("return (1 add {c})")),
                Some(Ty::ArrS) => {
                    let s = self.element().t;
                    self.emit(format!("return [{s}, ({c}.join(\"+\")).slice(0, {})]", STR_CAP / 4));
                }
                Some(ty) => {
                    if let Some(v) = self.pick_target(ty) {
                        self.emit(format!("{} get {c}", v.name));
                        self.emit(format!("return {}", v.name));
                    } else {
                        self.emit(format!("return {c}"));
                    }
                }
                None => self.emit(c),
            }
        } else if let Some(ty) = f.ret {
            let e = self.return_expr(ty);
            self.emit(format!("return {e}"));
        }
        self.emit("end".into());
        self.scopes = saved_scopes;
        self.loop_depth = saved_loop;
        self.block_depth = saved_block;
        self.cur_fn = None;
    }

    /// Fixed helper functions that store (a copy of) their argument: whatever they are given, a string
    /// of exactly that length is promoted into the pool while the caller's evaluation is suspended.
    fn emit_storers(&mut self) {
        let s = self.pick_target(Ty::Str).map(|v| v.name);
        let a = self.pick_target(Ty::ArrS).map(|v| v.name);
        let p = vec![("ps0".to_string(), Ty::Str)];
        if let Some(s) = s.clone() {
            self.emit(format!("do hs(ps0) start\n{s} get ps0 add \"\"\nreturn \"!\"\nend"));
            self.storers.push(self.funcs.len());
            self.funcs.push(Func { name: "hs".into(), params: p.clone(), ret: Some(Ty::Str), recursive: false });
        }
        if let Some(a) = a {
            self.emit(format!(
                "do ha(ps0) start\nif to say ({a}.len() small pass {ARRS_MAX_PUSH_LEN}) start\n{a}.push(ps0 add \"\")\nend\n\
                 if not so start\n{a}[0] get ps0 add \"\"\nend\nreturn \"+\"\nend"
            ));
            self.storers.push(self.funcs.len());
            self.funcs.push(Func { name: "ha".into(), params: p.clone(), ret: Some(Ty::Str), recursive: false });
        }
        // no parameter, no local, a loop first thing: the callee's first frame mark is the end of whatever the
        // caller holds on the frame at the moment of the call (a computed operand of any length)
        let body = match &s {
            Some(s) => format!("{s} get ({s} add \"abcdefgh\").slice(0, 40)"),
            None => "make lq get \"q\" add gq".to_string(),
        };
        self.emit(format!(
            "make gq get 0\ndo hq() start\ngq get 0\njasi (gq small pass 2) start\ngq get gq add 1\n{body}\nend\nreturn \"q\"\nend"
        ));
        self.loop_first = Some(self.funcs.len());
        self.funcs.push(Func { name: "hq".into(), params: Vec::new(), ret: Some(Ty::Str), recursive: false });
        // a local of the callee: the slot is taken and given back before the caller goes on
        self.emit("do hl(ps0) start\nmake l get ps0 add \"\"\nreturn l\nend".to_string());
        self.storers.push(self.funcs.len());
        self.funcs.push(Func { name: "hl".into(), params: p, ret: Some(Ty::Str), recursive: false });
        // the helpers may store up to the capacity into the globals
        self.widen_all();
    }

    fn program(&mut self) -> String {
        self.boundary = self.rng.chance(1, 8);
        self.unicode = self.rng.chance(1, 4);
        self.risky = self.rng.chance(1, 11);
        self.budget = self.rng.range(5, 36);
        // globals first: functions may read and reassign them
        self.stmt_make(Ty::Str);
        self.stmt_make(Ty::Str);
        self.stmt_make(Ty::ArrS);
        let extra = self.rng.below(4);
        for _ in 0..extra {
            let ty = self.pick_ty();
            self.stmt_make(ty);
        }
        self.budget -= 3 + extra as i64;
        if self.rng.chance(3, 4) {
            self.emit_storers();
        }
        let base = self.funcs.len();
        // function signatures
        let nf = match self.rng.below(8) {
            0 => 0,
            1 | 2 => 1,
            3 | 4 | 5 => 2,
            6 => 3,
            _ => 4,
        };
        for i in 0..nf {
            let recursive = self.rng.chance(1, 4);
            let mut params = Vec::new();
            if recursive {
                params.push(("d".to_string(), Ty::Num));
            }
            let np = self.rng.below(4);
            for j in 0..np {
                let ty = *self.rng.pick(&[Ty::Str, Ty::Str, Ty::Str, Ty::ArrS, Ty::ArrS, Ty::Num, Ty::ArrA, Ty::Cmd]);
                params.push((format!("{}{j}", ty.param_prefix()), ty));
            }
            let ret = match self.rng.below(12) {
                0..=4 => Some(Ty::Str),
                5 | 6 => Some(Ty::ArrS),
                7 => Some(Ty::Num),
                8 => Some(Ty::Bool),
                9 => Some(Ty::ArrA),
                10 => Some(Ty::Cmd),
                _ => None,
            };
            self.funcs.push(Func { name: format!("f{i}"), params, ret, recursive });
        }
        for i in 0..nf {
            self.gen_function(base + i);
        }
        // now and then: more than a quarter of one pool class's slots alive, then released in bulk (own names)
        let bulk = if self.rng.chance(1, 160) {
            let class = if self.rng.chance(1, 8) { self.rng.below(4) } else { 4 + self.rng.below(16) } as usize;
            let release = *self.rng.pick(&BULK_RELEASES[..5]);
            bulk_program(class, release, 0).map(|(tag, text)| format!("start\n# {tag}\n{text}\nend"))
        } else {
            None
        };
        let bulk_first = self.rng.chance(1, 2);
        if let (Some(b), true) = (&bulk, bulk_first) {
            self.emit(b.clone());
            self.shape("mass_release_block");
        }
        // main
        let mut first = true;
        while self.budget > 0 || first {
            first = false;
            self.stmt();
        }
        if let (Some(b), false) = (&bulk, bulk_first) {
            self.emit(b.clone());
            self.shape("mass_release_block");
        }
        // every function runs at least once
        for fi in 0..self.funcs.len() {
            let c = self.call(fi, 1);
            match self.funcs[fi].ret {
                Some(_) => self.emit(format!("shout({c})")),
                None => self.emit(c),
            }
        }
        // observe everything that is still in scope
        let mut names = Vec::new();
        for ty in ALL_TYS {
            for v in self.vars_of(ty) {
                names.push(v.name);
            }
        }
        names.sort();
        for n in names {
            self.emit(format!("shout({n})"));
        }
        self.lines.join("\n")
    }
}

fn num_lit(n: i64) -> String {
    if n < 0 { format!("(minus {})", -n) } else { n.to_string() }
}

/// `n` random programs (source text) from `seed`.
pub fn random_programs(seed: u64, n: u64) -> Vec<String> {
    random_programs_with_shapes(seed, n).0
}

/// As `random_programs`, with the distribution of the temporary-receiver shapes: how often each was
/// emitted, and `programs_with_temp_shape` = programs containing at least one.
pub fn random_programs_with_shapes(seed: u64, n: u64) -> (Vec<String>, BTreeMap<&'static str, u64>) {
    let mut rng = Rng::new(seed ^ 0xC02);
    let mut total: BTreeMap<&'static str, u64> = BTreeMap::new();
    let mut out = Vec::new();
    for _ in 0..n {
        let mut g = Gen::new(rng.fork());
        out.push(g.program());
        if g.shapes.keys().any(|k| k.starts_with("recv_")) {
            *total.entry("programs_with_temp_shape").or_insert(0) += 1;
        }
        if !g.storers.is_empty() {
            *total.entry("programs_with_storers").or_insert(0) += 1;
        }
        for (k, v) in g.shapes {
            *total.entry(k).or_insert(0) += v;
        }
    }
    (out, total)
}
