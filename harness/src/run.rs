//! Family `run` — the real `Runtime` against the evaluator model (C01, C04, C05, C06; the
//! implementation-level oracles also serve C02 and C03).
//!
//! Protocol (one request per line, one answer per line):
//! ```text
//! run <hex src> pol=<a|d> plan=<s1,s2,..|->;<f1,..|-> | plan=none [tag=<..>] ast=<annotated AST line>
//!       -> out=<hex of Display text per printed value, comma separated | none>
//!          end=<ok | rt:<RuntimeErrorKind variant>@<lo>:<hi> | panic@<file>:<line> | abort | timeout>
//! rej <hex src>             -> rejected          (front end reported an error; counted, not run)
//! fmt <bits>                -> <hex of `format!("{}", f64::from_bits(bits))`>
//! parse <hex text>          -> <bits> | nan | err          (`str::parse::<f64>`)
//! fmod <bits> <bits>        -> <bits> | nan                (`%`)
//! cast <bits>               -> <as isize> <as usize> <as u32>
//! un <floor|ceil|round|sqrt|abs> <bits> -> <bits> | nan
//! ```
//! `gen --kind c05` writes the C05 template programs with the output a plain-Rust value-semantics oracle
//! expects (`exp=`): copy / nested write / push / pop / reverse sequences (`c05tmpl`), captured arrays under
//! same-named locals (`c05scoped`), long strings built in functions, returned and kept as elements (`c05long`),
//! impure index expressions in receiver / target chains (`c05impure`), later operands that change the variable an
//! earlier operand has read (`c05order`). `gen --kind c04`: same-block re-declarations at another literal type with
//! capturing functions in between (`c04retype`, expected output + the run by name, see `UNIQUE_NAMES_MARK`).
//! `gen --seed S --n N [--kind main|product|float] [--bias b] [--max-stmts k]` writes request
//! lines: every generated program text goes through the REAL front end (`pipeline::with_resolved`);
//! accepted programs become `run` requests carrying the resolver's plan and the AST annotated with
//! the resolver's facts, rejected ones `rej` requests.
//! `run` answers requests by executing the shipped pipeline in-process on fresh arenas, inside a
//! WORKER subprocess whose fd 0/1 are `/dev/null` (`shout` prints to the real stdout, `read_line`
//! reads the real stdin); a worker that dies is restarted and the in-flight case answered
//! `end=abort`. Implementation-level oracles that need no model, reported on stderr as
//! `ORACLE-FAIL <1-based line> [Cxx] <what>`: same result when run twice `[C01]`, with and without
//! the frame arena `[C02]`, with and without the optimisation plan `[C03]`; a panic in one of those
//! variant runs only `[C06]`. The answer line itself is the run WITH the plan and the frame arena (what
//! the CLI does): its `end=panic|abort|timeout` on an accepted program is the C06 crash oracle of the checks.

use std::io::{BufRead, BufReader, Write};
use std::process::{Command, Stdio};
use std::sync::Mutex;
use std::sync::mpsc;
use std::time::Duration;

use naijascript::arena::Arena;
use naijascript::process::{HostPolicy, ProcessCaps};
use naijascript::resolver::Resolver;
use naijascript::runtime::Runtime;
use naijascript::analysis::facts::ProgramFacts;
use naijascript::syntax::parser::{BlockRef, Parser, Stmt};
use naijascript::syntax::scanner::Lexer;

use crate::astio::{self, Opts};
use crate::pipeline;
use crate::util::{self, Out, Rng};

#[path = "progen.rs"]
pub mod progen;

pub fn main(args: &[String]) -> i32 {
    match args.first().map(String::as_str) {
        Some("gen") => generate(&args[1..]),
        Some("run") => run_parent(),
        Some("worker") => worker(&args[1..]),
        Some("show") => show(&args[1..]),
        _ => {
            eprintln!(
                "usage: nvh run gen --seed S --n N [--kind main|product|float] [--bias b] | nvh run run < requests | nvh run show --seed S --n N"
            );
            2
        }
    }
}

pub fn dump_tables(_out: &mut Vec<(String, String)>) {}

// ------------------------------------------------------------------------------------------ gen

fn bias_of(s: Option<&str>) -> progen::Bias {
    match s {
        Some("arrays") => progen::Bias::Arrays,
        Some("scoping") => progen::Bias::Scoping,
        Some("strings") => progen::Bias::Strings,
        Some("control") => progen::Bias::Control,
        Some("numbers") => progen::Bias::Numbers,
        _ => progen::Bias::Mixed,
    }
}

fn ids_str(ids: &[u32]) -> String {
    if ids.is_empty() { "-".to_string() } else { ids.iter().map(u32::to_string).collect::<Vec<_>>().join(",") }
}

/// The request line for one program text: `run …` if the front end accepts it, else `rej …`.
pub fn request_for(src: &str, allow_process: bool, tag: Option<&str>) -> String {
    request_with(src, allow_process, tag, None)
}

/// `exp`: the output a model-independent oracle expects (hex per value), checked by the worker.
pub fn request_with(src: &str, allow_process: bool, tag: Option<&str>, exp: Option<&str>) -> String {
    let hexsrc = util::hex(src.as_bytes());
    let r = util::catch(|| {
        let arena = Arena::new(pipeline::ARENA_CAP).unwrap();
        pipeline::with_resolved(src, &arena, |root, _d, res| match res {
            None => None,
            Some(r) if r.errors.has_errors() => None,
            Some(r) => {
                let plan = match r.optimization_plan.as_ref() {
                    None => "none".to_string(),
                    Some(p) => {
                        let s: Vec<u32> = p.removable_stmts.iter().map(|x| x.0).collect();
                        let f: Vec<u32> = p.removable_function_defs.iter().map(|x| x.0).collect();
                        format!("{};{}", ids_str(&s), ids_str(&f))
                    }
                };
                let ast = astio::program(&Opts { spans: true, facts: Some(&r.facts) }, root);
                Some((plan, ast))
            }
        })
    });
    match r {
        Ok(Some((plan, ast))) => {
            let pol = if allow_process { "a" } else { "d" };
            let mut head = format!("run {hexsrc} pol={pol} plan={plan}");
            if let Some(e) = exp {
                head.push_str(&format!(" exp={e}"));
            }
            if let Some(t) = tag {
                head.push_str(&format!(" tag={t}"));
            }
            format!("{head} ast={ast}")
        }
        _ => format!("rej {hexsrc}"),
    }
}

fn generate(args: &[String]) -> i32 {
    util::silence_panics();
    let seed = util::opt_u64(args, "--seed", 1);
    let n = util::opt_u64(args, "--n", 100);
    let kind = util::opt(args, "--kind").unwrap_or("main");
    let mut out = Out::new();
    match kind {
        "main" => {
            let mut rng = Rng::new(seed ^ 0xC01);
            let mut opts = progen::GenOpts::default();
            let fixed_bias = util::opt(args, "--bias");
            opts.max_stmts = util::opt_u64(args, "--max-stmts", 40) as usize;
            let biases = [
                progen::Bias::Mixed,
                progen::Bias::Arrays,
                progen::Bias::Scoping,
                progen::Bias::Strings,
                progen::Bias::Control,
                progen::Bias::Numbers,
                progen::Bias::Mixed,
            ];
            for i in 0..n {
                opts.bias = if fixed_bias.is_some() { bias_of(fixed_bias) } else { biases[(i % 7) as usize] };
                let mut r = rng.fork();
                let src = progen::gen_program(&mut r, &opts);
                out.line(&request_for(&src, false, None));
            }
        }
        "product" => {
            // `--only <p1,p2>`: the families whose tag starts with one of the prefixes (e.g. `sink=selfmut,sink=data`)
            let only: Vec<&str> = util::opt(args, "--only").map(|o| o.split(',').collect()).unwrap_or_default();
            for (tag, src) in progen::product_cases() {
                if !only.is_empty() && !only.iter().any(|p| tag.starts_with(p)) {
                    continue;
                }
                let t = tag.replace(' ', "_");
                out.line(&request_for(&src, true, Some(&t)));
            }
        }
        "float" => gen_float(seed, n, &mut out),
        "c05" => gen_c05(seed, n, &mut out),
        "c04" => gen_c04(seed, n, &mut out),
        "files" => {
            // every *.ns file of a directory (sorted), e.g. the corpus or /repo/tests/stress
            let dir = util::opt(args, "--dir").unwrap_or(".");
            let allow = util::flag(args, "--allow-process");
            let mut paths: Vec<std::path::PathBuf> = match std::fs::read_dir(dir) {
                Ok(rd) => rd.filter_map(|e| e.ok().map(|e| e.path())).filter(|p| p.extension().is_some_and(|x| x == "ns")).collect(),
                Err(e) => {
                    eprintln!("cannot read {dir}: {e}");
                    return 2;
                }
            };
            paths.sort();
            for p in paths {
                if let Ok(src) = std::fs::read_to_string(&p) {
                    let tag = format!("file={}", p.file_name().and_then(|x| x.to_str()).unwrap_or("?").replace(' ', "_"));
                    // process execution is allowed for files named `*allowproc*` (they may only
                    // run /bin/true or /bin/false, the two programs the model's runner knows)
                    let allow_this = allow || tag.contains("allowproc");
                    out.line(&request_for(&src, allow_this, Some(&tag)));
                }
            }
        }
        _ => {
            eprintln!("unknown --kind {kind}");
            return 2;
        }
    }
    0
}

const BOUNDARY_BITS: &[u64] = &[
    0x0000_0000_0000_0000,
    0x8000_0000_0000_0000,
    0x0000_0000_0000_0001,
    0x000F_FFFF_FFFF_FFFF,
    0x0010_0000_0000_0000,
    0x7FEF_FFFF_FFFF_FFFF,
    0x7FF0_0000_0000_0000,
    0xFFF0_0000_0000_0000,
    0x7FF8_0000_0000_0000,
    0x3FF0_0000_0000_0000,
    0xBFF0_0000_0000_0000,
    0x3FB9_9999_9999_999A,
    0x3FD5_5555_5555_5555,
    0x4340_0000_0000_0000,
    0x433F_FFFF_FFFF_FFFF,
    0x43E0_0000_0000_0000,
    0xC3E0_0000_0000_0000,
    0x43F0_0000_0000_0000,
    0x41F0_0000_0000_0000,
    0x444B_1AE4_D6E2_EF50,
    0x3E7A_D7F2_9ABC_AF48,
    0x3D71_9799_812D_EA11,
    0x4004_0000_0000_0000,
    0xC004_0000_0000_0000,
    0x3FE0_0000_0000_0000,
    0x3FDF_FFFF_FFFF_FFFF,
];

fn rand_bits(rng: &mut Rng) -> u64 {
    match rng.below(8) {
        0 => *rng.pick(BOUNDARY_BITS),
        1 => (rng.range(-1000, 1000) as f64).to_bits(),
        2 => ((rng.range(-100_000, 100_000) as f64) / 100.0).to_bits(),
        3 => ((rng.range(-1000, 1000) as f64) / 8.0).to_bits(),
        4 => {
            // a power of two and its neighbours (asymmetric rounding interval)
            let e = rng.below(2046) + 1;
            let b = e << 52;
            match rng.below(3) {
                0 => b,
                1 => b - 1,
                _ => b + 1,
            }
        }
        5 => {
            // moderate exponents, random mantissa
            let e = 1023 - 40 + rng.below(120);
            (e << 52) | (rng.next() >> 12) | (rng.below(2) << 63)
        }
        _ => rng.next(),
    }
}

const PARSE_TEXTS: &[&str] = &[
    "", " ", "1", "12", " 12", "12 ", "3.5", "abc", "1e3", "1E3", "1e+3", "1e-3", "-4", "+2", ".5", "5.", ".", "+", "-", "e5",
    "1e", "1e+", "inf", "-inf", "+inf", "Infinity", "infinity", "INF", "nan", "NaN", "-nan", "1_0", "0x10", "1.2.3", "١", "1,5",
    "0", "-0", "0.0", "00012", "1e400", "1e-400", "-1e400", "123456789012345678901234567890", "0.1", "0.30000000000000004",
    "2.2250738585072014e-308", "4.9e-324", "2.4703282292062327e-324", "2.4703282292062328e-324", "1.7976931348623157e308",
    "1.7976931348623159e308", "9007199254740993", "9007199254740992.5", "1e23", "8.5e22", "5e-324", "1.0e0", "1.e1", ".1e1",
];

fn gen_float(seed: u64, n: u64, out: &mut Out) {
    let mut rng = Rng::new(seed ^ 0xF10A7);
    for b in BOUNDARY_BITS {
        out.line(&format!("fmt {b:016x}"));
        out.line(&format!("cast {b:016x}"));
        for op in ["floor", "ceil", "round", "sqrt", "abs"] {
            out.line(&format!("un {op} {b:016x}"));
        }
    }
    for t in PARSE_TEXTS {
        out.line(&format!("parse {}", util::hex(t.as_bytes())));
    }
    for _ in 0..n {
        let b = rand_bits(&mut rng);
        out.line(&format!("fmt {b:016x}"));
        // the Display text must parse back (and exercises the parser on shortest digits)
        let text = format!("{}", f64::from_bits(b));
        out.line(&format!("parse {}", util::hex(text.as_bytes())));
        // a random decimal with up to 25 digits and an exponent
        let digits: String = (0..1 + rng.below(25)).map(|_| char::from(b'0' + rng.below(10) as u8)).collect();
        let text = match rng.below(4) {
            0 => digits.clone(),
            1 => format!("{}.{}", digits, rng.below(1000)),
            2 => format!("{}e{}", digits, rng.range(-340, 310)),
            _ => format!("0.{}", digits),
        };
        out.line(&format!("parse {}", util::hex(text.as_bytes())));
        let c = rand_bits(&mut rng);
        out.line(&format!("fmod {b:016x} {c:016x}"));
        out.line(&format!("cast {b:016x}"));
        let op = *rng.pick(&["floor", "ceil", "round", "sqrt", "abs"]);
        out.line(&format!("un {op} {b:016x}"));
    }
}

// ---------------------------------------------------------------- C05 template oracle (no model)

/// Values of the template programs, with plain Rust value semantics (`clone` = deep copy).
#[derive(Clone, Debug)]
enum V {
    Num(i64),
    Str(String),
    Arr(Vec<V>),
}

impl V {
    fn show(&self, top: bool) -> String {
        match self {
            V::Num(n) => n.to_string(),
            V::Str(s) => if top { s.clone() } else { format!("\"{s}\"") },
            V::Arr(xs) => format!("[{}]", xs.iter().map(|x| x.show(false)).collect::<Vec<_>>().join(", ")),
        }
    }
    fn lit(&self) -> String {
        self.show(false)
    }
    fn get_mut(&mut self, path: &[usize]) -> Option<&mut V> {
        let mut cur = self;
        for &i in path {
            match cur {
                V::Arr(xs) => cur = xs.get_mut(i)?,
                _ => return None,
            }
        }
        Some(cur)
    }
}

fn rand_val(rng: &mut Rng, depth: u32) -> V {
    match rng.below(if depth == 0 { 2 } else { 4 }) {
        0 => V::Num(rng.range(0, 99)),
        1 => V::Str((*rng.pick(&["s", "tt", "é", "long string x", ""])).to_string()),
        _ => V::Arr((0..rng.below(4)).map(|_| rand_val(rng, depth - 1)).collect()),
    }
}

/// A random path that ends at an ARRAY cell of `v` (possibly the root), by walking.
fn array_path(rng: &mut Rng, v: &V) -> Option<Vec<usize>> {
    let V::Arr(_) = v else { return None };
    let mut path = Vec::new();
    let mut cur = v;
    loop {
        let V::Arr(xs) = cur else { unreachable!() };
        let subs: Vec<usize> = xs.iter().enumerate().filter(|(_, x)| matches!(x, V::Arr(_))).map(|(i, _)| i).collect();
        if subs.is_empty() || rng.chance(1, 3) {
            return Some(path);
        }
        let i = *rng.pick(&subs);
        path.push(i);
        cur = &xs[i];
    }
}

fn path_text(p: &[usize]) -> String {
    p.iter().map(|i| format!("[{i}]")).collect()
}

/// First line of a program whose generator promises that no name is declared in two scopes that are live at the
/// same time: lookup by resolver binding, lexical lookup and lookup BY NAME (`Runtime::run`, no facts) coincide on
/// it, so the worker also runs it by name and compares (`ORACLE-FAIL .. [C04] bound vs by-name`).
pub const UNIQUE_NAMES_MARK: &str = "# c04:unique-names";

/// C04 template programs: the same name `make`-declared several times in ONE block at different literal types
/// with capturing functions (readers, `{x}` placeholders, writers, nested readers) defined between the
/// declarations and called after the later ones; hosts: top level, function body, loop body, branch. The
/// expected output is computed by the generator (plain Rust): a re-declaration re-binds the SAME variable.
fn gen_c04(seed: u64, n: u64, out: &mut Out) {
    let mut rng = Rng::new(seed ^ 0xC04);
    for _ in 0..n {
        let (lines, exp) = progen::retype_program(&mut rng);
        let src = format!("{UNIQUE_NAMES_MARK}\n{}", progen::render_lines(&lines));
        let exp_hex: Vec<String> = exp.iter().map(|t| util::hex(t.as_bytes())).collect();
        out.line(&request_with(&src, false, Some("c04retype"), Some(&exp_hex.join(","))));
    }
}

/// Programs over three array variables built from copy / nested write / push / pop / reverse /
/// pass-to-a-mutating-callee steps; the expected output is computed HERE with Rust value semantics,
/// independently of the Lean model: any sharing between names in the real runtime shows up as a
/// difference (`ORACLE-FAIL … [C05]`).
fn gen_c05(seed: u64, n: u64, out: &mut Out) {
    let mut rng = Rng::new(seed ^ 0xC05);
    let names = ["a", "b", "c"];
    for _ in 0..n {
        // effect order (progen.rs): impure index expressions in receiver / target chains; later operands that
        // change the variable an earlier operand has read. Expected output: plain Rust, computed while generating.
        if rng.chance(1, 3) {
            let (lines, exp, tag) = if rng.chance(1, 2) {
                let (l, e) = progen::impure_chain(&mut rng);
                (l, e, "c05impure")
            } else {
                let (l, e) = progen::operand_order(&mut rng);
                (l, e, "c05order")
            };
            let src = progen::render_lines(&lines);
            let exp_hex: Vec<String> = exp.iter().map(|t| util::hex(t.as_bytes())).collect();
            out.line(&request_with(&src, false, Some(tag), Some(&exp_hex.join(","))));
            continue;
        }
        if rng.chance(1, 5) {
            let (src, exp) = c05_long(&mut rng);
            let exp_hex: Vec<String> = exp.iter().map(|t| util::hex(t.as_bytes())).collect();
            out.line(&request_with(&src, false, Some("c05long"), Some(&exp_hex.join(","))));
            continue;
        }
        if rng.chance(1, 3) {
            let (src, exp) = c05_scoped(&mut rng);
            let exp_hex: Vec<String> = exp.iter().map(|t| util::hex(t.as_bytes())).collect();
            out.line(&request_with(&src, false, Some("c05scoped"), Some(&exp_hex.join(","))));
            continue;
        }
        let mut vars: Vec<V> = (0..3).map(|_| V::Arr((0..1 + rng.below(3)).map(|_| rand_val(&mut rng, 2)).collect())).collect();
        let mut src = String::new();
        let mut exp: Vec<String> = Vec::new();
        src.push_str("do mutate(p) start\n  p.push(7)\n  p[0] get \"m\"\n  p.reverse()\n  return p\nend\n");
        src.push_str("do keep(p) start\n  make q get p\n  q.push([p.len()])\n  return p\nend\n");
        for (i, v) in vars.iter().enumerate() {
            src.push_str(&format!("make {} get {}\n", names[i], v.lit()));
        }
        let in_loop = rng.chance(1, 4);
        let steps = 3 + rng.below(8);
        let mut body = String::new();
        for _ in 0..steps {
            let x = rng.below(3) as usize;
            let y = rng.below(3) as usize;
            match rng.below(8) {
                0 => {
                    body.push_str(&format!("{} get {}\n", names[x], names[y]));
                    vars[x] = vars[y].clone();
                }
                1 | 2 => {
                    // nested write of a scalar, a literal or (a part of) another variable
                    let Some(mut p) = array_path(&mut rng, &vars[x]) else { continue };
                    let V::Arr(cell) = vars[x].get_mut(&p).unwrap() else { continue };
                    if cell.is_empty() {
                        continue;
                    }
                    p.push(rng.below(cell.len() as u64) as usize);
                    let (text, val) = match rng.below(3) {
                        0 => {
                            let v = rand_val(&mut rng, 1);
                            (v.lit(), v)
                        }
                        1 => (names[y].to_string(), vars[y].clone()),
                        _ => match &vars[y] {
                            V::Arr(ys) if !ys.is_empty() => {
                                let k = rng.below(ys.len() as u64) as usize;
                                (format!("{}[{k}]", names[y]), ys[k].clone())
                            }
                            _ => continue,
                        },
                    };
                    body.push_str(&format!("{}{} get {}\n", names[x], path_text(&p), text));
                    *vars[x].get_mut(&p).unwrap() = val;
                }
                3 => {
                    let Some(p) = array_path(&mut rng, &vars[x]) else { continue };
                    let (text, val) = if rng.chance(1, 2) {
                        let v = rand_val(&mut rng, 1);
                        (v.lit(), v)
                    } else {
                        (names[y].to_string(), vars[y].clone())
                    };
                    body.push_str(&format!("{}{}.push({})\n", names[x], path_text(&p), text));
                    if let Some(V::Arr(cell)) = vars[x].get_mut(&p) {
                        cell.push(val);
                    }
                }
                4 => {
                    let Some(p) = array_path(&mut rng, &vars[x]) else { continue };
                    body.push_str(&format!("shout({}{}.pop())\n", names[x], path_text(&p)));
                    if let Some(V::Arr(cell)) = vars[x].get_mut(&p) {
                        exp.push(cell.pop().map_or("null".to_string(), |v| v.show(true)));
                    }
                }
                5 => {
                    let Some(p) = array_path(&mut rng, &vars[x]) else { continue };
                    body.push_str(&format!("{}{}.reverse()\n", names[x], path_text(&p)));
                    if let Some(V::Arr(cell)) = vars[x].get_mut(&p) {
                        cell.reverse();
                    }
                }
                6 => {
                    // the callee mutates its parameter: only the RESULT changes
                    body.push_str(&format!("{} get mutate({})\n", names[x], names[y]));
                    let mut r = vars[y].clone();
                    if let V::Arr(xs) = &mut r {
                        xs.push(V::Num(7));
                        xs[0] = V::Str("m".into());
                        xs.reverse();
                    }
                    vars[x] = r;
                }
                _ => {
                    body.push_str(&format!("{} get keep({})\n", names[x], names[y]));
                    vars[x] = vars[y].clone();
                }
            }
            if in_loop {
                continue; // observed once, after the loop
            }
            for (i, v) in vars.iter().enumerate() {
                body.push_str(&format!("shout({})\n", names[i]));
                exp.push(v.show(true));
            }
        }
        if in_loop {
            // the same steps inside a one-iteration loop (frame reset between store and use)
            src.push_str("make once get true\njasi (once) start\nonce get false\n");
            src.push_str(&body);
            src.push_str("end\n");
        } else {
            src.push_str(&body);
        }
        for (i, v) in vars.iter().enumerate() {
            src.push_str(&format!("shout({})\n", names[i]));
            exp.push(v.show(true));
        }
        let exp_hex: Vec<String> = exp.iter().map(|t| util::hex(t.as_bytes())).collect();
        out.line(&request_with(&src, false, Some("c05tmpl"), Some(&exp_hex.join(","))));
    }
}


// ---------------------------------------------------------------- C05: long strings as elements

/// Ways a function builds a string at run time and RETURNS it.
#[derive(Clone, Copy, Debug, PartialEq)]
enum Build {
    /// `"r{i}:"` + piece * n, concatenated in a loop
    Cat,
    /// doubling (`s get s add s`) until long enough, then `slice(0, n)`: exactly n bytes
    Dbl,
    /// n pieces pushed to a local array, `"j{i}" add parts.join("/")`
    Join,
    /// `"a" * n` built in a loop, `replace("a", "{i}z")`: 2n bytes
    Repl,
    /// `cat(i, n).to_uppercase()`
    Upper,
    /// `"<{h}|{h}>"` of a local `h get cat(i, n)`
    Interp,
    /// the result of `cat(i, n)` returned once more
    Wrap,
}

const LONG_PIECE: &str = " 0123456789";

impl Build {
    const ALL: [Build; 7] = [Build::Cat, Build::Dbl, Build::Join, Build::Repl, Build::Upper, Build::Interp, Build::Wrap];
    fn name(self) -> &'static str {
        match self {
            Build::Cat => "cat",
            Build::Dbl => "dbl",
            Build::Join => "jn",
            Build::Repl => "rp",
            Build::Upper => "up",
            Build::Interp => "itp",
            Build::Wrap => "wrap",
        }
    }
    /// Needs `cat` as well.
    fn uses_cat(self) -> bool {
        matches!(self, Build::Upper | Build::Interp | Build::Wrap)
    }
    fn def(self, piece: &str) -> String {
        match self {
            Build::Cat => format!(
                "do cat(i, n) start\n    make line get \"r{{i}}:\"\n    make k get 0\n    jasi (k small pass n) start\n        line get line add \"{piece}\"\n        k get k add 1\n    end\n    return line\nend\n"
            ),
            Build::Dbl => "do dbl(i, n) start\n    make s get \"d{i}.\"\n    jasi (s.len() small pass n) start\n        s get s add s\n    end\n    return s.slice(0, n)\nend\n".to_string(),
            Build::Join => format!(
                "do jn(i, n) start\n    make parts get []\n    make k get 0\n    jasi (k small pass n) start\n        parts.push(\"{piece}\")\n        k get k add 1\n    end\n    return \"j{{i}}\" add parts.join(\"/\")\nend\n"
            ),
            Build::Repl => "do rp(i, n) start\n    make base get \"\"\n    make k get 0\n    jasi (k small pass n) start\n        base get base add \"a\"\n        k get k add 1\n    end\n    return base.replace(\"a\", \"{i}z\")\nend\n".to_string(),
            Build::Upper => "do up(i, n) start return cat(i, n).to_uppercase() end\n".to_string(),
            Build::Interp => "do itp(i, n) start\n    make h get cat(i, n)\n    return \"<{h}|{h}>\"\nend\n".to_string(),
            Build::Wrap => "do wrap(i, n) start return cat(i, n) end\n".to_string(),
        }
    }
    /// The argument `n` that brings the result close to (for `Dbl`, and `Cat` with a one-byte piece: exactly to)
    /// `len` bytes.
    fn arg_for(self, len: usize, piece: &str) -> usize {
        let p = piece.len();
        match self {
            Build::Cat | Build::Upper | Build::Wrap => len.saturating_sub(3).div_ceil(p),
            Build::Dbl => len.max(1),
            Build::Join => (len.saturating_sub(1) / (p + 1)).max(1),
            Build::Repl => len.div_ceil(2),
            Build::Interp => (len.saturating_sub(3) / 2).saturating_sub(3).div_ceil(p),
        }
    }
    /// What the function returns, with plain Rust strings.
    fn text(self, i: usize, n: usize, piece: &str) -> String {
        let cat = |n: usize| format!("r{i}:{}", piece.repeat(n));
        match self {
            Build::Cat | Build::Wrap => cat(n),
            Build::Dbl => {
                let mut s = format!("d{i}.");
                while s.len() < n {
                    s = format!("{s}{s}");
                }
                s[..n.min(s.len())].to_string()
            }
            Build::Join => format!("j{i}{}", vec![piece; n].join("/")),
            Build::Repl => format!("{i}z").repeat(n),
            Build::Upper => cat(n).to_uppercase(),
            Build::Interp => format!("<{0}|{0}>", cat(n)),
        }
    }
}

/// C05 with LONG strings as array elements: strings around and above the largest pool slot (255, 256, 257, 300,
/// 1000 bytes) are BUILT at run time inside functions (loop concatenation, doubling + slice, join, replace,
/// upper-casing, interpolation), RETURNED (also through a second function), and kept: pushed, index-assigned, put
/// into array literals and nested arrays, bound to variables, passed on to a function that stores them in a
/// captured array; arrays are copied. Then storage is allocated through OTHER names (numbers pushed to another
/// array, more strings built and dropped, nested arrays), and every kept element is compared (`na`) with an
/// independently obtained copy (a literal, or the same text built in place without a call), its length is
/// printed, and in a third of the programs the elements and arrays themselves. "Every element keeps its value
/// until it is itself overwritten": the expected output is computed here from plain Rust strings.
fn c05_long(rng: &mut Rng) -> (String, Vec<String>) {
    let piece = *rng.pick(&["x", LONG_PIECE, "ab", "-+-+-+-", "0123456789", "Naija "]);
    let targets: [usize; 16] = [255, 256, 257, 257, 258, 264, 288, 300, 300, 336, 511, 1000, 200, 129, 64, 8];
    let mut src = String::new();
    let mut exp: Vec<String> = Vec::new();
    // which builders this program uses
    let mut used: Vec<Build> = Vec::new();
    for _ in 0..1 + rng.below(3) {
        let b = *rng.pick(&Build::ALL);
        if !used.contains(&b) {
            used.push(b);
        }
    }
    if used.iter().any(|b| b.uses_cat()) && !used.contains(&Build::Cat) {
        used.insert(0, Build::Cat);
    }
    for b in &used {
        src.push_str(&b.def(piece));
    }
    src.push_str("do same(t) start return t end\n");
    src.push_str("make rows get []\ndo keep(t) start rows.push(t) end\nmake grid get [[], [\"seed\"]]\nmake nums get []\nmake other get []\n");
    let mut rows: Vec<String> = Vec::new();
    let mut grid0: Vec<String> = Vec::new();
    let mut kept: Option<Vec<String>> = None;
    let mut vars: Vec<(String, String)> = Vec::new(); // plain variables holding a long string
    let mut next_i = 0usize;
    // one call `b(i, n)`: (source text, value)
    let mut fresh = |rng: &mut Rng| -> (String, String) {
        let b = *rng.pick(&used);
        let len = if rng.chance(1, 6) { rng.range(240, 280) as usize } else { *rng.pick(&targets) };
        let len = if len > 600 && piece.len() < 6 && b != Build::Dbl { 300 } else { len }; // keep the loops short
        let n = b.arg_for(len, piece);
        let i = next_i % 10;
        next_i += 1;
        (format!("{}({i}, {n})", b.name()), b.text(i, n, piece))
    };
    let noise = |rng: &mut Rng, src: &mut String| match rng.below(5) {
        0 | 1 => {
            let k = 20 + rng.below(40);
            src.push_str(&format!("make c get 0\njasi (c small pass {k}) start\n    nums.push(c)\n    c get c add 1\nend\n"));
        }
        2 => src.push_str(&format!("other.push(same(\"{}\" add \"!\"))\nother.push([nums.len(), [1, 2]])\n", "o".repeat(20 + rng.below(300) as usize))),
        3 => src.push_str("make tmp get [[1, 2], [3]]\ntmp[0].push([4, [5]])\nnums.push(tmp.len())\n"),
        _ => src.push_str(&format!("make junk get \"{}\" add to_string(nums.len())\nother.push(junk.len())\n", "j".repeat(250 + rng.below(20) as usize))),
    };
    let steps = 2 + rng.below(5);
    for step in 0..steps {
        let (call, text) = fresh(rng);
        match rng.below(9) {
            0 | 1 => {
                src.push_str(&format!("rows.push({call})\n"));
                rows.push(text);
            }
            2 if !rows.is_empty() => {
                let j = rng.below(rows.len() as u64) as usize;
                src.push_str(&format!("rows[{j}] get {call}\n"));
                rows[j] = text;
            }
            3 if step == 0 => {
                let (call2, text2) = fresh(rng);
                src.push_str(&format!("rows get [{call}, {call2}]\n"));
                rows = vec![text, text2];
            }
            4 => {
                let name = format!("s{}", vars.len());
                src.push_str(&format!("make {name} get {call}\n"));
                if rng.chance(1, 2) {
                    src.push_str(&format!("rows.push({name})\n"));
                    rows.push(text.clone());
                }
                vars.push((name, text));
            }
            5 => {
                src.push_str(&format!("grid[0].push({call})\n"));
                grid0.push(text);
            }
            6 => {
                src.push_str(&format!("keep({call})\n"));
                rows.push(text);
            }
            7 => {
                src.push_str(&format!("rows.push(same({call}))\n"));
                rows.push(text);
            }
            _ => {
                src.push_str(&format!("rows.push({call})\nmake kept get rows\n"));
                rows.push(text);
                kept = Some(rows.clone());
            }
        }
        if rng.chance(1, 2) {
            noise(rng, &mut src);
        }
    }
    noise(rng, &mut src);
    // every kept string against an independent copy
    let print_all = rng.chance(1, 3);
    let mut checks: Vec<(String, String)> = Vec::new();
    for (j, t) in rows.iter().enumerate() {
        checks.push((format!("rows[{j}]"), t.clone()));
    }
    if let Some(k) = &kept {
        for (j, t) in k.iter().enumerate() {
            checks.push((format!("kept[{j}]"), t.clone()));
        }
    }
    for (j, t) in grid0.iter().enumerate() {
        checks.push((format!("grid[0][{j}]"), t.clone()));
    }
    for (name, t) in &vars {
        checks.push((name.clone(), t.clone()));
    }
    for (k, (place, t)) in checks.iter().enumerate() {
        let in_place = t.starts_with('r') && t.contains(':') && rng.chance(1, 2);
        if in_place {
            // the same text built here, no call involved
            let (head, tail) = t.split_at(t.find(':').unwrap() + 1);
            let n = if piece.is_empty() { 0 } else { tail.len() / piece.len() };
            src.push_str(&format!(
                "make want{k} get \"{head}\"\nmake w get 0\njasi (w small pass {n}) start\n    want{k} get want{k} add \"{piece}\"\n    w get w add 1\nend\n"
            ));
        } else {
            src.push_str(&format!("make want{k} get \"{t}\"\n"));
        }
        src.push_str(&format!("shout({place} na want{k})\nshout({place}.len())\n"));
        exp.push("true".to_string());
        exp.push(t.len().to_string());
        if rng.chance(1, 4) {
            noise(rng, &mut src);
        }
    }
    src.push_str("shout(rows.len())\nshout(grid[1])\n");
    exp.push(rows.len().to_string());
    exp.push("[\"seed\"]".to_string());
    if print_all {
        // the texts themselves, last: a damaged one may not even be printable
        let show = |xs: &[String]| V::Arr(xs.iter().map(|t| V::Str(t.clone())).collect()).show(true);
        src.push_str("shout(rows)\nshout(grid[0])\n");
        exp.push(show(&rows));
        exp.push(show(&grid0));
        if let Some(k) = &kept {
            src.push_str("shout(kept)\n");
            exp.push(show(k));
        }
        for (name, t) in &vars {
            src.push_str(&format!("shout({name})\n"));
            exp.push(t.clone());
        }
    }
    (src, exp)
}

/// A non-empty array of 2..3 non-empty flat sub-arrays.
fn rand_grid(rng: &mut Rng) -> V {
    V::Arr(
        (0..2 + rng.below(2))
            .map(|_| {
                V::Arr(
                    (0..2 + rng.below(2))
                        .map(|_| if rng.chance(1, 2) { V::Num(rng.range(0, 99)) } else { V::Str((*rng.pick(&["s", "tt", "é", "w x"])).to_string()) })
                        .collect(),
                )
            })
            .collect(),
    )
}

/// One mutation / read of an array of arrays through an index chain.
#[derive(Clone, Copy, Debug)]
enum ChainStep {
    Push(usize),
    Pop(usize),
    Rev(usize),
    Set(usize, usize),
    Read(usize, usize),
    PushRow,
}

impl ChainStep {
    fn random(rng: &mut Rng, target: &V) -> ChainStep {
        let V::Arr(rows) = target else { return ChainStep::PushRow };
        let i = rng.below(rows.len() as u64) as usize;
        let n = match &rows[i] {
            V::Arr(r) => r.len().max(1),
            _ => 1,
        };
        let k = rng.below(n as u64) as usize;
        match rng.below(8) {
            0 | 1 => ChainStep::Push(i),
            2 => ChainStep::Pop(i),
            3 => ChainStep::Rev(i),
            4 | 5 => ChainStep::Set(i, k),
            6 => ChainStep::Read(i, k),
            _ => ChainStep::PushRow,
        }
    }
    fn text(self, name: &str, lit: &str) -> String {
        match self {
            ChainStep::Push(i) => format!("{name}[{i}].push({lit})"),
            ChainStep::Pop(i) => format!("shout({name}[{i}].pop())"),
            ChainStep::Rev(i) => format!("{name}[{i}].reverse()"),
            ChainStep::Set(i, k) => format!("{name}[{i}][{k}] get {lit}"),
            ChainStep::Read(i, k) => format!("shout({name}[{i}][{k}])"),
            ChainStep::PushRow => format!("{name}.push([{lit}])"),
        }
    }
    /// Apply to the Rust value; `None` when the statement would end the run with an error (or print `null`).
    fn apply(self, target: &mut V, val: &V) -> Option<Option<String>> {
        let V::Arr(rows) = target else { return None };
        fn row(rows: &mut [V], i: usize) -> Option<&mut Vec<V>> {
            match rows.get_mut(i)? {
                V::Arr(r) => Some(r),
                _ => None,
            }
        }
        match self {
            ChainStep::Push(i) => {
                let r = row(rows, i)?;
                if r.len() >= 6 {
                    return None;
                }
                r.push(val.clone());
                Some(None)
            }
            ChainStep::Pop(i) => {
                let r = row(rows, i)?;
                if r.len() < 2 {
                    return None;
                }
                Some(Some(r.pop().unwrap().show(true)))
            }
            ChainStep::Rev(i) => {
                let r = row(rows, i)?;
                r.reverse();
                Some(None)
            }
            ChainStep::Set(i, k) => {
                let r = row(rows, i)?;
                *r.get_mut(k)? = val.clone();
                Some(None)
            }
            ChainStep::Read(i, k) => {
                let r = row(rows, i)?;
                Some(Some(r.get(k)?.show(true)))
            }
            ChainStep::PushRow => {
                if rows.len() >= 5 {
                    return None;
                }
                rows.push(V::Arr(vec![val.clone()]));
                Some(None)
            }
        }
    }
}

fn c05_val(rng: &mut Rng) -> V {
    if rng.chance(1, 2) { V::Num(rng.range(0, 99)) } else { V::Str((*rng.pick(&["p", "qq", "ü", "w x"])).to_string()) }
}

/// All steps of a function body on a copy of the captured array: `None` if one of them would fail now.
fn c05_replay(steps: &[ChainStep], g: &V, val: &V) -> Option<(V, Vec<String>)> {
    let mut copy = g.clone();
    let mut outs = Vec::new();
    for st in steps {
        if let Some(o) = st.apply(&mut copy, val)? {
            outs.push(o);
        }
    }
    Some((copy, outs))
}

/// Statements of a function that holds ITS OWN array `own` called `name` and interleaves calls of the
/// functions working on the captured array `g` (same name) with the same kind of steps on its own array.
fn c05_holder(rng: &mut Rng, name: &str, fns: &[Vec<ChainStep>], own: &mut V, g: &mut V, exp: &mut Vec<String>) -> String {
    let mut body = String::new();
    for _ in 0..2 + rng.below(5) {
        let val = c05_val(rng);
        match rng.below(6) {
            0..=2 => {
                let f = rng.below(fns.len() as u64) as usize;
                if let Some((ng, outs)) = c05_replay(&fns[f], g, &val) {
                    *g = ng;
                    exp.extend(outs);
                    body.push_str(&format!("  touch{f}({})\n", val.lit()));
                }
            }
            3 | 4 => {
                // the mirror: a step on the holder's own array must not reach the captured one
                let st = ChainStep::random(rng, own);
                if let Some(out) = st.apply(own, &val) {
                    body.push_str(&format!("  {}\n", st.text(name, &val.lit())));
                    exp.extend(out);
                }
            }
            _ => {
                body.push_str("  show()\n");
                exp.push(g.show(true));
            }
        }
    }
    body
}

/// C05 x C04: functions mutate and read a CAPTURED top-level array through index chains
/// (`x[i].push/pop/reverse`, `x[i][j] get v`, `x.push`) while functions on the call chain hold an
/// unrelated local or parameter of THE SAME NAME, which they mutate the same way. Every array may only
/// change through the code that lexically refers to it. Expected output computed here.
fn c05_scoped(rng: &mut Rng) -> (String, Vec<String>) {
    let name = *rng.pick(&["data", "xs", "grid", "items"]);
    let mut g = rand_grid(rng); // the captured, top-level array
    let mut l = rand_grid(rng); // the caller's array of the same name
    let mut m = rand_grid(rng); // the intermediate function's array of the same name
    let (l0, m0) = (l.lit(), m.lit());
    let by_param = rng.chance(1, 3);
    let via_mid = rng.chance(1, 2);
    let mut exp: Vec<String> = Vec::new();
    let mut src = format!("make {name} get {}\n", g.lit());
    let mut fns: Vec<Vec<ChainStep>> = Vec::new();
    for f in 0..2 + rng.below(3) {
        let mut scratch = g.clone();
        let mut steps = Vec::new();
        for _ in 0..1 + rng.below(3) {
            let st = ChainStep::random(rng, &scratch);
            if st.apply(&mut scratch, &V::Num(0)).is_some() {
                steps.push(st);
            }
        }
        src.push_str(&format!("do touch{f}(v) start\n"));
        for st in &steps {
            src.push_str(&format!("  {}\n", st.text(name, "v")));
        }
        src.push_str("end\n");
        fns.push(steps);
    }
    src.push_str(&format!("do show() start shout({name}) end\n"));
    // generation order = execution order: caller's first half, the intermediate function, second half
    let half1 = c05_holder(rng, name, &fns, &mut l, &mut g, &mut exp);
    let mut mid_body = String::new();
    if via_mid {
        mid_body = c05_holder(rng, name, &fns, &mut m, &mut g, &mut exp);
        exp.push(m.show(true));
    }
    let half2 = c05_holder(rng, name, &fns, &mut l, &mut g, &mut exp);
    exp.push(l.show(true));
    if via_mid {
        src.push_str(&format!("do mid() start\n  make {name} get {m0}\n{mid_body}  shout({name})\nend\n"));
    }
    let mid_call = if via_mid { "  mid()\n" } else { "" };
    if by_param {
        src.push_str(&format!("do caller({name}) start\n{half1}{mid_call}{half2}  shout({name})\nend\ncaller({l0})\n"));
    } else {
        src.push_str(&format!("do caller() start\n  make {name} get {l0}\n{half1}{mid_call}{half2}  shout({name})\nend\ncaller()\n"));
    }
    src.push_str(&format!("show()\nshout({name})\n"));
    exp.push(g.show(true));
    exp.push(g.show(true));
    (src, exp)
}

/// `show`: print generated program texts (debugging aid).
fn show(args: &[String]) -> i32 {
    let seed = util::opt_u64(args, "--seed", 1);
    let n = util::opt_u64(args, "--n", 3);
    let mut rng = Rng::new(seed ^ 0xC01);
    let mut opts = progen::GenOpts::default();
    opts.bias = bias_of(util::opt(args, "--bias"));
    for _ in 0..n {
        let mut r = rng.fork();
        println!("{}\n=====", progen::gen_program(&mut r, &opts));
    }
    0
}

// --------------------------------------------------------------------------------------- parent

const CASE_TIMEOUT: Duration = Duration::from_secs(60);

fn run_parent() -> i32 {
    let lines = util::stdin_lines();
    let exe = std::env::current_exe().expect("current exe");
    let mut answers: Vec<String> = Vec::with_capacity(lines.len());
    let mut restarts = 0usize;
    while answers.len() < lines.len() {
        let base = answers.len();
        let mut child = Command::new(&exe)
            .args(["run", "worker", "--base", &base.to_string()])
            .env("RUST_BACKTRACE", "0")
            .stdin(Stdio::piped())
            .stdout(Stdio::piped())
            .stderr(Stdio::piped())
            .spawn()
            .expect("spawn worker");
        let mut stdin = child.stdin.take().unwrap();
        let stdout = child.stdout.take().unwrap();
        let stderr = child.stderr.take().unwrap();
        let rest: Vec<String> = lines[base..].to_vec();
        let feeder = std::thread::spawn(move || {
            for l in rest {
                if stdin.write_all(l.as_bytes()).is_err() || stdin.write_all(b"\n").is_err() {
                    break;
                }
            }
        });
        // only ORACLE-FAIL lines of the worker are forwarded (abort backtraces are noise)
        let errs = std::thread::spawn(move || {
            for l in BufReader::new(stderr).lines().map_while(Result::ok) {
                if l.starts_with("ORACLE-FAIL") {
                    eprintln!("{l}");
                }
            }
        });
        let (tx, rx) = mpsc::channel::<String>();
        let reader = std::thread::spawn(move || {
            for l in BufReader::new(stdout).lines().map_while(Result::ok) {
                if tx.send(l).is_err() {
                    break;
                }
            }
        });
        let mut timed_out = false;
        loop {
            match rx.recv_timeout(CASE_TIMEOUT) {
                Ok(l) => answers.push(l),
                Err(mpsc::RecvTimeoutError::Timeout) => {
                    timed_out = true;
                    let _ = child.kill();
                    break;
                }
                Err(mpsc::RecvTimeoutError::Disconnected) => break,
            }
            if answers.len() == lines.len() {
                break;
            }
        }
        let _ = child.kill();
        let _ = child.wait();
        let _ = reader.join();
        let _ = feeder.join();
        let _ = errs.join();
        if answers.len() < lines.len() && answers.len() >= base {
            // the worker died (or hung) on the request after the last answered one
            if answers.len() == base && restarts > 0 && !timed_out && lines[base].is_empty() {
                answers.push("bad-request".into());
            } else {
                answers.push(if timed_out { "out=none end=timeout".into() } else { "out=none end=abort".into() });
            }
            restarts += 1;
        }
    }
    let mut out = Out::new();
    for a in &answers {
        out.line(a);
    }
    0
}

// --------------------------------------------------------------------------------------- worker

static LAST_PANIC: Mutex<String> = Mutex::new(String::new());

fn file_stem(path: &str) -> String {
    let name = path.rsplit('/').next().unwrap_or(path);
    name.strip_suffix(".rs").unwrap_or(name).to_string()
}

fn worker(args: &[String]) -> i32 {
    let base = util::opt_u64(args, "--base", 0) as usize;
    // requests on a copy of fd 0, answers on a copy of fd 1; then both become /dev/null
    let (req_fd, ans_fd) = unsafe {
        let r = libc::dup(0);
        let a = libc::dup(1);
        let null_r = libc::open(c"/dev/null".as_ptr(), libc::O_RDONLY);
        let null_w = libc::open(c"/dev/null".as_ptr(), libc::O_WRONLY);
        libc::dup2(null_r, 0);
        libc::dup2(null_w, 1);
        (r, a)
    };
    use std::os::fd::FromRawFd;
    let req = unsafe { std::fs::File::from_raw_fd(req_fd) };
    let mut ans = unsafe { std::fs::File::from_raw_fd(ans_fd) };
    std::panic::set_hook(Box::new(|info| {
        if let Some(l) = info.location() {
            *LAST_PANIC.lock().unwrap() = format!("{}:{}", file_stem(l.file()), l.line());
        }
    }));
    for (i, line) in BufReader::new(req).lines().map_while(Result::ok).enumerate() {
        let a = answer(&line, base + i + 1);
        if ans.write_all(a.as_bytes()).is_err() || ans.write_all(b"\n").is_err() {
            return 1;
        }
        let _ = ans.flush();
    }
    0
}

fn bits_ans(x: f64) -> String {
    if x.is_nan() { "nan".into() } else { format!("{:016x}", x.to_bits()) }
}

fn answer(line: &str, lineno: usize) -> String {
    let head = line.split(" ast=").next().unwrap_or("");
    let w: Vec<&str> = head.split_whitespace().collect();
    match w.as_slice() {
        ["run", src, pol, _plan, ..] => {
            let Some(bytes) = util::unhex(src) else { return "bad-request".into() };
            let Ok(text) = String::from_utf8(bytes) else { return "bad-request".into() };
            let allow = *pol == "pol=a";
            let main = exec(&text, true, true, allow);
            let again = exec(&text, true, true, allow);
            if again != main {
                eprintln!("ORACLE-FAIL {lineno} [C01] run twice: {main} vs {again}");
            }
            let noframe = exec(&text, false, true, allow);
            if noframe != main {
                eprintln!("ORACLE-FAIL {lineno} [C02] frame=Some vs frame=None: {main} vs {noframe}");
            }
            let noplan = exec(&text, true, false, allow);
            if noplan != main {
                eprintln!("ORACLE-FAIL {lineno} [C03] plan vs no plan: {main} vs {noplan}");
            }
            // C06 speaks about every way of running an accepted program: a crash that only the run without
            // the frame arena / without the optimisation plan shows is a crash
            for (how, r) in [("frame=None", &noframe), ("no optimisation plan", &noplan)] {
                if r.contains("end=panic") && !main.contains("end=panic") {
                    eprintln!("ORACLE-FAIL {lineno} [C06] accepted program panics in the run with {how}: {r} (plan + frame: {main})");
                }
            }
            if let Some(what) = scope_tag_oracle(&text) {
                eprintln!("ORACLE-FAIL {lineno} [C04] scope tags: {what}");
            }
            if let Some(exp) = w.iter().find_map(|x| x.strip_prefix("exp=")) {
                let want = format!("out={exp} end=ok");
                if main != want {
                    if w.iter().any(|x| x.starts_with("tag=c04")) {
                        eprintln!("ORACLE-FAIL {lineno} [C04] lexical-scoping oracle (a re-declaration in the same block re-binds the same variable): got {main} want {want}");
                    } else {
                        eprintln!("ORACLE-FAIL {lineno} [C05] value-semantics oracle: got {main} want {want}");
                    }
                }
            }
            if text.lines().next().is_some_and(|l| l.trim() == UNIQUE_NAMES_MARK) {
                let by_name = exec_by_name(&text, allow);
                if by_name != main {
                    eprintln!("ORACLE-FAIL {lineno} [C04] bound vs by-name lookup on a program with unique names: {main} vs {by_name}");
                }
            }
            main
        }
        ["rej", _] => "rejected".into(),
        ["fmt", b] => match u64::from_str_radix(b, 16) {
            Ok(bits) => util::hex(format!("{}", f64::from_bits(bits)).as_bytes()),
            Err(_) => "bad-request".into(),
        },
        ["parse", h] => match util::unhex(h).and_then(|b| String::from_utf8(b).ok()) {
            Some(s) => match s.parse::<f64>() {
                Ok(x) => bits_ans(x),
                Err(_) => "err".into(),
            },
            None => "bad-request".into(),
        },
        ["fmod", a, b] => match (u64::from_str_radix(a, 16), u64::from_str_radix(b, 16)) {
            (Ok(x), Ok(y)) => bits_ans(f64::from_bits(x) % f64::from_bits(y)),
            _ => "bad-request".into(),
        },
        ["cast", a] => match u64::from_str_radix(a, 16) {
            Ok(x) => {
                let f = f64::from_bits(x);
                format!("{} {} {}", f as isize, f as usize, f as u32)
            }
            Err(_) => "bad-request".into(),
        },
        ["un", op, a] => match u64::from_str_radix(a, 16) {
            Ok(x) => {
                let f = f64::from_bits(x);
                match *op {
                    "floor" => bits_ans(f.floor()),
                    "ceil" => bits_ans(f.ceil()),
                    "round" => bits_ans(f.round()),
                    "sqrt" => bits_ans(f.sqrt()),
                    "abs" => bits_ans(f.abs()),
                    _ => "bad-request".into(),
                }
            }
            Err(_) => "bad-request".into(),
        },
        _ => "bad-request".into(),
    }
}

/// Implementation-level oracle behind the evaluator model's scope tags (`Scope.decls` in
/// `Model/Eval.lean`): the runtime tags a scope instance with a `ScopeId` and compares it with
/// `facts.locals[l].declaring_scope`; the model tags it with the locals its OWN `make` statements (for a
/// block) or its parameters (for a call) are bound to. The two coincide iff, for every block `B` of an
/// accepted program, the locals whose declaring scope is `scope_of_block(B)` are exactly the bindings of
/// the `make` statements directly in `B`, and the locals whose declaring scope is that of a function's
/// first parameter are exactly its parameters. Checked here on the real resolver's facts.
fn scope_tag_oracle(src: &str) -> Option<String> {
    fn sorted(mut v: Vec<u32>) -> Vec<u32> {
        v.sort_unstable();
        v.dedup();
        v
    }
    fn block<'a>(facts: &ProgramFacts<'a, 'a>, b: BlockRef<'a>, bad: &mut Option<String>) {
        let Some(scope) = facts.scope_of_block(b) else {
            bad.get_or_insert(format!("block {}..{} has no scope", b.span.start, b.span.end));
            return;
        };
        let mut makes = Vec::new();
        // C04 itself: a name `make`-declared again directly in the same block is the SAME variable
        let mut by_name: Vec<(&str, u32)> = Vec::new();
        for stmt in b.stmts {
            match stmt {
                Stmt::Assign { var, .. } => match facts.stmt_local(stmt) {
                    Some(l) => {
                        makes.push(l.0);
                        match by_name.iter().find(|(n, _)| n == var) {
                            Some((_, first)) if *first != l.0 => {
                                bad.get_or_insert(format!(
                                    "same-block re-declaration: `make {var}` in block {}..{} binds local {} while the earlier `make {var}` of that block binds local {first}",
                                    b.span.start, b.span.end, l.0
                                ));
                            }
                            Some(_) => {}
                            None => by_name.push((*var, l.0)),
                        }
                    }
                    None => {
                        bad.get_or_insert(format!("unbound make in block {}..{}", b.span.start, b.span.end));
                    }
                },
                Stmt::If { then_b, else_b, .. } => {
                    block(facts, then_b, bad);
                    if let Some(eb) = else_b {
                        block(facts, eb, bad);
                    }
                }
                Stmt::Loop { body, .. } => block(facts, body, bad),
                Stmt::Block { block: inner, .. } => block(facts, inner, bad),
                Stmt::FunctionDef { params, body, .. } => {
                    match facts.function_by_body(body) {
                        Some(f) => {
                            let n = params.params.len() as u32;
                            let start = facts.local_range(f).start;
                            let ids: Vec<u32> = (start..start + n).collect();
                            if n > 0 {
                                let p = facts.locals[start as usize].declaring_scope;
                                let declared = sorted(facts.scope_locals(p).iter().map(|l| l.0).collect());
                                if declared != ids {
                                    bad.get_or_insert(format!(
                                        "parameter scope {} of function {} declares {declared:?}, parameters are {ids:?}",
                                        p.0, f.0
                                    ));
                                }
                            }
                        }
                        None => {
                            bad.get_or_insert(format!("function body {}..{} is unbound", body.span.start, body.span.end));
                        }
                    }
                    block(facts, body, bad);
                }
                _ => {}
            }
        }
        let declared = sorted(facts.scope_locals(scope).iter().map(|l| l.0).collect());
        let makes = sorted(makes);
        if declared != makes {
            bad.get_or_insert(format!(
                "scope {} of block {}..{} declares {declared:?}, its make statements bind {makes:?}",
                scope.0, b.span.start, b.span.end
            ));
        }
    }
    util::catch(|| {
        let arena = Arena::new(pipeline::ARENA_CAP).unwrap();
        let lexer = Lexer::new(src, &arena);
        let mut parser = Parser::new(lexer, &arena);
        let (root, errs) = parser.parse_program();
        if !errs.diagnostics.is_empty() {
            return None;
        }
        let mut resolver = Resolver::new(&arena);
        resolver.resolve(root);
        if resolver.errors.has_errors() {
            return None;
        }
        let mut bad = None;
        block(&resolver.facts, root, &mut bad);
        bad
    })
    .unwrap_or_else(|_| Some("oracle panicked".to_string()))
}

fn kind_name(message: &str) -> &'static str {
    match message {
        "I/O error" => "Io",
        "Division by zero" => "DivisionByZero",
        "Stack overflow" => "StackOverflow",
        "Index out of bounds" => "IndexOutOfBounds",
        "Type mismatch" => "TypeMismatch",
        "Invalid index" => "InvalidIndex",
        "Undefined variable" => "UndefinedVariable",
        "Unsupported process execution" => "ProcessUnsupported",
        "Process execution denied" => "ProcessDenied",
        "Process spawn failed" => "ProcessSpawnFailed",
        "Process timeout" => "ProcessTimeout",
        "Process output limit exceeded" => "ProcessOutputLimitExceeded",
        "Process output no be valid UTF-8" => "ProcessInvalidUtf8",
        "Invalid process configuration" => "ProcessSpecInvalid",
        _ => "Unknown",
    }
}

/// The shipped pipeline (lex → parse → resolve → run) on fresh arenas; the canonical answer.
pub fn exec(src: &str, with_frame: bool, with_plan: bool, allow_process: bool) -> String {
    exec_mode(src, with_frame, with_plan, allow_process, false)
}

/// The run WITHOUT the resolver's facts (`Runtime::run`): every variable and function is looked up by name.
fn exec_by_name(src: &str, allow_process: bool) -> String {
    exec_mode(src, true, false, allow_process, true)
}

fn exec_mode(src: &str, with_frame: bool, with_plan: bool, allow_process: bool, by_name: bool) -> String {
    let r = util::catch(|| {
        let arena = Arena::new(pipeline::ARENA_CAP).unwrap();
        let frame = Arena::new(pipeline::ARENA_CAP).unwrap();
        let lexer = Lexer::new(src, &arena);
        let mut parser = Parser::new(lexer, &arena);
        let (root, errs) = parser.parse_program();
        if !errs.diagnostics.is_empty() {
            return "rejected".to_string();
        }
        let mut resolver = Resolver::new(&arena);
        resolver.resolve(root);
        if resolver.errors.has_errors() {
            return "rejected".to_string();
        }
        let policy = HostPolicy { allow_process, process: ProcessCaps::defaults() };
        let mut rt = Runtime::new_with_host_policy(&arena, if with_frame { Some(&frame) } else { None }, policy);
        let plan = if with_plan { resolver.optimization_plan.as_ref() } else { None };
        // a panic inside the run must still let us read the output collected so far
        let res = util::catch(|| {
            if by_name {
                rt.run(root);
            } else {
                rt.run_with_analysis(root, &resolver.facts, plan);
            }
        });
        let outs: Vec<String> = rt.output.iter().map(|v| util::hex(format!("{v}").as_bytes())).collect();
        let out = if outs.is_empty() { "none".to_string() } else { outs.join(",") };
        match res {
            Err(_) => format!("out={out} end=panic@{}", LAST_PANIC.lock().unwrap()),
            Ok(()) => match rt.errors.diagnostics.first() {
                None => format!("out={out} end=ok"),
                Some(d) => {
                    // REPORTING the runtime error is part of "ends with a reported runtime error": render it the way
                    // the CLI does (and the warnings of the static passes); a panic in there is a crash of the
                    // interpreter like any other (seed C06-e1)
                    let line = format!("out={out} end=rt:{}@{}:{}", kind_name(d.message), d.span.start, d.span.end);
                    match util::catch(|| {
                        let _ = resolver.errors.render_ansi(src, "run.ns");
                        let _ = rt.errors.render_ansi(src, "run.ns");
                    }) {
                        Ok(()) => line,
                        Err(_) => format!("out={out} end=panic@{}", LAST_PANIC.lock().unwrap()),
                    }
                }
            },
        }
    });
    match r {
        Ok(s) => s,
        Err(_) => format!("out=none end=panic@{}", LAST_PANIC.lock().unwrap()),
    }
}
