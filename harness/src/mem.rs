//! Family `mem` (C02): memory reclamation is invisible.
//!
//! Protocol (one request per line, one answer per line):
//! ```text
//! d <hex src>   -> <outcome>            differential: the program is run twice by the real crate
//!                                        (Runtime::new(arena, Some(frame)) and Runtime::new(arena, None)),
//!                                        each in a worker subprocess (a debug build aborts on poisoned
//!                                        memory); `<outcome>` is the canonical result of the run WITH
//!                                        reclamation; a difference between the two runs, a panic or an
//!                                        abort is reported on stderr as `ORACLE-FAIL <line> [C02] ...`
//! ```
//! Canonical result of one run: `ok|rt:<message>:<lo>:<hi>|panic|abort|front:<why>` followed by
//! ` out=` and the printed values (`s<hex>`, `n<bits>`, `b0|b1`, `z`, `[..]`, `h<hex of display>`).
//!
//! Sub-actions: `gen` (random programs), `product` (the enumerated value-source x store-path x
//! reclamation-event x observation product of DESIGN "### C02"), `run`, `worker` (internal), `one <file>`.

use std::io::{BufRead, BufReader, Write};
use std::process::{Child, ChildStdin, ChildStdout, Command, Stdio};

use naijascript::arena::Arena;
use naijascript::runtime::{Runtime, Value};

use crate::pipeline;
use crate::util::{self, Out};

#[path = "memgen.rs"]
mod memgen;
#[path = "memtrace.rs"]
mod memtrace;

/// The memory-trace hook of /repo (`arena::verif_hooks::mem_trace_*`, proposed-fixes/hook-mem-trace.diff).
/// The block-level glob imports pick the crate's functions when they exist and fall back to the
/// no-op functions of this module otherwise, so the harness builds against a tree without the hook.
mod hook {
    pub type Ev = (&'static str, u64, u64);
    fn mem_trace_start() {}
    fn mem_trace_take() -> Vec<Ev> {
        Vec::new()
    }
    fn mem_trace(_k: &'static str, _a: u64, _b: u64) {}
    pub fn start() {
        #[allow(unused_imports)]
        use naijascript::arena::verif_hooks::*;
        mem_trace_start()
    }
    pub fn take() -> Vec<Ev> {
        #[allow(unused_imports)]
        use naijascript::arena::verif_hooks::*;
        mem_trace_take()
    }
    pub fn present() -> bool {
        #[allow(unused_imports)]
        use naijascript::arena::verif_hooks::*;
        mem_trace_start();
        mem_trace("probe", 0, 0);
        !mem_trace_take().is_empty()
    }
}

pub fn main(args: &[String]) -> i32 {
    match args.first().map(String::as_str) {
        Some("run") => run(&args[1..]),
        Some("worker") => worker(),
        Some("one") => one(&args[1..]),
        Some("hook-present") => {
            println!("{}", u8::from(hook::present()));
            0
        }
        Some("gen") if util::opt(&args[1..], "--kind") == Some("trace") => {
            let seed = util::opt_u64(&args[1..], "--seed", 1);
            let n = util::opt_u64(&args[1..], "--n", 1000);
            memtrace::generate(seed, n)
        }
        Some("gen") => {
            let seed = util::opt_u64(&args[1..], "--seed", 1);
            let n = util::opt_u64(&args[1..], "--n", 1000);
            let mut out = Out::new();
            let (programs, shapes) = memgen::random_programs_with_shapes(seed, n);
            for src in programs {
                out.line(&format!("d {}", util::hex(src.as_bytes())));
            }
            // distribution of the temporary-receiver shapes (read by checks/c02.py)
            let shapes: Vec<String> = shapes.iter().map(|(k, v)| format!("{k}={v}")).collect();
            eprintln!("GEN-STAT programs={n} {}", shapes.join(" "));
            0
        }
        Some("product") => {
            let mut out = Out::new();
            for (tag, src) in memgen::product_programs() {
                out.line(&format!("d {}", util::hex(format!("# {tag}\n{src}").as_bytes())));
            }
            0
        }
        _ => {
            eprintln!("usage: nvh mem gen|product|run|one ...");
            2
        }
    }
}

/// Constants/tables of the compiled crate this family wants in `nvh dump-tables`.
pub fn dump_tables(_out: &mut Vec<(String, String)>) {}

// ------------------------------------------------------------------------------------------------
// one run of the real interpreter

/// Wall-clock limit of one run in the worker (generated programs take milliseconds).
const WORKER_ALARM_SECS: u32 = 5;
/// After this many oracle failures one `run` stops executing further `d` requests.
const MAX_FAILS_PER_RUN: usize = 150;
const ARENA_CAP: usize = 64 << 20;
const FRAME_CAP: usize = 16 << 20;

fn canon_value(v: &Value<'_>, out: &mut String) {
    match v {
        Value::Str(s) => {
            out.push('s');
            out.push_str(&util::hex(s.as_bytes()));
        }
        Value::Number(n) => {
            let bits = if n.is_nan() { 0x7ff8_0000_0000_0000 } else { n.to_bits() };
            out.push_str(&format!("n{bits:016x}"));
        }
        Value::Bool(b) => out.push_str(if *b { "b1" } else { "b0" }),
        Value::Null => out.push('z'),
        Value::Array(items) => {
            out.push('[');
            for (i, it) in items.iter().enumerate() {
                if i > 0 {
                    out.push(',');
                }
                canon_value(it, out);
            }
            out.push(']');
        }
        Value::Host(..) => {
            out.push('h');
            out.push_str(&util::hex(format!("{v}").as_bytes()));
        }
    }
}

/// Runs `src` through lex → parse → resolve → run (facts attached, no optimisation plan) and
/// returns the canonical result.
fn run_once(src: &str, with_frame: bool) -> String {
    run_traced(src, with_frame, false).0
}

/// As `run_once`; with `trace` the hook log of the run is returned as well.
fn run_traced(src: &str, with_frame: bool, trace: bool) -> (String, Vec<hook::Ev>) {
    let mut events = Vec::new();
    let r = run_inner(src, with_frame, trace, &mut events);
    (r, events)
}

fn run_inner(src: &str, with_frame: bool, trace: bool, events: &mut Vec<hook::Ev>) -> String {
    let arena = Arena::new(ARENA_CAP).unwrap();
    let frame = Arena::new(FRAME_CAP).unwrap();
    pipeline::with_resolved(src, &arena, |root, pd, res| {
        let Some(res) = res else {
            return format!("front:parse:{}", pd.diagnostics.len());
        };
        if res.errors.has_errors() {
            return "front:resolve".to_string();
        }
        let mut rt = Runtime::new(&arena, if with_frame { Some(&frame) } else { None });
        if trace {
            hook::start();
        }
        rt.run_with_analysis(root, &res.facts, None);
        if trace {
            *events = hook::take();
        }
        let mut s = String::new();
        match rt.errors.diagnostics.first() {
            None => s.push_str("ok"),
            Some(d) => {
                s.push_str(&format!("rt:{}:{}:{}", d.message.replace(' ', "_"), d.span.start, d.span.end))
            }
        }
        s.push_str(" out=");
        for (i, v) in rt.output.iter().enumerate() {
            if i > 0 {
                s.push(';');
            }
            canon_value(v, &mut s);
        }
        s
    })
}

// ------------------------------------------------------------------------------------------------
// worker subprocess: `<F|N> <hex src>` per line on stdin, one answer line on the saved stdout

fn worker() -> i32 {
    util::silence_panics();
    // `shout` prints to the real stdout: keep a private copy of fd 1 for the answers and point fd 1
    // at /dev/null.
    let saved = unsafe { libc::dup(1) };
    let devnull = unsafe { libc::open(c"/dev/null".as_ptr(), libc::O_WRONLY) };
    unsafe { libc::dup2(devnull, 1) };
    let mut out = unsafe { <std::fs::File as std::os::fd::FromRawFd>::from_raw_fd(saved) };
    // A program may run a child process (`command(..).run()`) or read a line: with an inherited stdin
    // that would be the request pipe (a child `cat` swallows the requests and everything hangs). The
    // requests are read from a private duplicate of fd 0 and fd 0 becomes /dev/null; neither private
    // descriptor is inherited by a child.
    let req_fd = unsafe { libc::dup(0) };
    let null_in = unsafe { libc::open(c"/dev/null".as_ptr(), libc::O_RDONLY) };
    unsafe {
        libc::fcntl(req_fd, libc::F_SETFD, libc::FD_CLOEXEC);
        libc::fcntl(saved, libc::F_SETFD, libc::FD_CLOEXEC);
        libc::dup2(null_in, 0);
        libc::close(null_in);
    }
    let requests = BufReader::new(unsafe { <std::fs::File as std::os::fd::FromRawFd>::from_raw_fd(req_fd) });
    for line in requests.lines() {
        let Ok(line) = line else { break };
        // watchdog: a run that reads recycled memory may loop forever; SIGALRM ends the worker, the
        // parent sees EOF and reports `abort` for the request in flight
        unsafe { libc::alarm(WORKER_ALARM_SECS) };
        let w: Vec<&str> = line.split_whitespace().collect();
        let ans = match w.as_slice() {
            [mode @ ("F" | "N"), src] => match util::unhex(src).and_then(|b| String::from_utf8(b).ok()) {
                Some(text) => util::catch(|| run_once(&text, *mode == "F")).unwrap_or_else(|_| "panic".to_string()),
                None => "bad-op".to_string(),
            },
            // frame run with the hook log: `<result> trace=<kind:a:b,...>`
            ["T", src] => match util::unhex(src).and_then(|b| String::from_utf8(b).ok()) {
                Some(text) => util::catch(|| {
                    let (r, ev) = run_traced(&text, true, true);
                    let evs: Vec<String> = ev.iter().map(|(k, a, b)| format!("{k}:{a}:{b}")).collect();
                    format!("{r} trace={}", if evs.is_empty() { "-".to_string() } else { evs.join(",") })
                })
                .unwrap_or_else(|_| "panic".to_string()),
                None => "bad-op".to_string(),
            },
            _ => "bad-op".to_string(),
        };
        if writeln!(out, "{ans}").is_err() || out.flush().is_err() {
            break;
        }
        unsafe { libc::alarm(0) };
    }
    0
}

struct Worker {
    child: Child,
    stdin: ChildStdin,
    stdout: BufReader<ChildStdout>,
}

impl Worker {
    fn spawn() -> Worker {
        let exe = std::env::current_exe().expect("own path");
        let mut child = Command::new(exe)
            .args(["mem", "worker"])
            .stdin(Stdio::piped())
            .stdout(Stdio::piped())
            .stderr(Stdio::null())
            .spawn()
            .expect("spawn worker");
        let stdin = child.stdin.take().unwrap();
        let stdout = BufReader::new(child.stdout.take().unwrap());
        Worker { child, stdin, stdout }
    }

    /// One request; `None` = the worker died on it.
    fn ask(&mut self, req: &str) -> Option<String> {
        if writeln!(self.stdin, "{req}").is_err() || self.stdin.flush().is_err() {
            return None;
        }
        let mut line = String::new();
        match self.stdout.read_line(&mut line) {
            Ok(n) if n > 0 => Some(line.trim_end().to_string()),
            _ => None,
        }
    }
}

impl Drop for Worker {
    fn drop(&mut self) {
        let _ = self.child.kill();
        let _ = self.child.wait();
    }
}

struct Pool2 {
    w: Option<Worker>,
}

impl Pool2 {
    fn ask(&mut self, req: &str) -> String {
        if self.w.is_none() {
            self.w = Some(Worker::spawn());
        }
        match self.w.as_mut().unwrap().ask(req) {
            Some(a) => a,
            None => {
                self.w = None; // restart lazily
                "abort".to_string()
            }
        }
    }
}

/// Both runs of one program: (with reclamation, without) and the hook log of the first.
fn differential(p: &mut Pool2, hexsrc: &str) -> (String, String, String) {
    let t = p.ask(&format!("T {hexsrc}"));
    let (f, tr) = match t.split_once(" trace=") {
        Some((f, tr)) => (f.to_string(), tr.to_string()),
        None => (t, "-".to_string()),
    };
    let n = p.ask(&format!("N {hexsrc}"));
    (f, n, tr)
}

/// Reclamation statistics of a hook log: frame resets, pool frees, pool allocations, allocations
/// that reuse a previously freed slot, clone-on-read copies.
fn stats(trace: &str) -> String {
    let (mut resets, mut frees, mut allocs, mut reuse, mut rcopy) = (0, 0, 0, 0, 0);
    let mut freed = std::collections::HashSet::new();
    for ev in trace.split(',') {
        let w: Vec<&str> = ev.split(':').collect();
        match w.as_slice() {
            ["reset", ..] => resets += 1,
            ["pfree", c, i] => {
                frees += 1;
                freed.insert((c.to_string(), i.to_string()));
            }
            ["palloc", c, i] => {
                allocs += 1;
                if freed.remove(&(c.to_string(), i.to_string())) {
                    reuse += 1;
                }
            }
            ["rcopy", ..] => rcopy += 1,
            _ => {}
        }
    }
    format!("resets={resets} frees={frees} pallocs={allocs} reuse={reuse} rcopy={rcopy}")
}

fn verdict(f: &str, n: &str) -> Option<String> {
    if f.starts_with("panic") || f.starts_with("abort") {
        return Some(format!("run with reclamation ended in {f}; without: {n}"));
    }
    if f != n {
        return Some(format!("with reclamation: {f}; without: {n}"));
    }
    None
}

fn run(_args: &[String]) -> i32 {
    let mut out = Out::new();
    let mut pool = Pool2 { w: None };
    let mut fails = 0usize;
    for (i, line) in util::stdin_lines().iter().enumerate() {
        let w: Vec<&str> = line.split_whitespace().collect();
        match w.as_slice() {
            ["d", _] if fails >= MAX_FAILS_PER_RUN => {
                // enough failures for the search to work with: do not spend the watchdog time of
                // every remaining program of a badly broken tree
                eprintln!("STAT {} end=skipped resets=0 frees=0 pallocs=0 reuse=0 rcopy=0", i + 1);
                out.line("d");
            }
            ["d", src] => {
                let (f, n, tr) = differential(&mut pool, src);
                if let Some(why) = verdict(&f, &n) {
                    eprintln!("ORACLE-FAIL {} [C02] {why}", i + 1);
                    fails += 1;
                }
                let end = f.split(' ').next().unwrap_or("?").split(':').next().unwrap_or("?");
                eprintln!("STAT {} end={end} {}", i + 1, stats(&tr));
                // the model's prediction for a differential is "equal" (theorem c02_erasure)
                out.line("d");
            }
            ["m", src, ..] => out.line(&memtrace::answer(&mut pool, src)),
            _ => out.line("bad-op"),
        }
    }
    0
}

/// `nvh mem one <file>`: differential on one source file, human readable.
fn one(args: &[String]) -> i32 {
    let Some(path) = args.first() else { return 2 };
    let src = std::fs::read(path).expect("read");
    let mut pool = Pool2 { w: None };
    let (f, n, tr) = differential(&mut pool, &util::hex(&src));
    println!("frame:    {f}\nno-frame: {n}\nstats:    {}\ntrace:    {tr}", stats(&tr));
    match verdict(&f, &n) {
        Some(why) => {
            println!("DIFFERENT: {why}");
            1
        }
        None => 0,
    }
}
