//! Family `depth` (C08): guard coverage of the interpreter's recursion.
//!
//! The compiled frame sizes live outside any model, and a native stack overflow kills the process,
//! so the *behavioural* part of C08 (every recursion shape ends in `Stack overflow`, the crash
//! thresholds, the stack the real binary needs) is driven by `checks/c08.py` against the real `naija`
//! binary in child processes.  This module is the structural tie: an independent scan (not the Python
//! extractor) of the current source for functions, call edges, call cycles and guard sites, answering
//! the same questions as `nvdriver depth` answers from the hand-annotated model:
//!
//! ```text
//! budget                      -> <STACK_BUDGET in bytes>
//! guard <fn>                  -> 1 | 0     <fn> of runtime.rs calls the stack probe
//! rec <fn>                    -> 1 | 0     <fn> lies on a call cycle of runtime.rs (+ recursive builtins)
//! path <f1>,<f2>,…            -> ok frames=<n> guarded=<k> maxfree=<m> | no-edge <a>-><b> | empty
//! front <stage> <fn>          -> rec=<0|1> guard=<0|1>     stage ∈ lexer parser resolver cfg
//! arm <StmtKind>              -> descends=<0|1> probed=<0|1> | unknown-arm
//!                                the arm of `exec_stmt` for that statement kind: does it descend into a nested
//!                                block (`exec_block_with_flow`), and does EVERY path to the descent pass a probe
//!                                (a guard function is called on the straight-line prefix of the arm, directly or
//!                                through functions whose own straight-line prefix probes)
//! ```
//! `gen` writes: `budget`, `guard`/`rec` for every function seen, `front` for every function of the
//! front-end files, `arm` for every statement kind `exec_stmt` matches on, and random walks (`path`) over the scanned graph starting at `run_inner`.
//! The source root is `$NV_REPO` (default `/repo`).

use std::collections::{BTreeMap, BTreeSet};

use crate::util::{self, Out, Rng};

pub fn main(args: &[String]) -> i32 {
    match args.first().map(String::as_str) {
        Some("gen") => generate(&args[1..]),
        Some("run") => run(),
        Some("scan") => {
            let sc = Scan::runtime();
            for (f, cs) in &sc.edges {
                if sc.rec.contains(f) || f == "run_inner" {
                    println!("{f} -> {}", cs.iter().cloned().collect::<Vec<_>>().join(" "));
                }
            }
            0
        }
        _ => {
            eprintln!("usage: nvh depth gen --seed S --n N | nvh depth run < requests | nvh depth scan");
            2
        }
    }
}

pub fn dump_tables(_out: &mut Vec<(String, String)>) {}

fn repo() -> String {
    std::env::var("NV_REPO").unwrap_or_else(|_| "/repo".to_string())
}

// ---------------------------------------------------------------------------------------------
// a small Rust source scanner

/// Blank out comments, char literals and the inside of string literals (format braces are kept).
fn strip(src: &str) -> Vec<u8> {
    let b = src.as_bytes();
    let mut out = Vec::with_capacity(b.len());
    let mut i = 0;
    while i < b.len() {
        if b[i] == b'/' && i + 1 < b.len() && b[i + 1] == b'/' {
            while i < b.len() && b[i] != b'\n' {
                out.push(b' ');
                i += 1;
            }
        } else if b[i] == b'/' && i + 1 < b.len() && b[i + 1] == b'*' {
            while i < b.len() && !(b[i] == b'*' && i + 1 < b.len() && b[i + 1] == b'/') {
                out.push(if b[i] == b'\n' { b'\n' } else { b' ' });
                i += 1;
            }
            out.extend_from_slice(b"  ");
            i += 2;
        } else if b[i] == b'"' {
            out.push(b'"');
            i += 1;
            while i < b.len() && b[i] != b'"' {
                if b[i] == b'\\' {
                    out.extend_from_slice(b"  ");
                    i += 2;
                } else {
                    out.push(if b[i] == b'{' || b[i] == b'}' || b[i] == b'\n' { b[i] } else { b' ' });
                    i += 1;
                }
            }
            out.push(b'"');
            i += 1;
        } else if b[i] == b'\'' {
            // char literal ('x', '\n', '\'') or lifetime ('a)
            let lit = if i + 2 < b.len() && b[i + 1] == b'\\' {
                b[i + 2..].iter().position(|&c| c == b'\'').map(|p| p + 3)
            } else if i + 2 < b.len() && b[i + 2] == b'\'' {
                Some(3)
            } else {
                None
            };
            match lit {
                Some(n) if n <= 8 => {
                    out.extend(std::iter::repeat_n(b' ', n));
                    i += n;
                }
                _ => {
                    out.push(b'\'');
                    i += 1;
                }
            }
        } else {
            out.push(b[i]);
            i += 1;
        }
    }
    out
}

/// Blank out everything that exists only under the cargo feature `verif-hooks` (the attribute and the
/// item / statement / expression it is attached to) and every `vtrace!(..)` call: verification hooks
/// never change the scanned graph.  Returns text of the same length.
fn drop_hooks(src: &str) -> String {
    const ATTR: &[u8] = b"#[cfg(feature = \"verif-hooks\")]";
    let raw = src.as_bytes();
    let st = strip(src);
    let mut out = raw.to_vec();
    let blank = |out: &mut Vec<u8>, a: usize, b: usize| {
        for c in &mut out[a..b.min(raw.len())] {
            if *c != b'\n' {
                *c = b' ';
            }
        }
    };
    let mut from = 0;
    while let Some(p) = find_sub(raw, ATTR, from) {
        from = p + ATTR.len();
        let mut j = from;
        let mut depth = 0i32;
        let mut end = from;
        while j < st.len() {
            match st[j] {
                b'(' | b'[' => depth += 1,
                b')' | b']' => {
                    if depth == 0 {
                        end = j;
                        break;
                    }
                    depth -= 1;
                }
                b'{' if depth == 0 => {
                    end = block_end(&st, j);
                    loop {
                        let mut k = end;
                        while k < st.len() && (st[k] == b' ' || st[k] == b'\n') {
                            k += 1;
                        }
                        if k + 4 <= st.len() && &st[k..k + 4] == b"else" {
                            if let Some(o) = st[k..].iter().position(|&c| c == b'{') {
                                end = block_end(&st, k + o);
                                continue;
                            }
                        }
                        if k < st.len() && (st[k] == b';' || st[k] == b',') {
                            end = k + 1;
                        }
                        break;
                    }
                    break;
                }
                b';' | b',' if depth == 0 => {
                    end = j + 1;
                    break;
                }
                b'}' if depth == 0 => {
                    end = j;
                    break;
                }
                _ => {}
            }
            j += 1;
        }
        blank(&mut out, p, end);
    }
    // stray trace calls
    let mut from = 0;
    while let Some(p) = find_sub(&st, b"vtrace!", from) {
        from = p + 7;
        let mut j = from;
        while j < st.len() && st[j] == b' ' {
            j += 1;
        }
        if j < st.len() && st[j] == b'(' {
            let mut depth = 0i32;
            while j < st.len() {
                if st[j] == b'(' {
                    depth += 1;
                } else if st[j] == b')' {
                    depth -= 1;
                    if depth == 0 {
                        break;
                    }
                }
                j += 1;
            }
            blank(&mut out, p, j + 1);
        }
    }
    String::from_utf8_lossy(&out).to_string()
}

fn block_end(s: &[u8], open: usize) -> usize {
    let mut depth = 0i32;
    for (j, &c) in s.iter().enumerate().skip(open) {
        if c == b'{' {
            depth += 1;
        } else if c == b'}' {
            depth -= 1;
            if depth == 0 {
                return j + 1;
            }
        }
    }
    s.len()
}

fn is_ident(c: u8) -> bool {
    c.is_ascii_alphanumeric() || c == b'_'
}

fn find_sub(s: &[u8], pat: &[u8], from: usize) -> Option<usize> {
    if from >= s.len() {
        return None;
    }
    s[from..].windows(pat.len()).position(|w| w == pat).map(|p| p + from)
}

/// Names of the types that have an `impl` block in the file.
fn impl_types(src: &str) -> BTreeSet<String> {
    let s = strip(&drop_hooks(src));
    let mut out = BTreeSet::new();
    let mut from = 0;
    while let Some(p) = find_sub(&s, b"impl", from) {
        from = p + 4;
        if (p > 0 && is_ident(s[p - 1])) || (p + 4 < s.len() && is_ident(s[p + 4])) {
            continue;
        }
        let Some(o) = s[p..].iter().position(|&c| c == b'{' || c == b';') else { break };
        let head = String::from_utf8_lossy(&s[p + 4..p + o]).to_string();
        // drop generic argument lists, then take the last capitalised word (the `for` type, or the type)
        let mut depth = 0;
        let mut flat = String::new();
        for c in head.chars() {
            match c {
                '<' => depth += 1,
                '>' => depth -= 1,
                _ if depth == 0 => flat.push(c),
                _ => {}
            }
        }
        let flat = flat.split(" where ").next().unwrap_or("").to_string();
        if let Some(w) = flat.split(|c: char| !c.is_alphanumeric() && c != '_').filter(|w| w.chars().next().is_some_and(char::is_uppercase)).last() {
            out.insert(w.to_string());
        }
    }
    out
}

struct FnDef {
    name: String,
    body: Vec<u8>,
    in_value_impl: bool,
}

/// Every `fn name(...) {body}` outside `#[cfg(test)] mod`.
fn functions(src: &str) -> Vec<FnDef> {
    let mut s = strip(&drop_hooks(src));
    if let Some(p) = find_sub(&s, b"#[cfg(test)]", 0) {
        if let Some(m) = find_sub(&s, b"mod ", p) {
            if m - p < 40 {
                if let Some(o) = s[m..].iter().position(|&c| c == b'{') {
                    let e = block_end(&s, m + o);
                    for c in &mut s[p..e] {
                        if *c != b'\n' {
                            *c = b' ';
                        }
                    }
                }
            }
        }
    }
    // ranges of `impl … Value<…> {` blocks (inherent impl of the value type)
    let mut value_impls: Vec<(usize, usize)> = Vec::new();
    let mut from = 0;
    while let Some(p) = find_sub(&s, b"impl", from) {
        from = p + 4;
        if p > 0 && is_ident(s[p - 1]) {
            continue;
        }
        let Some(o) = s[p..].iter().position(|&c| c == b'{' || c == b';') else { break };
        if s[p + o] != b'{' {
            continue;
        }
        let head = String::from_utf8_lossy(&s[p..p + o]).to_string();
        if !head.contains(" for ") && head.contains("Value<") && !head.contains("Host") {
            value_impls.push((p + o, block_end(&s, p + o)));
        }
    }
    let mut out = Vec::new();
    let mut i = 0;
    while let Some(p) = find_sub(&s, b"fn ", i) {
        i = p + 3;
        if p > 0 && is_ident(s[p - 1]) {
            continue;
        }
        let mut j = p + 3;
        while j < s.len() && s[j] == b' ' {
            j += 1;
        }
        let st = j;
        while j < s.len() && is_ident(s[j]) {
            j += 1;
        }
        if st == j {
            continue;
        }
        let name = String::from_utf8_lossy(&s[st..j]).to_string();
        // body: first `{` at paren depth 0 before a `;`
        let mut par = 0i32;
        let mut open = None;
        while j < s.len() {
            match s[j] {
                b'(' => par += 1,
                b')' => par -= 1,
                b';' if par == 0 => break,
                b'{' if par == 0 => {
                    open = Some(j);
                    break;
                }
                _ => {}
            }
            j += 1;
        }
        let Some(open) = open else { continue };
        let e = block_end(&s, open);
        let in_value_impl = value_impls.iter().any(|&(a, b)| a < p && p < b);
        out.push(FnDef { name, body: s[open..e].to_vec(), in_value_impl });
    }
    out
}

/// Calls made by `body` to functions in `own`: `self.f(`, `Self::f(`, bare `f(`; `.f(` only for
/// `value_methods`; `XBuiltin::f(` for `builtins`; `Type::f(` for the file's own impl types when
/// `own_types` is set (front-end files).
fn callees(
    body: &[u8],
    own: &BTreeSet<String>,
    value_methods: &BTreeSet<String>,
    builtins: &BTreeSet<String>,
    follow_types: &BTreeSet<String>,
) -> BTreeSet<String> {
    let mut found = BTreeSet::new();
    let mut i = 0;
    while i < body.len() {
        if !(body[i].is_ascii_lowercase() || body[i] == b'_') || (i > 0 && is_ident(body[i - 1])) {
            i += 1;
            continue;
        }
        let st = i;
        while i < body.len() && is_ident(body[i]) {
            i += 1;
        }
        let name = String::from_utf8_lossy(&body[st..i]).to_string();
        let mut j = i;
        while j < body.len() && body[j] == b' ' {
            j += 1;
        }
        if j + 2 < body.len() && &body[j..j + 3] == b"::<" {
            // turbofish
            while j < body.len() && body[j] != b'>' {
                j += 1;
            }
            j += 1;
        }
        if j >= body.len() || body[j] != b'(' {
            // a function passed by name: `Self::f`, `Value::f`, `OwnType::f` (not followed by `(`, `::`, `!`)
            let next = if j < body.len() { body[j] } else { b' ' };
            let mut k = st;
            while k > 0 && body[k - 1] == b' ' {
                k -= 1;
            }
            if k >= 2 && &body[k - 2..k] == b"::" && next != b':' && next != b'!' && next != b'<' {
                let mut q = k - 2;
                let qe = q;
                while q > 0 && is_ident(body[q - 1]) {
                    q -= 1;
                }
                let qual = String::from_utf8_lossy(&body[q..qe]).to_string();
                if (qual == "Self" && own.contains(&name))
                    || (qual == "Value" && value_methods.contains(&name))
                    || (follow_types.contains(&qual) && own.contains(&name))
                {
                    found.insert(name);
                }
            }
            continue;
        }
        // qualifier
        let mut k = st;
        while k > 0 && (body[k - 1] == b' ' || body[k - 1] == b'\n') {
            k -= 1;
        }
        let (sep, qend) = if k >= 1 && body[k - 1] == b'.' {
            (".", k - 1)
        } else if k >= 2 && &body[k - 2..k] == b"::" {
            ("::", k - 2)
        } else {
            ("", k)
        };
        let mut q = qend;
        while q > 0 && (body[q - 1] == b' ' || body[q - 1] == b'\n') {
            q -= 1;
        }
        let qe = q;
        while q > 0 && is_ident(body[q - 1]) {
            q -= 1;
        }
        let qual = String::from_utf8_lossy(&body[q..qe]).to_string();
        match sep {
            "" => {
                if own.contains(&name) && !value_methods.contains(&name) && !matches!(name.as_str(), "fn") {
                    // `fn name(` declarations inside the body (nested fns) are not calls
                    let decl = st >= 3 && &body[st - 3..st] == b"fn ";
                    if !decl {
                        found.insert(name);
                    }
                }
            }
            "." => {
                let before_q_is_dot = q > 0 && body[q - 1] == b'.';
                if qual == "self" && !before_q_is_dot {
                    if own.contains(&name) {
                        found.insert(name);
                    }
                } else if value_methods.contains(&name) {
                    found.insert(name);
                }
            }
            _ => {
                if qual == "Self" {
                    if own.contains(&name) {
                        found.insert(name);
                    }
                } else if qual.ends_with("Builtin") {
                    if builtins.contains(&name) {
                        found.insert(name);
                    }
                } else if follow_types.contains(&qual) && own.contains(&name) {
                    found.insert(name);
                }
            }
        }
    }
    // formatting a value: `write!(…"{x}"…)`, `arena_format!`, `println!`, `format!`
    if own.contains("fmt") {
        let txt = String::from_utf8_lossy(body);
        let has_macro = ["write!(", "writeln!(", "arena_format!(", "format!(", "println!(", "print!("]
            .iter()
            .any(|m| txt.contains(m));
        let has_brace_in_string = {
            let mut inside = false;
            let mut hit = false;
            for &c in body {
                if c == b'"' {
                    inside = !inside;
                } else if inside && c == b'{' {
                    hit = true;
                }
            }
            hit
        };
        if has_macro && has_brace_in_string {
            found.insert("fmt".to_string());
        }
    }
    found
}

/// Nodes on a cycle (iterative reachability: n is small).
fn on_cycles(g: &BTreeMap<String, BTreeSet<String>>) -> BTreeSet<String> {
    let mut res = BTreeSet::new();
    for start in g.keys() {
        let mut seen = BTreeSet::new();
        let mut todo: Vec<&String> = g[start].iter().collect();
        while let Some(x) = todo.pop() {
            if x == start {
                res.insert(start.clone());
                break;
            }
            if seen.insert(x.clone()) {
                if let Some(n) = g.get(x) {
                    todo.extend(n.iter());
                }
            }
        }
    }
    res
}

fn through_nonrecursive(
    g: &BTreeMap<String, BTreeSet<String>>,
    rec: &BTreeSet<String>,
) -> BTreeMap<String, BTreeSet<String>> {
    let mut out = BTreeMap::new();
    for (a, succ) in g {
        let mut seen = BTreeSet::new();
        let mut hits = BTreeSet::new();
        let mut todo: Vec<&String> = succ.iter().collect();
        while let Some(x) = todo.pop() {
            if !seen.insert(x.clone()) {
                continue;
            }
            if rec.contains(x) {
                hits.insert(x.clone());
            } else if let Some(n) = g.get(x) {
                todo.extend(n.iter());
            }
        }
        out.insert(a.clone(), hits);
    }
    out
}

struct Scan {
    budget: u64,
    fns: BTreeSet<String>,
    edges: BTreeMap<String, BTreeSet<String>>,
    rec: BTreeSet<String>,
    guards: BTreeSet<String>,
    /// statement kind -> (the arm of `exec_stmt` descends into a block, a probe is certain before the descent)
    arms: BTreeMap<String, (bool, bool)>,
}

// ---------------------------------------------------------------------------------------------
// a probe on every path: straight-line prefixes

fn word_at(s: &[u8], i: usize, w: &[u8]) -> bool {
    s[i..].starts_with(w) && (i == 0 || !is_ident(s[i - 1])) && (i + w.len() >= s.len() || !is_ident(s[i + w.len()]))
}

/// Length of the part of `text` that every execution runs through before it can branch: up to the first
/// `if` / `match` / `while` / `for` / `else` / jump / short-circuit operator / closure bar; the condition of
/// an `if` or `while` and the scrutinee of a `match` are evaluated unconditionally and still belong to it
/// (up to the `{` that opens the block).  `loop {` is entered unconditionally; `?` leaves with an error.
fn straight_prefix_len(text: &[u8]) -> usize {
    const EXTEND: [&[u8]; 3] = [b"if", b"match", b"while"];
    const STOP: [&[u8]; 5] = [b"for", b"return", b"break", b"continue", b"else"];
    let mut i = 0;
    while i < text.len() {
        if text[i] == b'|' || text[i..].starts_with(b"&&") {
            return i;
        }
        if STOP.iter().any(|w| word_at(text, i, w)) {
            return i;
        }
        if let Some(w) = EXTEND.iter().find(|w| word_at(text, i, w)) {
            let mut j = i + w.len();
            let mut par = 0i32;
            while j < text.len() {
                match text[j] {
                    b'(' | b'[' => par += 1,
                    b')' | b']' => par -= 1,
                    b'{' if par == 0 => return j,
                    b'|' => return j,
                    b'&' if text[j..].starts_with(b"&&") => return j,
                    _ => {}
                }
                j += 1;
            }
            return j;
        }
        i += 1;
    }
    text.len()
}

/// Own functions called (`name(`) inside `text`.
fn calls_in(text: &[u8], own: &BTreeSet<String>) -> Vec<String> {
    let mut out = Vec::new();
    let mut i = 0;
    while i < text.len() {
        if !(text[i].is_ascii_lowercase() || text[i] == b'_') || (i > 0 && is_ident(text[i - 1])) {
            i += 1;
            continue;
        }
        let st = i;
        while i < text.len() && is_ident(text[i]) {
            i += 1;
        }
        let mut j = i;
        while j < text.len() && text[j] == b' ' {
            j += 1;
        }
        if j < text.len() && text[j] == b'(' {
            let name = String::from_utf8_lossy(&text[st..i]).to_string();
            if own.contains(&name) {
                out.push(name);
            }
        }
    }
    out
}

/// Is a call of a guard function certain before `text` can branch?
fn must_probe(text: &[u8], bodies: &BTreeMap<String, Vec<u8>>, own: &BTreeSet<String>, guard_fns: &BTreeSet<String>, fuel: u32) -> bool {
    let pre = &text[..straight_prefix_len(text)];
    calls_in(pre, own).iter().any(|h| {
        guard_fns.contains(h)
            || (fuel > 0 && bodies.get(h).is_some_and(|b| must_probe(&b[1..], bodies, own, guard_fns, fuel - 1)))
    })
}

/// The `Stmt::<Kind> … =>` arms of `exec_stmt`: kind -> (descends, probed on every path before the descent).
fn exec_stmt_arms(fns: &[FnDef], own: &BTreeSet<String>, guard_fns: &BTreeSet<String>) -> BTreeMap<String, (bool, bool)> {
    const DESCENT: &[u8] = b"exec_block_with_flow(";
    let mut bodies: BTreeMap<String, Vec<u8>> = BTreeMap::new();
    for f in fns {
        bodies.entry(f.name.clone()).or_insert_with(|| f.body.clone());
    }
    let Some(body) = bodies.get("exec_stmt").cloned() else { return BTreeMap::new() };
    // arm heads: `Stmt::Kind`, an optional `{..}` / `(..)` pattern, `=>`
    let mut heads: Vec<(usize, usize, String)> = Vec::new();
    let mut from = 0;
    while let Some(p) = find_sub(&body, b"Stmt::", from) {
        from = p + 6;
        let mut j = p + 6;
        let st = j;
        while j < body.len() && is_ident(body[j]) {
            j += 1;
        }
        let kind = String::from_utf8_lossy(&body[st..j]).to_string();
        let skip_ws = |mut k: usize| {
            while k < body.len() && (body[k] == b' ' || body[k] == b'\n') {
                k += 1;
            }
            k
        };
        j = skip_ws(j);
        if j < body.len() && (body[j] == b'{' || body[j] == b'(') {
            let close = if body[j] == b'{' { b'}' } else { b')' };
            match body[j..].iter().position(|&c| c == close) {
                Some(o) => j = skip_ws(j + o + 1),
                None => continue,
            }
        }
        if body[j..].starts_with(b"=>") && kind.chars().next().is_some_and(char::is_uppercase) {
            heads.push((p, j + 2, kind));
        }
    }
    let mut out = BTreeMap::new();
    for (i, (_p, after, kind)) in heads.iter().enumerate() {
        let end = heads.get(i + 1).map_or(body.len(), |h| h.0);
        let text = &body[*after..end];
        let descent = find_sub(text, DESCENT, 0);
        let probed = descent.is_some_and(|d| must_probe(&text[..d], &bodies, own, guard_fns, 4));
        out.insert(kind.clone(), (descent.is_some(), probed));
    }
    out
}

fn limit_const(body: &[u8]) -> bool {
    let t = String::from_utf8_lossy(body);
    t.contains("STACK_BUDGET")
        || t.replace(' ', "").contains(".exceeded()")
        || (t.contains("MAX_") && (t.contains("DEPTH") || t.contains("NESTING")) && !t.contains("MAX_ARRAY_NESTING"))
}

impl Scan {
    fn runtime() -> Scan {
        let root = repo();
        let src = std::fs::read_to_string(format!("{root}/src/runtime.rs")).expect("runtime.rs");
        let helpers = std::fs::read_to_string(format!("{root}/src/helpers.rs")).unwrap_or_default();
        let budget = stack_budget(&src, &helpers);
        let fns = functions(&src);
        let mut own: BTreeSet<String> = fns.iter().map(|f| f.name.clone()).collect();
        let mut value_methods: BTreeSet<String> =
            fns.iter().filter(|f| f.in_value_impl).map(|f| f.name.clone()).collect();
        value_methods.insert("fmt".to_string());
        // recursive builtins: functions of src/builtins/*.rs that call themselves through Self/self
        let mut builtin_rec: BTreeSet<String> = BTreeSet::new();
        let mut bnames: Vec<_> = std::fs::read_dir(format!("{root}/src/builtins"))
            .map(|d| d.filter_map(|e| e.ok()).map(|e| e.path()).collect::<Vec<_>>())
            .unwrap_or_default();
        bnames.sort();
        let mut builtin_bodies: Vec<FnDef> = Vec::new();
        for p in bnames {
            if p.extension().is_some_and(|e| e == "rs") {
                let bsrc = std::fs::read_to_string(&p).unwrap_or_default();
                for f in functions(&bsrc) {
                    let t = String::from_utf8_lossy(&f.body).replace(' ', "");
                    if t.contains(&format!("Self::{}(", f.name)) || t.contains(&format!("self.{}(", f.name)) {
                        builtin_rec.insert(f.name.clone());
                        builtin_bodies.push(f);
                    }
                }
            }
        }
        own.extend(builtin_rec.iter().cloned());
        let mut g: BTreeMap<String, BTreeSet<String>> = BTreeMap::new();
        let mut guard_fns = BTreeSet::new();
        for f in &fns {
            g.entry(f.name.clone()).or_default().extend(callees(&f.body, &own, &value_methods, &builtin_rec, &BTreeSet::new()));
            if limit_const(&f.body) {
                guard_fns.insert(f.name.clone());
            }
        }
        for f in &builtin_bodies {
            let e = g.entry(f.name.clone()).or_default();
            e.insert(f.name.clone());
            e.insert("fmt".to_string());
        }
        let mut guards = BTreeSet::new();
        for f in &fns {
            if guard_fns.contains(&f.name) {
                continue;
            }
            let t = String::from_utf8_lossy(&f.body).to_string();
            if guard_fns.iter().any(|gf| t.contains(&format!("{gf}("))) {
                guards.insert(f.name.clone());
            }
        }
        let rec = on_cycles(&g);
        let edges = through_nonrecursive(&g, &rec);
        let arms = exec_stmt_arms(&fns, &own, &guard_fns);
        Scan { budget, fns: own, edges, rec, guards, arms }
    }

    fn front(stage: &str) -> Option<Scan> {
        let rel = match stage {
            "lexer" => "src/syntax/scanner.rs",
            "parser" => "src/syntax/parser.rs",
            "resolver" => "src/resolver.rs",
            "cfg" => "src/analysis/cfg.rs",
            _ => return None,
        };
        let src = std::fs::read_to_string(format!("{}/{rel}", repo())).ok()?;
        let fns = functions(&src);
        let own: BTreeSet<String> = fns.iter().map(|f| f.name.clone()).collect();
        let none = BTreeSet::new();
        let types = impl_types(&src);
        let mut g: BTreeMap<String, BTreeSet<String>> = BTreeMap::new();
        let mut guard_fns = BTreeSet::new();
        for f in &fns {
            g.entry(f.name.clone()).or_default().extend(callees(&f.body, &own, &none, &none, &types));
            if limit_const(&f.body) {
                guard_fns.insert(f.name.clone());
            }
        }
        let rec = on_cycles(&g);
        let mut guards = BTreeSet::new();
        for f in &fns {
            let t = String::from_utf8_lossy(&f.body).to_string();
            if rec.contains(&f.name)
                && (guard_fns.contains(&f.name)
                    || t.contains("check_stack(")
                    || guard_fns.iter().any(|gf| t.contains(&format!("{gf}("))))
            {
                guards.insert(f.name.clone());
            }
        }
        let edges = through_nonrecursive(&g, &rec);
        Some(Scan { budget: 0, fns: own, edges, rec, guards, arms: BTreeMap::new() })
    }
}

/// `STACK_BUDGET` in bytes: the usize constants of helpers.rs and runtime.rs are evaluated over
/// literals, known constants, `+ - *` and parentheses (a later definition wins: the non-wasm one follows
/// the wasm one).
fn stack_budget(src: &str, helpers: &str) -> u64 {
    let mut defs: Vec<(String, String)> = Vec::new();
    for text in [drop_hooks(helpers), drop_hooks(src)] {
        let st = String::from_utf8_lossy(&strip(&text)).to_string();
        let mut from = 0;
        while let Some(p) = st[from..].find("const ") {
            let at = from + p;
            from = at + 6;
            if at > 0 && is_ident(st.as_bytes()[at - 1]) {
                continue;
            }
            let rest = &st[at + 6..];
            let (Some(c), Some(e), Some(end)) = (rest.find(':'), rest.find('='), rest.find(';')) else { continue };
            if !(c < e && e < end) || !rest[c + 1..e].trim().starts_with("usize") {
                continue;
            }
            defs.push((rest[..c].trim().to_string(), rest[e + 1..end].trim().to_string()));
        }
    }
    let mut consts: BTreeMap<String, u64> = BTreeMap::new();
    for _ in 0..6 {
        for (k, e) in &defs {
            if let Some(v) = const_eval(e, &consts) {
                consts.insert(k.clone(), v);
            }
        }
    }
    consts.get("STACK_BUDGET").copied().unwrap_or(0)
}

fn const_eval(expr: &str, consts: &BTreeMap<String, u64>) -> Option<u64> {
    let mut toks: Vec<String> = Vec::new();
    let b = expr.as_bytes();
    let mut i = 0;
    while i < b.len() {
        if b[i].is_ascii_whitespace() {
            i += 1;
        } else if is_ident(b[i]) {
            let st = i;
            while i < b.len() && is_ident(b[i]) {
                i += 1;
            }
            toks.push(expr[st..i].to_string());
        } else {
            toks.push((b[i] as char).to_string());
            i += 1;
        }
    }
    fn atom(t: &[String], p: &mut usize, c: &BTreeMap<String, u64>) -> Option<i128> {
        let tok = t.get(*p)?.clone();
        *p += 1;
        if tok == "(" {
            let v = add(t, p, c)?;
            if t.get(*p)? != ")" {
                return None;
            }
            *p += 1;
            return Some(v);
        }
        if tok.as_bytes()[0].is_ascii_digit() {
            return tok.replace('_', "").parse::<i128>().ok();
        }
        c.get(&tok).map(|v| i128::from(*v))
    }
    fn mul(t: &[String], p: &mut usize, c: &BTreeMap<String, u64>) -> Option<i128> {
        let mut v = atom(t, p, c)?;
        while t.get(*p).is_some_and(|x| x == "*") {
            *p += 1;
            v *= atom(t, p, c)?;
        }
        Some(v)
    }
    fn add(t: &[String], p: &mut usize, c: &BTreeMap<String, u64>) -> Option<i128> {
        let mut v = mul(t, p, c)?;
        while t.get(*p).is_some_and(|x| x == "+" || x == "-") {
            let plus = t[*p] == "+";
            *p += 1;
            let w = mul(t, p, c)?;
            v = if plus { v + w } else { v - w };
        }
        Some(v)
    }
    let mut p = 0;
    let v = add(&toks, &mut p, consts)?;
    if p == toks.len() && v >= 0 { u64::try_from(v).ok() } else { None }
}

// ---------------------------------------------------------------------------------------------

const STAGES: [&str; 4] = ["lexer", "parser", "resolver", "cfg"];

fn generate(args: &[String]) -> i32 {
    let seed = util::opt_u64(args, "--seed", 1);
    let n = util::opt_u64(args, "--n", 300);
    let mut rng = Rng::new(seed ^ 0xC08);
    let mut out = Out::new();
    let sc = Scan::runtime();
    out.line("budget");
    for f in &sc.fns {
        out.line(&format!("guard {f}"));
        out.line(&format!("rec {f}"));
    }
    for st in STAGES {
        if let Some(fs) = Scan::front(st) {
            for f in &fs.fns {
                out.line(&format!("front {st} {f}"));
            }
        }
    }
    // the arms of exec_stmt as scanned, the kinds the model knows, and one it does not
    let mut kinds: BTreeSet<String> = sc.arms.keys().cloned().collect();
    for k in ["If", "Loop", "Block", "Assign", "AssignExisting", "AssignIndex", "FunctionDef", "Return", "Break", "Continue", "Expression", "Nope"] {
        kinds.insert(k.to_string());
    }
    for k in &kinds {
        out.line(&format!("arm {k}"));
    }
    // random walks over the scanned graph (recursive core), from run_inner
    for _ in 0..n {
        let len = 2 + rng.below(40);
        let mut path = vec!["run_inner".to_string()];
        for _ in 0..len {
            let cur = path.last().unwrap();
            let succ: Vec<&String> = sc.edges.get(cur).map(|s| s.iter().collect()).unwrap_or_default();
            if succ.is_empty() {
                break;
            }
            let core: Vec<&String> = succ
                .iter()
                .copied()
                .filter(|x| !matches!(x.as_str(), "fmt" | "promote" | "clone_into" | "join"))
                .collect();
            let pool = if !core.is_empty() && rng.chance(9, 10) { &core } else { &succ };
            path.push((*rng.pick(pool)).clone());
        }
        out.line(&format!("path {}", path.join(",")));
    }
    0
}

fn run() -> i32 {
    let sc = Scan::runtime();
    let fronts: BTreeMap<&str, Scan> = STAGES.iter().filter_map(|s| Scan::front(s).map(|x| (*s, x))).collect();
    let mut out = Out::new();
    for line in util::stdin_lines() {
        let w: Vec<&str> = line.split_whitespace().collect();
        let ans = match w.as_slice() {
            ["budget"] => sc.budget.to_string(),
            ["guard", f] => bit(sc.guards.contains(*f)),
            ["rec", f] => bit(sc.rec.contains(*f)),
            ["front", st, f] => match fronts.get(st) {
                Some(fs) => format!("rec={} guard={}", bit(fs.rec.contains(*f)), bit(fs.guards.contains(*f))),
                None => "bad-op".to_string(),
            },
            ["arm", k] => match sc.arms.get(*k) {
                Some((d, p)) => format!("descends={} probed={}", bit(*d), bit(*d && *p)),
                None => "unknown-arm".to_string(),
            },
            ["path", p] => path_answer(&sc, p),
            _ => "bad-op".to_string(),
        };
        out.line(&ans);
    }
    0
}

fn bit(b: bool) -> String {
    if b { "1" } else { "0" }.to_string()
}

fn path_answer(sc: &Scan, p: &str) -> String {
    let names: Vec<&str> = p.split(',').filter(|s| !s.is_empty()).collect();
    if names.is_empty() {
        return "empty".to_string();
    }
    let (mut frames, mut guarded, mut run, mut best) = (0u32, 0u32, 0u32, 0u32);
    for (i, f) in names.iter().enumerate() {
        if i > 0 {
            let prev = names[i - 1];
            let ok = sc.edges.get(prev).is_some_and(|s| s.contains(*f));
            if !ok {
                return format!("no-edge {prev}->{f}");
            }
        }
        frames += 1;
        if sc.guards.contains(*f) {
            guarded += 1;
            run = 0;
        } else {
            run += 1;
            best = best.max(run);
        }
    }
    format!("ok frames={frames} guarded={guarded} maxfree={best}")
}
