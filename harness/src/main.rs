//! `nvh` — the verification harness: generators, in-process runners of the real crate, oracles.
//!
//! `nvh <family> <action> [options]`; every family documents its own line protocol (DESIGN.md
//! Appendix A). Actions: `gen` (write request lines), `run` (answer request lines from stdin by
//! calling the real code), plus family-specific ones.
#![feature(allocator_api)]

mod pool;
mod tables;
#[allow(dead_code)]
mod util;

fn main() {
    let args: Vec<String> = std::env::args().skip(1).collect();
    let code = match args.first().map(String::as_str) {
        Some("pool") => pool::main(&args[1..]),
        Some("dump-tables") => tables::main(&args[1..]),
        _ => {
            eprintln!("usage: nvh <pool|dump-tables> ...");
            2
        }
    };
    std::process::exit(code);
}
