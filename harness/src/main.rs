//! `nvh` — the verification harness: generators, in-process runners of the real crate, oracles.
//!
//! `nvh <family> <action> [options]`; every family documents its own line protocol at the top of
//! its module. Actions: `gen` (write request lines), `run` (answer request lines from stdin by
//! calling the real code), plus family-specific ones.
#![feature(allocator_api)]
#![allow(dead_code)]

mod ast;
mod astio;
mod bump;
mod capture;
mod cli;
mod depth;
mod factsio;
mod lex;
mod limits;
mod mem;
mod parse;
mod pipe;
mod pipeline;
mod plan;
mod pool;
mod proc;
mod readline;
mod render;
mod resolve;
mod run;
mod strs;
mod tables;
mod util;

fn main() {
    let args: Vec<String> = std::env::args().skip(1).collect();
    let rest = if args.is_empty() { &args[..] } else { &args[1..] };
    let code = match args.first().map(String::as_str) {
        Some("pool") => pool::main(rest),
        Some("ast") => ast::main(rest),
        Some("dump-tables") => tables::main(rest),
        Some("bump") => bump::main(rest),
        Some("strs") => strs::main(rest),
        Some("readline") => readline::main(rest),
        Some("render") => render::main(rest),
        Some("proc") => proc::main(rest),
        Some("limits") => limits::main(rest),
        Some("capture") => capture::main(rest),
        Some("cli") => cli::main(rest),
        Some("lex") => lex::main(rest),
        Some("parse") => parse::main(rest),
        Some("pipe") => pipe::main(rest),
        Some("resolve") => resolve::main(rest),
        Some("run") => run::main(rest),
        Some("plan") => plan::main(rest),
        Some("mem") => mem::main(rest),
        Some("depth") => depth::main(rest),
        _ => {
            eprintln!("usage: nvh <family> <action> ...");
            2
        }
    };
    std::process::exit(code);
}
